"""C14 -- iterative rejection sampling respects request, budget and acceptance rule.

Model: coq/Model/Iterative.v (batch sizes are inputs, read off the sizes of the successive
uniform() calls seen by the recording Generator), theorems Props/C14.v.  Driver: the public API
TheJoker.iterative_rejection_sample with the stub helper (prescribed likelihood profile incl.
non-finite values) and, for a few cases, the real kernel.
"""
import json
import os

import numpy as np

from common import CoqRunError, coq_Q, coq_bool, coq_list, coq_xq, load_corpus, rng_for
import sampling as S
import c02

MODELS = c02.MODELS + ["Model/Iterative.vo", "Gen/ConstsGen.vo"]

HEADER = """From Coq Require Import QArith List Bool.
From TJ Require Import Base.XQ Base.Corr Model.Reject Model.Iterative Gen.ConstsGen.
Import ListNotations.
Definition check (c : it_case) : bool := match it_check 60 c with Some false => false | _ => true end.
Definition undecided (c : it_case) : bool := match it_check 60 c with None => true | _ => false end.
"""

ERR = {"too_small": "ErrTooSmall", "no_good": "ErrNoGood", "non_finite": "ErrNonFinite", "max_iter": "ErrMaxIter"}


def gen_cases(ctx, return_logprobs=False, n_cases=None):
    rng = rng_for(ctx, 14 if not return_logprobs else 146)
    n_cases = n_cases or (110 if ctx.tier == "quick" else 1000)
    cases = []
    for k in range(n_cases):
        n = int(rng.choice([10, 25, 60, 150, 400, 600], p=[.15, .25, .25, .2, .1, .05]))
        kind = ["narrow", "wide", "ties", "flat", "spike", "ninf", "nan", "allnan", "deep", "high"][int(rng.choice(10, p=[.25, .15, .1, .1, .1, .1, .05, .05, .05, .05]))]
        if return_logprobs and kind in ("nan", "allnan"):
            kind = "narrow"
        n_req = int(rng.choice([1, 2, 3, 5, 8, 16, 64]))
        init = [None, int(rng.integers(1, max(2, n // 2))), int(rng.integers(1, n + 5))][int(rng.integers(0, 3))]
        growth = int(rng.choice([1, 2, 4, 16, 128]))
        path = ["inmem", "file_obj", "file_name"][int(rng.integers(0, 3))]
        mp = [None, int(rng.integers(1, n + 1)), n, n + 10][int(rng.choice(4, p=[.4, .4, .1, .1]))]
        if mp is not None and mp > n and path != "inmem":
            mp = n  # a budget beyond the library is not a meaningful request on the file path (choice() would fail)
        cases.append(dict(family="iterative", n=n, kind=kind, seed=int(rng.integers(0, 2**31)), path=path, n_req=n_req, init=init, growth=growth,
                          max_prior=mp, n_linear=int(rng.integers(1, 4)), randomize=bool(path != "inmem" and rng.random() < 0.5),
                          n_batches=[None, 2][int(rng.integers(0, 2))], return_logprobs=return_logprobs,
                          driver="api" if (k % 9 == 8 and kind in ("narrow", "wide", "ties", "flat", "spike")) else "stub"))
    return cases


_API_PRIOR = None


def api_prior():
    """For the real-kernel cases: sigma_K0 chosen so that, over the library's periods (2..3.6 d) and eccentricities (0..0.6), the cap
    max_K = 500 km/s on the K-prior variance is active for some rows and inactive for others."""
    global _API_PRIOR
    if _API_PRIOR is None:
        import astropy.units as u
        from thejoker.prior import JokerPrior

        _API_PRIOR = JokerPrior.default(P_min=1 * u.day, P_max=100 * u.day, sigma_K0=85 * u.km / u.s, sigma_v=100 * u.km / u.s)
    return _API_PRIOR


def make_profile(kind, n, r):
    if kind == "nan":
        p = S.profile("narrow", n, r)
        p[int(r.integers(0, n))] = np.nan
        return p
    if kind == "allnan":
        return np.full(n, np.nan)
    return S.profile(kind, n, r)


def run_impl(ctx, case):
    from thejoker.samples import JokerSamples
    from thejoker.thejoker import TheJoker

    n = case["n"]
    api = case["driver"] == "api"
    lib = S.make_library(n, seed=case["seed"] % 1000, with_lnprior=True, alt_units=case["seed"] % 3 == 0 or api)
    if api:
        # the real kernel: a library that mixes rows of exactly zero jitter with jittered rows (and, with c02.real_prior(), rows whose
        # K-prior variance is capped with rows where it is not), so that nothing a row leaves behind in the helper goes unnoticed
        sj = lib["s"].copy()
        sj[::3] = 0 * sj.unit
        lib["s"] = sj
    rec = S.RecGen(case["seed"])
    joker = TheJoker(api_prior() if api else c02.real_prior(), rng=rec)
    stub = None
    if case["driver"] == "stub":
        stub = S.StubHelper(make_profile(case["kind"], n, np.random.default_rng(case["seed"] + 1)))
        joker._make_joker_helper = lambda data: stub
        data = None
    else:
        data = c02.real_data()
    fn = None
    if case["path"] == "file_name":
        fn = os.path.join(ctx.scratch, f"libit_{os.getpid()}_{case['seed']}.hdf5")
        lib.write(fn, overwrite=True)
    kw = dict(n_requested_samples=case["n_req"], max_prior_samples=case["max_prior"], n_linear_samples=case["n_linear"],
              return_logprobs=case["return_logprobs"], init_batch_size=case["init"], growth_factor=case["growth"],
              in_memory=(case["path"] == "inmem"))
    if case["path"] != "inmem":
        kw.update(n_batches=case["n_batches"], randomize_prior_order=case["randomize"])
    obs = dict(stub=stub, lib=lib, rec=rec)
    if api:
        # reference likelihood of every library row: evaluated alone, by a sampler of its own
        import warnings

        with warnings.catch_warnings():
            warnings.simplefilter("ignore")
            obs["ref_lls"] = np.array([float(np.asarray(TheJoker(api_prior(), rng=np.random.default_rng(0)).marginal_ln_likelihood(data, lib[i: i + 1], in_memory=True))[0])
                                       for i in range(n)])
    try:
        res = joker.iterative_rejection_sample(data, fn if fn else lib, **kw)
        if isinstance(res, JokerSamples):
            rows, cols = S.observe_rows(res)
            obs.update(kind="rows", rows=rows, cols=cols, samples=res)
        else:
            obs.update(kind="nonresult", value=repr(res)[:200])
    except ValueError as e:
        obs.update(kind="raised", err="too_small" if "not big enough" in str(e) else "other:" + str(e)[:120])
    except RuntimeError as e:
        m = str(e)
        err = ("no_good" if "Failed to find any good" in m or "No likelihood values" in m else "non_finite" if "NaN or Inf" in m
               else "max_iter" if "maximum number of iterations" in m else "other:" + m[:120])
        obs.update(kind="raised", err=err)
    except Exception as e:
        obs.update(kind="raised", err=f"other:{type(e).__name__}:{str(e)[:120]}")
    finally:
        if fn and os.path.exists(fn):
            os.unlink(fn)
    un = rec.calls("uniform")
    ch = rec.calls("choice")
    obs["draws"] = [np.asarray(v, float) for _, v in un]
    obs["order"] = ch[0][1].tolist() if ch else None
    return obs


def setup_numbers(case, obs):
    n = case["n"]
    budget = case["max_prior"] if case["max_prior"] is not None else n
    if case["path"] == "inmem":
        budget = min(budget, n)
    first = case["init"] if case["init"] is not None else case["growth"] * case["n_req"]
    order = np.asarray(obs["order"]) if obs["order"] is not None else np.arange(min(budget, n))
    return budget, first, order


_SAFETY = {}


def safety_factor(path):
    """the `safety_factor` literal of the in-memory / cache-file loop, read from the source the check runs against"""
    import ast
    import inspect

    key = "inmem" if path == "inmem" else "file"
    if key not in _SAFETY:
        import thejoker.likelihood_helpers as lh
        import thejoker.multiproc_helpers as mh

        fn = lh.iterative_rejection_inmem if key == "inmem" else mh.iterative_rejection_helper
        fn = getattr(fn, "__wrapped__", fn)
        val = None
        for n in ast.walk(ast.parse(inspect.getsource(inspect.getmodule(fn)))):
            if isinstance(n, ast.FunctionDef) and n.name == fn.__name__:
                for a in ast.walk(n):
                    if isinstance(a, ast.Assign) and len(a.targets) == 1 and isinstance(a.targets[0], ast.Name) and a.targets[0].id == "safety_factor" and isinstance(a.value, ast.Constant):
                        val = a.value.value
        _SAFETY[key] = 1 if val is None else val
    return _SAFETY[key]


def early_stop_ok(case, n_good, n_evals):
    """The sampler's own estimate of the next batch size, int(safety_factor * n_need / n_good * n_ll_evals), evaluated as the code
    does (Python floats).  Mathematically >= 1; in floating point (1/n)*n < 1 for n = 49, 98, 103, ..: when it is <= 0 the loop
    ends with fewer samples than requested although budget is left -- allowed by the property (fewer passed than requested)."""
    if n_good <= 0 or n_good >= case["n_req"]:
        return False
    n_need = case["n_req"] - n_good
    return int(safety_factor(case["path"]) * n_need / n_good * n_evals) <= 0


def predicate(case, obs):
    errs = []
    budget, first, order = setup_numbers(case, obs)
    if obs["kind"] == "nonresult":
        return [f"iterative_rejection_sample RETURNED {obs['value']} instead of raising or returning a JokerSamples"]
    if obs["kind"] == "raised" and obs["err"].startswith("other:"):
        return [f"unexpected exception {obs['err']}"]
    if first > budget:
        if not (obs["kind"] == "raised" and obs["err"] == "too_small"):
            errs.append(f"library/budget ({budget}) smaller than the first batch ({first}) but the call did not raise the size error: {obs['kind']}")
        return errs
    if obs["kind"] == "raised" and obs["err"] == "too_small":
        return [f"size error raised although first batch {first} <= budget {budget}"]
    draws = obs["draws"]
    cks = [len(d) for d in draws]
    if not cks:
        stub = obs["stub"]
        if obs["kind"] == "raised" and obs["err"] == "non_finite" and case["path"] == "inmem" and stub is not None:
            # the in-memory guard raised in the first iteration, before any draw
            ev = stub.evaluated
            if not (0 < len(ev) <= budget and ev == order[: len(ev)].tolist() and not np.isfinite(stub.profile[order][: len(ev)]).all()):
                errs.append("non-finite guard raised without non-finite likelihoods among the evaluated rows, or outside the budget")
            return errs
        return errs + ["no uniform draws recorded"]
    if any(b <= a for a, b in zip(cks, cks[1:])):
        errs.append(f"evaluated counts per iteration not increasing: {cks}")
    if cks[-1] > budget:
        errs.append(f"evaluated {cks[-1]} prior samples with a budget of {budget} (max_prior_samples={case['max_prior']}, library {case['n']})")
    if obs["order"] is not None and (len(set(obs["order"])) != len(obs["order"]) or len(obs["order"]) != budget):
        errs.append("shuffled order is not a selection of `budget` distinct library rows")
        return errs
    stub = obs["stub"]
    profile = stub.profile if stub is not None else obs.get("ref_lls")  # real kernel: each row's likelihood evaluated alone by another sampler
    if profile is not None:
        if stub is not None:
            ev = stub.evaluated
            guard_raise = obs["kind"] == "raised" and obs["err"] == "non_finite" and case["path"] == "inmem"
            if len(ev) > budget:
                errs.append(f"evaluated {len(ev)} prior samples with a budget of {budget}")
            if ev != order[: len(ev)].tolist() or (len(ev) != cks[-1] and not guard_raise):
                errs.append(f"evaluated library rows are not the first {cks[-1]} rows of the evaluation order, each once (got {len(ev)} evaluations, {len(set(ev))} distinct)")
        prof = np.asarray(profile)[order]
        with np.errstate(all="ignore"):
            allv = prof[: cks[-1]]
            good = np.where(np.exp(allv - allv.max()) > draws[-1])[0] if len(draws[-1]) == len(allv) else None
        if good is None:
            errs.append("last uniform draw does not have one value per evaluated sample")
        elif obs["kind"] == "rows":
            if case["path"] == "inmem" and not np.isfinite(allv).all():
                errs.append("in-memory path returned samples although non-finite likelihoods were evaluated (its guard must raise)")
            sel = good[: case["n_req"]]
            exp_rows = np.repeat(order[sel], case["n_linear"]).tolist()
            if obs["rows"] != exp_rows:
                errs.append(f"returned rows {obs['rows'][:10]} are not the first {case['n_req']} samples accepted by the rule against everything evaluated {exp_rows[:10]}")
            if len(obs["rows"]) > case["n_req"] * case["n_linear"]:
                errs.append("more samples than requested")
            if len(good) >= case["n_req"] and len(obs["rows"]) != case["n_req"] * case["n_linear"]:
                errs.append(f"{len(good)} samples passed but {len(obs['rows']) // case['n_linear']} returned for a request of {case['n_req']}")
            if len(good) < case["n_req"] and cks[-1] < budget and not early_stop_ok(case, len(good), cks[-1]):
                errs.append(f"stopped with {len(good)} < {case['n_req']} samples although only {cks[-1]} of {budget} allowed samples were evaluated")
            if case["return_logprobs"]:
                import c06

                errs += c06.extra_pred(case, obs)
        elif obs["kind"] == "raised" and obs["err"] == "no_good" and len(good) > 0:
            errs.append("raised 'no good samples' although the rule accepts some")
    return errs


def case_term(case, obs):
    budget, first, order = setup_numbers(case, obs)
    stub = obs["stub"]
    if stub is None:
        return None
    prof = stub.profile[order]
    steps = []
    prev = 0
    for d in obs["draws"]:
        steps.append(f"({len(d) - prev}%nat, {coq_list([coq_Q(x) for x in d])})")
        prev = len(d)
    if len(stub.evaluated) > prev:
        # a last batch was evaluated but the call ended before drawing for it (the in-memory non-finite guard raises first)
        steps.append(f"({len(stub.evaluated) - prev}%nat, [])")
    if obs["kind"] == "rows":
        def col(name):
            if not case["return_logprobs"]:
                return "None"
            fl = S.col_as_floats(obs["cols"].get(name)) if name in obs["cols"] else None
            if fl is None:
                return "(Some [XNaN; XNaN; XNaN; XPInf])"
            return "(Some " + coq_list([coq_xq(x) for x in fl]) + ")"
        o = f"(ObsRows {coq_list([f'{int(i)}%nat' for i in obs['rows']])} {col('ln_likelihood')} {col('ln_prior')})"
    elif obs["kind"] == "raised":
        o = f"(ObsRaised {ERR.get(obs['err'], 'ErrProtocol')})"
    else:
        o = "ObsNonResult"
    ordt = "None" if obs["order"] is None else "(Some " + coq_list([f"{int(i)}%nat" for i in obs["order"]]) + ")"
    lnp = coq_list([coq_xq(x) for x in S.lnprior_of_row(np.arange(case["n"]))])
    # did the code's own next-batch estimate vanish after the last recorded iteration? (then an early end is the code's documented behaviour)
    early = False
    if obs["kind"] == "rows" and obs["draws"] and len(obs["draws"][-1]) == prev and len(prof) >= prev:  # (more draws than the budget allows: left to the model)
        with np.errstate(all="ignore"):
            allv = prof[:prev]
            n_good = int(np.count_nonzero(np.exp(allv - allv.max()) > np.asarray(obs["draws"][-1], float)))
        early = early_stop_ok(case, n_good, prev)
    return (f"(mk_it_case {coq_bool(case['path'] == 'inmem')} {coq_list([coq_xq(x) for x in prof])} {ordt} {case['n_req']}%nat {budget}%nat "
            f"{first}%nat {'maxiter_inmem_gen' if case['path'] == 'inmem' else 'maxiter_file_gen'} {coq_bool(early)} {case['n_linear']}%nat {lnp} {coq_list(steps)} {o})")


def classify(case, msg):
    return "C14:iterative"


def run_cases(ctx, cases, prop="C14", classify_fn=None):
    classify_fn = classify_fn or classify
    terms, kept, nt = [], [], 0
    for c in cases:
        obs = run_impl(ctx, c)
        errs = predicate(c, obs)
        show = {k: c[k] for k in ("n", "kind", "path", "driver", "n_req", "init", "growth", "max_prior", "n_linear", "randomize")}
        for e in errs[:1]:
            ctx.fail("predicate", classify_fn(c, e), e + f" [{show}]", case=c)
        t = case_term(c, obs)
        if t is not None:
            terms.append(t)
            kept.append(c)
        nt += len(obs["draws"]) > 1 or obs["kind"] == "raised"
    bad = ctx.coq_check_cases(prop.lower() + "_it", HEADER, terms, "check", shard=25, info_fn="undecided")
    for i in bad:
        ctx.fail("correspondence", classify_fn(kept[i], "model"), f"model (Model/Iterative.v it_check) and implementation disagree [{kept[i]}]", case=kept[i])
    ctx.coverage["undecided_cases_iterative"] = len(ctx.last_info)
    if kept:
        ctx.samples.append({"input": kept[0], "coq_case": terms[0][:400]})
    return len(cases), nt


def run(ctx):
    ctx.make_overlay(need_kernel=True)
    ctx.regen_all(needed=("py2v_reject.py", "consts2v.py", "py2v_iter.py", "py2v_entry.py"))  # Gen/RejectSites.v, Gen/ConstsGen.v: rejection sites and loop bounds as the source has them now
    ok = ctx.build_models(MODELS)
    if ok:
        ctx.build_props()
        ctx.build_props("Props/C02g.vo")  # the generated rejection sites (rule, truncation, index spaces, columns) are the model
        ctx.build_props("Props/C06g.vo")  # entry-point routing: max_prior_samples cuts the in-memory library to its first rows
        ctx.build_props("Props/C14c.vo")  # loop bounds read from the source
        ctx.build_props("Props/C14b.vo")  # block bookkeeping of both iterative loops, generated from the source: contiguous, disjoint, within the limit
    cases = load_corpus("C14") + gen_cases(ctx)
    n_eval = nt = 0
    try:
        if ok:
            n_eval, nt = run_cases(ctx, cases)
    except CoqRunError as e:
        ctx.broken_ties.append("correspondence could not be evaluated: " + str(e)[:500])
        ok = False
    if not ok:
        for c in cases[:80]:
            n_eval += 1
            errs = predicate(c, run_impl(ctx, c))
            if errs:
                ctx.fail("predicate", "C14:iterative", errs[0], case=c)
                break
    ctx.coverage.update(evaluations=n_eval, distinct_nontrivial=nt)
    return ctx.finish(
        rule="iterative_rejection_sample through the public API: libraries 10..600, n_requested 1..64, init_batch_size None/random (also larger than "
        "the library), growth_factor 1..128, max_prior_samples None/<N/=N/>N, randomize, n_linear 1..3, in-memory / object / file-name paths; "
        "likelihood profiles narrow, wide, ties, flat, spike, -inf entries, a NaN entry, all NaN (stub helper) and the real kernel for 1 in 9; "
        "non-trivial = more than one iteration, or a raise",
        assumptions=["as C02 (decision margin 1e-9, recording Generator)", "batch sizes are read off the sizes of the successive uniform() calls"],
        trusted_extra=["Coq-Interval through Base/RealEnc.v (acceptance decisions)", "translators tools/py2v_reject.py, tools/consts2v.py, tools/py2v_iter.py (fail-closed)"],
    )


def replay(ctx, path):
    payload = json.load(open(path))
    ctx.make_overlay(need_kernel=True)
    case = payload.get("case")
    if case is None:
        return run(ctx)
    ctx.regen_all()
    if ctx.build_models(MODELS):
        run_cases(ctx, [case])
    else:
        for p in predicate(case, run_impl(ctx, case)):
            ctx.fail("predicate", "C14:iterative", p, case=case)
    for f in ctx.failures:
        print("REPLAY-FAILS:", f.text)
    if not ctx.failures:
        print("REPLAY-PASSES")
    return 1 if ctx.failures else 0
