"""Shared machinery of the /verif checks (see DESIGN.md 2.4-2.5, 5).

One check run =
  overlay of /repo's working tree (+ extension rebuilt from the current generated C)
  -> translators regenerate coq/Gen/*.v
  -> `make` the .vo closure of Props/<id>.vo, then `coqc Props/<id>.v` (captures Print Assumptions)
  -> property module: generate cases, run the implementation, let Coq compare it with the model
     (case files, vm_compute / interval certificates), run the independent property predicate
  -> verdict, evidence/<id>.json, replay files.
"""
import atexit
import fcntl
import hashlib
import json
import math
import os
import re
import shutil
import subprocess
import sys
import tempfile
import time
from concurrent.futures import ThreadPoolExecutor
from fractions import Fraction

VERIF = os.path.dirname(os.path.dirname(os.path.abspath(__file__)))
REPO = os.environ.get("VERIF_REPO", "/repo")
COQ = os.path.join(VERIF, "coq")
COQC_TIMEOUT = 900
NPROC = min(16, os.cpu_count() or 4)


# ----------------------------------------------------------------------------------------------
# exact numbers
def frac(x):
    """float/int -> exact Fraction (every finite double is a dyadic rational)."""
    if isinstance(x, Fraction):
        return x
    if isinstance(x, (bool,)):
        raise TypeError("bool")
    if isinstance(x, int):
        return Fraction(x)
    x = float(x)
    if not math.isfinite(x):
        raise ValueError("non-finite")
    return Fraction(*x.as_integer_ratio())


def coq_Z(n):
    n = int(n)
    return f"({n})" if n < 0 else str(n)


def coq_Q(x):
    """Coq Q literal (num # den) of the exact value of x."""
    f = frac(x)
    return f"({f.numerator} # {f.denominator})"


def coq_xq(x):
    """extended rational literal of Base/XQ.v for a float that may be nan/inf."""
    x = float(x)
    if math.isnan(x):
        return "XNaN"
    if math.isinf(x):
        return "XPInf" if x > 0 else "XNInf"
    return f"(XFin {coq_Q(x)})"


def coq_bigQ(x):
    f = frac(x)
    if f.denominator == 1:
        return f"({f.numerator})%bigQ"
    return f"({f.numerator} # {f.denominator})%bigQ"


def coq_R(x):
    """Coq R term (IZR num / IZR den) for the exact value of x, suitable for `interval`."""
    f = frac(x)
    if f.denominator == 1:
        return f"({f.numerator})%R" if f.numerator >= 0 else f"(-({-f.numerator}))%R"
    n = f"{f.numerator}" if f.numerator >= 0 else f"(-({-f.numerator}))"
    return f"({n} / {f.denominator})%R"


def coq_list(items):
    return "[" + "; ".join(items) + "]"


def coq_bool(b):
    return "true" if b else "false"


def coq_option(x, f=str):
    return "None" if x is None else f"(Some {f(x)})"


def exact_str(x):
    """Self-describing exact number for replay files."""
    try:
        f = frac(x)
        return {"float": repr(float(x)), "exact": f"{f.numerator}/{f.denominator}"}
    except (ValueError, TypeError):
        return {"float": repr(x)}


# ----------------------------------------------------------------------------------------------
class Failure:
    def __init__(self, kind, sig, text, case=None, extra=None):
        self.kind = kind  # 'predicate' | 'correspondence' | 'proof' | 'translator'
        self.sig = sig  # stable signature used to match known findings
        self.text = text
        self.case = case
        self.extra = extra or {}
        self.has_input = case is not None and kind in ("predicate", "correspondence")


class Ctx:
    def __init__(self, prop, tier, seed):
        self.prop = prop
        self.tier = tier
        self.seed = seed
        self.t0 = time.time()
        self.scratch = tempfile.mkdtemp(prefix=f"tjverif.{prop}.", dir="/dev/shm" if os.path.isdir("/dev/shm") else None)
        atexit.register(shutil.rmtree, self.scratch, True)
        self.overlay = None
        self.failures = []
        self.notes = []
        self.obligations = 0
        self.discharged = 0
        self.theorems = []
        self.assumptions_seen = []
        self.coverage = {}
        self.samples = []
        self.case_lemmas = 0
        self.case_lemmas_ok = 0
        self.coq_files_run = 0
        self.kernel_key = None
        self.broken_ties = []

    # -- overlay ------------------------------------------------------------------------------
    def make_overlay(self, need_kernel=True):
        ov = os.path.join(self.scratch, "overlay")
        os.makedirs(ov)
        src = os.path.join(REPO, "thejoker")
        shutil.copytree(
            src,
            os.path.join(ov, "thejoker"),
            ignore=shutil.ignore_patterns("*.so", "__pycache__", "*.pyc", "*.c"),
        )
        if need_kernel:
            r = subprocess.run(
                [os.path.join(VERIF, "tools", "kernel_build.sh"), REPO, os.path.join(ov, "thejoker", "src")],
                capture_output=True,
                text=True,
            )
            if r.returncode != 0:
                raise RuntimeError("kernel build failed:\n" + r.stdout + r.stderr)
            self.kernel_key = r.stdout.strip().splitlines()[-1]
        self.overlay = ov
        sys.path.insert(0, ov)
        os.environ["PYTHONPATH"] = ov + os.pathsep + os.environ.get("PYTHONPATH", "")
        tmp = os.path.join(self.scratch, "tmp")
        os.makedirs(tmp, exist_ok=True)
        os.environ["TMPDIR"] = tmp
        tempfile.tempdir = tmp
        return ov

    # -- failures -----------------------------------------------------------------------------
    def fail(self, kind, sig, text, case=None, extra=None):
        self.failures.append(Failure(kind, sig, text, case, extra))

    def note(self, s):
        self.notes.append(s)
        print(f"[{self.prop}] {s}", flush=True)

    # -- coq ----------------------------------------------------------------------------------
    def regen_all(self, needed=()):
        """Run every translator on /repo's current sources (Gen/*.v are never trusted from a previous run).
        Returns True if all translators in `needed` (script names) succeeded."""
        sys.path.insert(0, os.path.join(VERIF, "tools"))
        import regen_all as ra

        ok = True
        self.translator_ok = {}
        for script, out_rel in ra.JOBS:
            good, msg = self.run_translator(script, out_rel, record=script in needed)
            self.translator_ok[script] = good
            if script in needed:
                self.note(msg[-300:])
                ok = ok and good
        return ok

    def run_translator(self, script, out_rel, *extra, record=True):
        """Run a translator on the overlay's sources; returns (ok, message)."""
        out = os.path.join(COQ, out_rel)
        with open(os.path.join(COQ, ".lock"), "w") as lk:
            fcntl.flock(lk, fcntl.LOCK_EX)
            r = subprocess.run(
                ["/venv/bin/python", os.path.join(VERIF, "tools", script), REPO, out, *extra],
                capture_output=True,
                text=True,
            )
        msg = (r.stdout + r.stderr).strip()
        if r.returncode != 0:
            if record:
                self.broken_ties.append(f"translator {script}: {msg}")
            return False, msg
        return True, msg

    def build_models(self, targets):
        """make the executable models the case files import (no proofs involved).  Returns True on success."""
        with open(os.path.join(COQ, ".lock"), "w") as lk:
            fcntl.flock(lk, fcntl.LOCK_EX)
            if not os.path.exists(os.path.join(COQ, "Makefile")):
                subprocess.run(["coq_makefile", "-f", "_CoqProject", "-o", "Makefile"], cwd=COQ, check=True, capture_output=True)
            r = subprocess.run(["timeout", str(COQC_TIMEOUT), "make", "-j", str(NPROC)] + list(targets), cwd=COQ, capture_output=True, text=True)
        if r.returncode != 0:
            where = locate_coq_error(r.stdout + r.stderr)
            self.broken_ties.append(f"model does not compile: {where}")
            return False
        return True

    def build_props(self, target=None):
        """make the closure of Props/<id>.vo; then coqc Props/<id>.v to capture Print Assumptions.
        Returns True if every obligation was accepted."""
        target = target or f"Props/{self.prop}.vo"
        vfile = os.path.join(COQ, target[:-1])
        names = theorem_names(vfile)
        self.theorems = list(self.theorems) + names
        self.obligations += len(names)
        with open(os.path.join(COQ, ".lock"), "w") as lk:
            fcntl.flock(lk, fcntl.LOCK_EX)
            if not os.path.exists(os.path.join(COQ, "Makefile")):
                subprocess.run(["coq_makefile", "-f", "_CoqProject", "-o", "Makefile"], cwd=COQ, check=True, capture_output=True)
            r = subprocess.run(
                ["timeout", str(COQC_TIMEOUT), "make", "-j", str(NPROC), target],
                cwd=COQ,
                capture_output=True,
                text=True,
            )
            out = r.stdout + r.stderr
            if r.returncode == 0:
                # always re-run the property file itself so that its Print Assumptions output is this run's
                r2 = subprocess.run(
                    ["timeout", str(COQC_TIMEOUT), "coqc"] + coq_args() + [vfile],
                    cwd=COQ,
                    capture_output=True,
                    text=True,
                )
                out2 = r2.stdout + r2.stderr
                if r2.returncode != 0:
                    r, out = r2, out2
                else:
                    self.assumptions_seen = list(dict.fromkeys(list(self.assumptions_seen) + parse_assumptions(out2)))
        self.checker_cmd = f"make -C {COQ} {target} && coqc {' '.join(coq_args())} {target[:-1]}"
        if r.returncode != 0:
            where = locate_coq_error(out)
            self.proof_error = {"where": where, "log": out[-3000:]}
            self.broken_ties.append(f"proof obligation: {where}")
            return False
        self.discharged += len(names)
        self.proof_error = None
        return True

    def coq_eval(self, name, text, timeout=COQC_TIMEOUT):
        """Compile one generated case file; returns (returncode, stdout+stderr)."""
        d = os.path.join(self.scratch, "cases")
        os.makedirs(d, exist_ok=True)
        path = os.path.join(d, name + ".v")
        with open(path, "w") as f:
            f.write(text)
        r = subprocess.run(
            ["timeout", str(timeout), "coqc"] + coq_args() + [path],
            cwd=d,
            capture_output=True,
            text=True,
        )
        self.coq_files_run += 1
        return r.returncode, r.stdout + r.stderr

    def coq_eval_many(self, files, timeout=COQC_TIMEOUT):
        """files: list of (name, text); run in parallel; returns list of (rc, out)."""
        with ThreadPoolExecutor(max_workers=NPROC) as ex:
            return list(ex.map(lambda nt: self.coq_eval(nt[0], nt[1], timeout), files))

    # -- exact-certificate protocol --------------------------------------------------------------
    def coq_check_cases(self, tag, header, case_terms, check_fn, shard=400, extra_defs="", max_bytes=60000, alt_fn=None, info_fn=None):
        """Let Coq decide `check_fn case = true` for every case term.
        Returns the list of indices (into case_terms) for which the check is false, or raises
        CoqRunError if a file did not compile for another reason.
        Each shard file ends with the kernel-checked certificate `Lemma corr : bad = []`.
        With alt_fn (the faithful model of a listed known finding) the certificate is
        `every case passes check_fn or alt_fn`, and the return value is (bad, bad_even_with_alt)."""
        files = []
        spans = []
        k = 0
        while k < len(case_terms):
            # shard by count and by bytes: Coq's parser is superlinear in the size of one literal
            j, size = k, 0
            while j < len(case_terms) and j - k < shard and (size < max_bytes or j == k):
                size += len(case_terms[j])
                j += 1
            chunk = case_terms[k:j]
            body = [header, extra_defs]
            # the element type comes from the checker's domain, so that components that are empty lists in every case of a shard are typed
            body.append(f"Definition the_check := ({check_fn}).")
            body.append("Definition cases := ltac:(let t := type of the_check in match t with ?A -> _ => exact (" + coq_list(chunk) + " : list A) end).")
            body.append(f"Definition results : list bool := Eval vm_compute in (map ({check_fn}) cases).")
            body.append("Definition bad : list nat := Eval vm_compute in (failing_idx results).")
            body.append("Eval vm_compute in bad.")
            if alt_fn:
                body.append(f"Definition results2 : list bool := Eval vm_compute in (map (fun c => ({check_fn}) c || ({alt_fn}) c) cases).")
                body.append("Definition bad2 : list nat := Eval vm_compute in (failing_idx results2).")
                body.append("Eval vm_compute in bad2.")
                body.append("Lemma corr : bad2 = []. Proof. reflexivity. Qed.")
            else:
                body.append("Lemma corr : bad = []. Proof. reflexivity. Qed.")
            if info_fn:  # informational only (e.g. which cases were undecided): not part of the certificate
                body.append(f"Eval vm_compute in (failing_idx (map (fun c => negb (({info_fn}) c)) cases)).")
            files.append((f"{tag}_{len(files)}", "\n".join(body) + "\n"))
            spans.append(k)
            k = j
        res = self.coq_eval_many(files)
        badidx, bad2idx = [], []
        self.last_info = []
        for (rc, out), k0, (nm, _) in zip(res, spans, files):
            self.case_lemmas += 1
            vals = parse_evals(out)
            need = 2 if alt_fn else 1
            if len(vals) < need:
                raise CoqRunError(f"case file {nm} produced no result:\n{out[-2000:]}")
            lst = parse_nat_list(vals[0])
            lst2 = parse_nat_list(vals[1]) if alt_fn else lst
            if rc == 0 and not lst2:
                self.case_lemmas_ok += 1
            elif not lst2:
                raise CoqRunError(f"case file {nm} failed:\n{out[-2000:]}")
            badidx.extend(k0 + i for i in lst)
            bad2idx.extend(k0 + i for i in lst2)
            if info_fn and len(vals) > need:
                self.last_info.extend(k0 + i for i in parse_nat_list(vals[need]))
        return (badidx, bad2idx) if alt_fn else badidx

    def coq_check_codes(self, tag, header, case_terms, code_fn, shard=400, max_bytes=60000, timeout=COQC_TIMEOUT):
        """Like coq_check_cases, but `code_fn case : nat` is a bit mask of failed sub-checks (0 = all passed), computed once
        per case.  Returns the list of codes (one per case).  Certificate per shard: `Lemma corr : bad = []`."""
        files, spans = [], []
        k = 0
        while k < len(case_terms):
            j, size = k, 0
            while j < len(case_terms) and j - k < shard and (size < max_bytes or j == k):
                size += len(case_terms[j])
                j += 1
            body = [header, f"Definition the_code := ({code_fn}).",
                    "Definition cases := ltac:(let t := type of the_code in match t with ?A -> _ => exact (" + coq_list(case_terms[k:j]) + " : list A) end).",
                    f"Definition codes : list nat := Eval vm_compute in (map ({code_fn}) cases).",
                    "Eval vm_compute in codes.",
                    "Definition bad : list nat := Eval vm_compute in (failing_idx (map (Nat.eqb 0) codes)).",
                    "Lemma corr : bad = []. Proof. reflexivity. Qed."]
            files.append((f"{tag}_{len(files)}", "\n".join(body) + "\n"))
            spans.append((k, j))
            k = j
        with ThreadPoolExecutor(max_workers=NPROC) as ex:
            res = list(ex.map(lambda nt: self.coq_eval(nt[0], nt[1], timeout), files))
        codes = []
        for (rc, out), (k0, k1), (nm, _) in zip(res, spans, files):
            self.case_lemmas += 1
            vals = parse_evals(out)
            if not vals:
                raise CoqRunError(f"case file {nm} produced no result:\n{out[-2000:]}")
            lst = parse_nat_list(vals[0])
            if len(lst) != k1 - k0:
                raise CoqRunError(f"case file {nm}: {len(lst)} codes for {k1 - k0} cases")
            if rc == 0 and not any(lst):
                self.case_lemmas_ok += 1
            elif not any(lst):
                raise CoqRunError(f"case file {nm} failed:\n{out[-2000:]}")
            codes.extend(lst)
        return codes

    # -- verdict --------------------------------------------------------------------------------
    def finish(self, level="proof", rule="", assumptions=None, trusted_extra=None, exhaustive=None, extra_cov=None):
        known = load_known(self.prop)
        viol = []
        known_hits = {}
        for f in self.failures:
            k = match_known(known, f)
            if k is not None:
                known_hits.setdefault(k["id"], (k, f))
            else:
                viol.append(f)
        for kid, (k, f) in known_hits.items():
            print(f"KNOWN-FINDING: property={self.prop} {k['id']}: {k['text']} [{f.text[:160]}]")
        # broken proof/translator with no failing input
        violation_lines = []
        if viol:
            withinput = [f for f in viol if f.has_input]
            pick = withinput[0] if withinput else viol[0]
            rp = self.write_replay(pick, viol)
            tail = "" if pick.has_input else " no-failing-input-found"
            violation_lines.append(f"VIOLATION property={self.prop} replay={rp}{tail}")
        elif self.broken_ties and not known_hits:
            f = Failure("proof", "broken-tie", "; ".join(self.broken_ties))
            rp = self.write_replay(f, [f])
            violation_lines.append(f"VIOLATION property={self.prop} replay={rp} no-failing-input-found")
        elif self.broken_ties and known_hits:
            # a broken obligation explained by a listed finding (the finding is the failing input)
            self.note("broken obligation(s) accounted for by listed known finding(s): " + "; ".join(self.broken_ties))
        cov = dict(self.coverage)
        obligations = self.obligations + self.case_lemmas
        discharged = self.discharged + self.case_lemmas_ok
        cov.update(
            {
                "obligations": obligations,
                "discharged": discharged,
                "checker_cmd": getattr(self, "checker_cmd", "coqc"),
                "trusted_base": trusted_base(self, trusted_extra),
                "theorems": self.theorems,
                "per_run_certificates": self.case_lemmas,
                "rule": rule,
                "samples": self.samples[:6] if self.samples else [{"note": "no dynamic cases in this run"}],
                "kernel_build": self.kernel_key,
                "broken_ties": self.broken_ties,
                "notes": self.notes[-20:],
            }
        )
        cov.setdefault("evaluations", 0)
        cov.setdefault("distinct_nontrivial", 0)
        if exhaustive is not None:
            cov["exhaustive"] = bool(exhaustive)
        if extra_cov:
            cov.update(extra_cov)
        ev = {
            "property_id": self.prop,
            "tier": self.tier,
            "seed": int(self.seed),
            "level": level,
            "coverage": cov,
            "assumptions": assumptions or [],
            "wall_s": round(time.time() - self.t0, 2),
            "violations": len(violation_lines),
        }
        os.makedirs(os.path.join(VERIF, "evidence"), exist_ok=True)
        with open(os.path.join(VERIF, "evidence", f"{self.prop}.json"), "w") as fh:
            json.dump(ev, fh, indent=1, default=str)
        for ln in violation_lines:
            print(ln)
        print(
            f"[{self.prop}] tier={self.tier} seed={self.seed} obligations={obligations} discharged={discharged} "
            f"evaluations={cov.get('evaluations')} nontrivial={cov.get('distinct_nontrivial')} "
            f"known={len(known_hits)} violations={len(violation_lines)} wall={ev['wall_s']}s",
            flush=True,
        )
        return 1 if violation_lines else 0

    def write_replay(self, pick, allf):
        os.makedirs(os.path.join(VERIF, "replays"), exist_ok=True)
        h = hashlib.sha1(json.dumps([pick.sig, pick.text, str(pick.case)], default=str).encode()).hexdigest()[:10]
        path = os.path.join(VERIF, "replays", f"{self.prop}-{self.seed}-{h}.json")
        payload = {
            "property": self.prop,
            "tier": self.tier,
            "seed": self.seed,
            "kind": pick.kind,
            "signature": pick.sig,
            "what_fails": pick.text,
            "case": pick.case,
            "extra": pick.extra,
            "broken_obligations_or_ties": self.broken_ties,
            "proof_error": getattr(self, "proof_error", None),
            "other_failures": [{"kind": f.kind, "sig": f.sig, "text": f.text[:400]} for f in allf[1:12]],
            "how_to_replay": f"cd {VERIF} && ./check {self.prop} --replay {path}",
        }
        with open(path, "w") as fh:
            json.dump(payload, fh, indent=1, default=str)
        return path


class CoqRunError(Exception):
    pass


def coq_args():
    return ["-Q", COQ, "TJ", "-w", "-notation-overridden,-deprecated-hint-without-locality,-deprecated-instance-without-locality,-ambiguous-paths,-redundant-canonical-projection,-deprecated-hint-rewrite-without-locality,-future-coercion-class-field"]


def theorem_names(vfile):
    if not os.path.exists(vfile):
        return []
    txt = open(vfile).read()
    txt = re.sub(r"\(\*.*?\*\)", "", txt, flags=re.S)
    return re.findall(r"^\s*(?:Theorem|Lemma|Example|Corollary)\s+([A-Za-z0-9_']+)", txt, flags=re.M)


def parse_assumptions(out):
    """Collect what Print Assumptions printed: either 'Closed under the global context' or axiom lists."""
    res = []
    closed = out.count("Closed under the global context")
    if closed:
        res.append(f"{closed} theorem(s): Closed under the global context")
    for m in re.finditer(r"Axioms:\n((?:.+\n?)+?)(?:\n|\Z)", out):
        for ln in m.group(1).splitlines():
            mm = re.match(r"^([A-Za-z0-9_.']+)\s*:", ln)
            if mm and mm.group(1) not in res:
                res.append(mm.group(1))
    return res


def locate_coq_error(out):
    m = re.search(r'File "([^"]+)", line (\d+), characters', out)
    if not m:
        return out.strip().splitlines()[-1] if out.strip() else "unknown"
    f, line = m.group(1), int(m.group(2))
    path = f if os.path.isabs(f) else os.path.join(COQ, f)
    name = "?"
    try:
        lines = open(path).read().splitlines()
        for i in range(min(line, len(lines)) - 1, -1, -1):
            mm = re.match(r"\s*(?:Theorem|Lemma|Example|Corollary|Definition|Fixpoint)\s+([A-Za-z0-9_']+)", lines[i])
            if mm:
                name = mm.group(1)
                break
    except OSError:
        pass
    err = re.search(r"Error:(.*)", out, flags=re.S)
    return f"{os.path.relpath(path, COQ)}:{line} ({name}): {(err.group(1).strip()[:300] if err else '')}"


def parse_evals(out):
    """Return the printed values of `Eval ... in` commands, in order (text between '= ' and ': type')."""
    vals = []
    for m in re.finditer(r"^\s*= (.*?)\n\s*: ", out, flags=re.S | re.M):
        vals.append(" ".join(m.group(1).split()))
    return vals


def parse_nat_list(s):
    s = s.strip()
    if s in ("[]", "nil"):
        return []
    s = s.strip("[]")
    return [int(x.replace("%nat", "").strip()) for x in s.split(";") if x.strip()]


def parse_bool_list(s):
    s = s.strip()
    if s in ("[]", "nil"):
        return []
    return [x.strip() == "true" for x in s.strip("[]").split(";")]


# ----------------------------------------------------------------------------------------------
def load_known(prop):
    p = os.path.join(VERIF, "known_findings.json")
    if not os.path.exists(p):
        return []
    return [k for k in json.load(open(p))["findings"] if k["property"] == prop and k.get("status") == "open"]


def match_known(known, f):
    for k in known:
        if f.sig == k["signature"]:
            return k
    return None


def trusted_base(ctx, extra=None):
    tb = [
        "Coq 8.16.1 kernel; vm_compute (no native_compute)",
        "Print Assumptions (this run): " + ("; ".join(ctx.assumptions_seen) if ctx.assumptions_seen else "not available (build failed)"),
        "harness: float->exact rational conversion, case-file printer, implementation drivers (/verif/harness)",
    ]
    if extra:
        tb.extend(extra)
    return tb


def load_corpus(prop):
    d = os.path.join(VERIF, "corpus", prop)
    out = []
    if os.path.isdir(d):
        for fn in sorted(os.listdir(d)):
            if fn.endswith(".json"):
                out.append(json.load(open(os.path.join(d, fn))))
    return out


def rng_for(ctx, stream=0):
    import numpy as np

    return np.random.Generator(np.random.PCG64([int(ctx.seed), stream]))
