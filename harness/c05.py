"""C05 -- results do not depend on batching, pool, cache path or call history.

Ties: theorems Props/C05.v (batching invariance for every n_batches about the task list regenerated from utils.py, any
contiguous cover, same per-sample prelude on all kernel paths); metamorphic correspondence on the implementation: one
library evaluated through every execution path must give bit-identical values in input order, equal to the prediction
of the batching model from the per-row values (Coq certificate check_path), and -- for a few rows -- equal to the
generated kernel model / closed form (C01's check_code); accepted sets equal for equal seeds.
"""
import json
import os
import dill as pickle  # the prior holds pymc objects that only dill serialises (the test suite and schwimmbad use it too)
import struct
import warnings

import numpy as np

from common import CoqRunError, coq_Z, coq_list, load_corpus, rng_for
import kernelcase as K
from c01 import HEADER, kernel_setup
from c07 import make_library as _make_library


def make_library(spec, n=24, s_unit=None):
    """The C07 library with rows that make call history matter: jitter varies from row to row (zero and positive values mixed),
    and a few rows have a very short period and a high eccentricity (the K-variance cap of the default prior is active there)."""
    import astropy.units as u

    lib, P = _make_library(spec, n=n)
    r = np.random.default_rng(spec["lib_seed"] + 17)
    du = u.Unit(spec["data_unit"])
    sc = 1.0 if spec["data_unit"] == "km/s" else 1000.0
    svals = np.where(r.random(n) < 0.4, 0.0, np.round(r.uniform(0.1, 3.0, n) * 64) / 64) * sc
    svals[0], svals[min(1, n - 1)] = 1.5 * sc, 0.0  # a positive jitter directly followed by a zero one
    e = np.asarray(lib["e"].value, float)
    Pd = np.asarray(P, float).copy()
    for k in range(2, n, 5):
        Pd[k] = 1.0 + k / 64.0
        e[k] = 0.9375
    lib["P"] = Pd * u.day
    lib["e"] = e * u.one
    lib["s"] = (svals * du).to(u.Unit(s_unit)) if s_unit else svals * du
    return lib, Pd

SIG = "C05:paths"

PHEADER = """From Coq Require Import ZArith List Bool.
From TJ Require Import Base.Corr Base.Imp Gen.BatchTasksGen Model.BatchSpec Model.Paths.
Import ListNotations. Open Scope Z_scope.
Definition chk (c : list Z * Z * list Z) : bool := check_path (fst (fst c)) (snd (fst c)) (snd c).
"""


def bits(x):
    """IEEE bit pattern of a double as an integer (exact identity of values, NaN payloads included)."""
    return struct.unpack("<q", struct.pack("<d", float(x)))[0]


def gen_cases(ctx, n=None):
    rng = rng_for(ctx, 5)
    n = n or (6 if ctx.tier == "quick" else 14)
    out = []
    for k in range(n):
        spec = K.gen_spec(rng, n_max=6, tier=ctx.tier, full_frac=0.0, allow_offsets=(k % 3 != 0))
        if k % 3 == 0:
            # data built with t_ref=False (no reference epoch): must survive pickling to pool workers.  No trend terms then:
            # with epochs counted from MJD 0 a trend column of 5e4 days makes the problem ill-conditioned in double precision
            spec["t_ref"] = False
            spec["n_poly"], spec["lin"] = 1, spec["lin"][:2]
        spec["lib_seed"] = int(rng.integers(0, 2**31))
        spec["lib_n"] = int(rng.choice([5, 11, 23, 37]))
        out.append(spec)
    return out


def observe(ctx, spec, with_pool):
    import astropy.units as u
    from thejoker.thejoker import TheJoker

    data, prior, _ = K.build_problem(spec)
    lib, P = make_library(spec, n=spec["lib_n"])
    N = len(lib)
    fn = os.path.join(ctx.scratch, f"c05_{spec['lib_seed']}.hdf5")
    lib.write(fn, overwrite=True)
    obs = []  # (label, n_batches or None, values)

    def J(pool=None, seed=5):
        return TheJoker(prior, rng=np.random.default_rng(seed), pool=pool)

    with warnings.catch_warnings():
        warnings.simplefilter("ignore")
        base = np.asarray(J().marginal_ln_likelihood(data, lib, in_memory=True), float)
        obs.append(("in-memory object", None, base))
        nbs = [None, 1, 2, 3, N - 1, N, N + 1, N + 5] if ctx.tier == "thorough" else [None, 2, 3, N - 1, N + 5]
        for nb in nbs:
            if nb is not None and nb < 1:
                continue
            obs.append((f"object->cache n_batches={nb}", nb, np.asarray(J().marginal_ln_likelihood(data, lib, n_batches=nb), float)))
            obs.append((f"filename n_batches={nb}", nb, np.asarray(J().marginal_ln_likelihood(data, fn, n_batches=nb), float)))
        # call history on one sampler: unrelated marginal and posterior calls before
        j = J()
        other, _ = make_library(dict(spec, lib_seed=spec["lib_seed"] + 1), n=7)
        j.marginal_ln_likelihood(data, other, in_memory=True)
        j.rejection_sample(data, other, n_linear_samples=2, in_memory=True)
        j.rejection_sample(data, fn, n_linear_samples=1, n_batches=2)
        obs.append(("after unrelated marginal/posterior calls (same TheJoker)", None, np.asarray(j.marginal_ln_likelihood(data, lib, in_memory=True), float)))
        # ... and after a call with OTHER data on the same sampler: the same merged observations divided between the surveys
        # differently (the last epoch of the first survey handed to the second one), then the original data again
        if isinstance(data, list) and len(data) >= 2 and len(data[0]) >= 2:
            from thejoker.data import RVData

            d0, d1 = data[0], data[1]
            cat = lambda a, b: RVData(t=np.concatenate([a._t_bmjd, b._t_bmjd]), rv=np.concatenate([a.rv.value, b.rv.to_value(a.rv.unit)]) * a.rv.unit,
                                      rv_err=np.concatenate([a.rv_err.to_value(a.rv.unit), b.rv_err.to_value(a.rv.unit)]) * a.rv.unit)
            alt = [d0[:-1], cat(d0[-1:], d1)] + list(data[2:])
            j2 = J()
            j2.marginal_ln_likelihood(alt, lib, in_memory=True)
            obs.append(("after a call with the same observations divided differently between the surveys (same TheJoker)", None,
                        np.asarray(j2.marginal_ln_likelihood(data, lib, in_memory=True), float)))
        # the helper itself: repeated calls, posterior call in between, pickled copy
        helper = j._make_joker_helper(data)
        chunk, _ = lib.pack(units=helper.internal_units, names=helper.packed_order)
        chunk = np.ascontiguousarray(chunk, dtype=float)
        v1 = np.array(helper.batch_marginal_ln_likelihood(chunk))
        helper.batch_get_posterior_samples(np.ascontiguousarray(chunk[::-1][:3]), 2, np.random.default_rng(1))
        helper.test_likelihood_worker(np.ascontiguousarray(chunk[0]))
        v2 = np.array(helper.batch_marginal_ln_likelihood(chunk))
        obs.append(("helper, first call", None, v1))
        obs.append(("helper, after posterior/test calls on the same helper", None, v2))
        h2 = pickle.loads(pickle.dumps(helper))
        obs.append(("pickled helper (__reduce__)", None, np.array(h2.batch_marginal_ln_likelihood(chunk))))
        # row by row, and reversed order
        obs.append(("each row alone", None, np.array([np.array(helper.batch_marginal_ln_likelihood(chunk[i : i + 1]))[0] for i in range(N)])))
        obs.append(("reversed library (values reversed back)", None, np.array(helper.batch_marginal_ln_likelihood(np.ascontiguousarray(chunk[::-1])))[::-1]))
        # a second library whose jitter column is in ANOTHER velocity unit than the data: the paths convert it themselves, so the
        # values must agree to round-off (not bit for bit) with each other and with the first library
        other = "m/s" if spec["data_unit"] == "km/s" else "km/s"
        lib2, _ = make_library(spec, n=spec["lib_n"], s_unit=other)
        fn2 = os.path.join(ctx.scratch, f"c05_{spec['lib_seed']}_b.hdf5")
        lib2.write(fn2, overwrite=True)
        conv = [("jitter in " + other + ", in memory", np.asarray(J().marginal_ln_likelihood(data, lib2, in_memory=True), float)),
                ("jitter in " + other + ", object->cache", np.asarray(J().marginal_ln_likelihood(data, lib2, n_batches=3), float)),
                ("jitter in " + other + ", filename", np.asarray(J().marginal_ln_likelihood(data, fn2, n_batches=2), float))]
        # the SAME file name overwritten with the library in other units, then evaluated again in this process
        lib2.write(fn, overwrite=True)
        conv.append(("file overwritten in place with the jitter column in " + other, np.asarray(J().marginal_ln_likelihood(data, fn, n_batches=2), float)))
        lib.write(fn, overwrite=True)
        # accepted sets for equal seeds
        acc = []

        def accepted(label, **kw):
            src = kw.pop("src")
            pool = kw.pop("pool", None)
            res = J(pool=pool, seed=99).rejection_sample(data, src, n_linear_samples=1, **kw)
            acc.append((label, sorted(np.asarray(res["P"].to_value(u.day), float).tolist())))

        accepted("in-memory", src=lib, in_memory=True)
        accepted("object->cache", src=lib)
        accepted("filename n_batches=3", src=fn, n_batches=3)
        accepted("filename n_batches=N+1", src=fn, n_batches=N + 1)
        # the iterative sampler in a two-round configuration in which every path evaluates the same rows (first 3 rows, then -- the
        # request being the whole library -- all the rest): equal seeds, equal accepted sets in memory and through the cache
        acc_it = []
        if N >= 5:
            for label, kw in (("iterative, in memory", dict(src=lib, in_memory=True)), ("iterative, object->cache", dict(src=lib)),
                              ("iterative, filename n_batches=3", dict(src=fn, n_batches=3))):
                src = kw.pop("src")
                res = J(seed=55).iterative_rejection_sample(data, src, n_requested_samples=N, init_batch_size=3, n_linear_samples=1, **kw)
                acc_it.append((label, sorted(np.asarray(res["P"].to_value(u.day), float).tolist())))
        # the same with a shuffled evaluation order (equal seeds draw the same order): the accepted set cannot depend on how the
        # shuffled rows are cut into batches
        acc_sh = []

        def accepted_shuffled(label, **kw):
            pool = kw.pop("pool", None)
            res = J(pool=pool, seed=77).rejection_sample(data, fn, n_linear_samples=1, randomize_prior_order=True, **kw)
            acc_sh.append((label, sorted(np.asarray(res["P"].to_value(u.day), float).tolist())))

        for nb in (1, 3, N - 1):
            if nb >= 1:
                accepted_shuffled(f"shuffled order, filename n_batches={nb}", n_batches=nb)
        if with_pool:
            import schwimmbad

            pool = schwimmbad.MultiPool(processes=2)
            try:
                accepted_shuffled("shuffled order, MultiPool(2) filename n_batches=4", n_batches=4, pool=pool)
                for nb in (2, 5):
                    obs.append((f"MultiPool(2) filename n_batches={nb}", nb, np.asarray(J(pool=pool).marginal_ln_likelihood(data, fn, n_batches=nb), float)))
                obs.append(("MultiPool(2) object->cache n_batches=None", None, np.asarray(J(pool=pool).marginal_ln_likelihood(data, lib), float)))
                accepted("MultiPool(2) filename n_batches=4", src=fn, n_batches=4, pool=pool)
            finally:
                pool.close()
    return dict(base=base, obs=obs, acc=acc, acc_sh=acc_sh, acc_it=acc_it, N=N, lib=lib, data=data, prior=prior, conv=conv)


def run_cases(ctx, specs):
    nt, n_paths = 0, 0
    pterms, pinfo, kterms, kinfo = [], [], [], []
    for k, spec in enumerate(specs):
        try:
            o = observe(ctx, spec, with_pool=(k == 0 or ctx.tier == "thorough"))
        except Exception as e:
            ctx.fail("predicate", SIG, f"implementation raised {type(e).__name__}: {str(e)[:300]}", case=spec)
            continue
        base = o["base"]
        if not np.isfinite(base).all():
            ctx.fail("predicate", SIG, f"non-finite marginal ln-likelihood in the base evaluation: {base}", case=spec)
        bb = [bits(x) for x in base]
        for label, nb, vals in o["obs"]:
            n_paths += 1
            if len(vals) != len(base):
                ctx.fail("predicate", SIG, f"path `{label}` returned {len(vals)} values for {len(base)} prior samples", case=dict(spec, path=label))
                continue
            vb = [bits(x) for x in vals]
            if vb != bb:
                i = next(i for i in range(len(bb)) if vb[i] != bb[i])
                srt = sorted(vb) == sorted(bb)
                ctx.fail("predicate", SIG, f"path `{label}`: value of prior sample {i} is {vals[i]!r}, in-memory evaluation gives {base[i]!r}"
                         + (" (same values, different order)" if srt else ""), case=dict(spec, path=label))
            if nb is not None:
                pterms.append(f"({coq_list([coq_Z(b) for b in bb])}, {nb}, {coq_list([coq_Z(b) for b in vb])})")
                pinfo.append((spec, label))
        for label, vals in o["conv"]:
            n_paths += 1
            if len(vals) != len(base) or not np.allclose(vals, base, rtol=1e-11, atol=1e-11):
                i = int(np.argmax(np.abs(np.asarray(vals) - base))) if len(vals) == len(base) else 0
                ctx.fail("predicate", SIG, f"path `{label}`: value of prior sample {i} is {vals[i] if len(vals) else None!r}, with the jitter column in the data unit it is {base[i]!r}",
                         case=dict(spec, path=label))
        ref = o["acc"][0][1]
        for label, a in o["acc"][1:]:
            if a != ref:
                ctx.fail("predicate", SIG, f"accepted prior samples differ for equal seeds: in-memory accepts {len(ref)} rows {ref[:4]}.., path `{label}` accepts {len(a)} rows {a[:4]}..",
                         case=dict(spec, path=label))
        if o.get("acc_it"):
            ref_it = o["acc_it"][0][1]
            for label, a in o["acc_it"][1:]:
                n_paths += 1
                if a != ref_it:
                    ctx.fail("predicate", SIG, f"iterative sampler, two rounds over the whole library, equal seeds: in memory accepts {len(ref_it)} rows {ref_it[:4]}.., `{label}` accepts {len(a)} rows {a[:4]}..",
                             case=dict(spec, path=label))
        if o.get("acc_sh"):
            ref_sh = o["acc_sh"][0][1]
            for label, a in o["acc_sh"][1:]:
                n_paths += 1
                if a != ref_sh:
                    ctx.fail("predicate", SIG, f"shuffled evaluation order, equal seeds: `{o['acc_sh'][0][0]}` accepts {len(ref_sh)} rows {ref_sh[:4]}.., `{label}` accepts {len(a)} rows {a[:4]}..",
                             case=dict(spec, path=label))
        # two rows against the generated kernel model / closed form
        import astropy.units as u

        for i in (0, o["N"] - 1):
            th = dict(P=float(o["lib"]["P"][i].to_value(u.day)), e=float(o["lib"]["e"][i]), omega=float(o["lib"]["omega"][i].to_value(u.rad)),
                      M0=float(o["lib"]["M0"][i].to_value(u.rad)), s=float(o["lib"]["s"][i].to_value(u.Unit(spec["data_unit"]))))
            sp = dict(spec, theta=th)
            out = K.run_impl(sp)
            if bits(out["ll"]) != bb[i]:
                ctx.fail("predicate", SIG, f"prior sample {i} evaluated alone through the API gives {out['ll']!r}, inside the library {base[i]!r}", case=dict(spec, row=i))
            kterms.append(f"({K.kcase_term(sp, out)}, {K.kobs_term(out)})")
            kinfo.append((spec, i))
        nt += 1
        if k == 0:
            ctx.samples.append({"input": {kk: spec[kk] for kk in ("n_poly", "n_off", "data_unit", "kprior", "lib_n")}, "paths": [l for l, _, _ in o["obs"]],
                                "accept_paths": [l for l, _ in o["acc"]], "first_values": base[:3].tolist()})
    bad = ctx.coq_check_cases("c05_p", PHEADER, pterms, "chk", shard=30)
    for i in bad:
        spec, label = pinfo[i]
        ctx.fail("correspondence", SIG, f"path `{label}`: returned values are not the batching model's concatenation of the per-row values", case=dict(spec, path=label))
    codes = ctx.coq_check_codes("c05_k", HEADER, kterms, "fun c => check_code (fst c) (snd c)", shard=3, timeout=1500)
    for i, code in enumerate(codes):
        spec, row = kinfo[i]
        if code:
            ctx.fail("correspondence", SIG, f"library row {row}: value disagrees with the generated kernel model / closed form (code {code})", case=dict(spec, row=row))
    ctx.coverage["paths_compared"] = n_paths
    return len(specs), nt


def run(ctx):
    ok = kernel_setup(ctx, needed=("py2v_batch.py", "pyx2v.py"), soft=("py2v_readbatch.py",))
    ok = ok and ctx.build_models(["Model/Paths.vo"])
    if ok:
        ctx.build_props()
        ctx.build_props("Props/C12g.vo")  # index-array reads return row idx[j] at position j (generated read_batch_idx)
        ctx.build_props("Props/C05s.vo")  # every schedule of a worker pool (Model/Sched.v) over the generated kernel and batch_tasks
    else:
        ctx.obligations += 1
    specs = load_corpus("C05") + gen_cases(ctx)
    n_eval = nt = 0
    try:
        n_eval, nt = run_cases(ctx, specs) if ok else (0, 0)
    except CoqRunError as e:
        ctx.broken_ties.append("correspondence could not be evaluated: " + str(e)[:500])
        ok = False
    if not ok:
        # the search for a failing input goes on without Coq: bit-identity across paths on the implementation
        class _NoCoq:
            pass
        for spec in specs[:2]:
            try:
                o = observe(ctx, spec, with_pool=False)
                bb = [bits(x) for x in o["base"]]
                for label, nb, vals in o["obs"]:
                    if [bits(x) for x in vals] != bb:
                        ctx.fail("predicate", SIG, f"path `{label}` differs from the in-memory evaluation", case=dict(spec, path=label))
                        break
            except Exception as e:
                ctx.fail("predicate", SIG, f"raised {type(e).__name__}: {e}", case=spec)
            n_eval += 1
    ctx.coverage.update(evaluations=n_eval, distinct_nontrivial=nt)
    return ctx.finish(
        rule="problems as for C01 (nice regime) with a library of N in {5,11,23,37} prior samples in kernel units whose jitter varies from row to row (zeros and positive values mixed) and with capped short-period rows, plus the same library with the jitter column in the other velocity unit (agreement to 1e-11, also after overwriting the same file name in place); every third problem has data built with t_ref=False; paths: in-memory object, "
        "object->cache and file name with n_batches in {None,2,3,N-1,N+5} (thorough: {None,1,2,3,N-1,N,N+1,N+5}), 2-process MultiPool with "
        "n_batches 2, 5 and None (first problem in quick, all in thorough), after unrelated marginal / posterior calls on the same TheJoker, the "
        "helper before and after posterior/test calls, a pickled helper, each row alone, reversed order; accepted sets for equal seeds over "
        "in-memory / cache / file / pool; non-trivial = a problem all of whose paths ran",
        assumptions=["process scheduling of the pool is exercised, not modelled (pool.map returns results in task order)",
                     "bit-identity is demanded because the library is in kernel units (no unit conversion between paths)",
                     "that the worker reads no scratch cell before writing it is exercised by the call-history paths, not proved"],
        trusted_extra=["translators tools/py2v_batch.py, tools/pyx2v.py (fail-closed)"],
    )


def replay(ctx, path):
    payload = json.load(open(path))
    spec = payload.get("case")
    if spec is None:
        return run(ctx)
    spec = {k: v for k, v in spec.items() if k not in ("path", "row")}
    ok = kernel_setup(ctx, needed=("py2v_batch.py", "pyx2v.py")) and ctx.build_models(["Model/Paths.vo"])
    if ok:
        run_cases(ctx, [spec])
    for f in ctx.failures:
        print("REPLAY-FAILS:", f.text)
    if not ctx.failures:
        print("REPLAY-PASSES")
    return 1 if ctx.failures else 0
