"""C13 -- failures propagate, no leaked cache files, user files untouched.

Tie 1 (translator): tools/py2v_tempfile.py regenerates the decorator's skeleton; Props/C13.v is
re-proved about it.  Tie 2 (dynamic fault enumeration): for every entry point x internal callable x
k-th invocation x {object, file name} a unique exception is injected into the REAL implementation
and the observation (exception identity, *.hdf5 files in a private TMPDIR, user-file SHA-256,
follow-up call) is compared by Coq with the model's run of the generated skeleton (tf_check).
"""
import glob
import hashlib
import json
import os

import numpy as np

from common import CoqRunError, coq_list, load_corpus

MODELS = ["Base/Corr.vo", "Model/TempFile.vo", "Gen/TempfileSkel.vo"]

HEADER = """From Coq Require Import List Bool Arith.
From TJ Require Import Base.Corr Model.TempFile Gen.TempfileSkel.
Import ListNotations.
Definition check (c : input * option nat * obs_outcome * nat * bool) : bool := tf_check wrapper_skel c.
"""


class Injected(Exception):
    pass


class InjectedInterrupt(KeyboardInterrupt):
    """a failure that is not an Exception subclass: Ctrl-C during a long run"""


class InjectedExit(SystemExit):
    """... or sys.exit() from inside a worker / MPI pool"""


INJECTED = (Injected, InjectedInterrupt, InjectedExit)
EXC_KINDS = {"error": Injected, "interrupt": InjectedInterrupt, "exit": InjectedExit}


CALLABLES = [
    # (label, module path, attribute, inside the cache write?)
    ("JokerSamples.write", "thejoker.samples:JokerSamples", "write", True),
    # failures INSIDE the cache write, after files may already exist on disk
    ("write_table_hdf5", "thejoker.samples", "write_table_hdf5", True),
    ("h5py.Group.create_dataset", "h5py:Group", "create_dataset", True),
    ("get_yaml_from_table", "astropy.table.meta", "get_yaml_from_table", True),
    ("read_batch", "thejoker.multiproc_helpers", "read_batch", False),
    ("batch_tasks", "thejoker.multiproc_helpers", "batch_tasks", False),
    ("run_worker", "thejoker.multiproc_helpers", "run_worker", False),
    ("marginal_ln_likelihood_worker", "thejoker.multiproc_helpers", "marginal_ln_likelihood_worker", False),
    ("make_full_samples_worker", "thejoker.multiproc_helpers", "make_full_samples_worker", False),
    ("JokerSamples.unpack", "thejoker.samples:JokerSamples", "unpack", False),
    ("pool.map", "POOL", "map", False),
    ("tables.open_file", "tables", "open_file", False),
    ("table_contains_column", "thejoker.multiproc_helpers", "table_contains_column", False),
]
ENTRIES = ["marginal_ln_likelihood", "rejection_sample", "iterative_rejection_sample"]


def resolve(path, pool):
    import importlib

    if path == "POOL":
        return pool
    if ":" in path:
        mod, cls = path.split(":")
        return getattr(importlib.import_module(mod), cls)
    return importlib.import_module(path)


class Injector:
    """Patch owner.attr so that its k-th invocation raises the given exception instance."""

    def __init__(self, owner, attr, k, exc):
        self.owner, self.attr, self.k, self.exc = owner, attr, k, exc
        self.count = 0
        self.fired = False

    def __enter__(self):
        self.raw = self.owner.__dict__.get(self.attr, None) if isinstance(self.owner, type) else None
        self.orig = getattr(self.owner, self.attr)
        inj = self

        def wrapper(*a, **kw):
            inj.count += 1
            if inj.count == inj.k:
                inj.fired = True
                raise inj.exc
            return inj.orig(*a, **kw)

        if isinstance(self.owner, type) and isinstance(self.raw, classmethod):
            f = self.raw.__func__

            def cm(cls, *a, **kw):
                inj.count += 1
                if inj.count == inj.k:
                    inj.fired = True
                    raise inj.exc
                return f(cls, *a, **kw)

            setattr(self.owner, self.attr, classmethod(cm))
        elif isinstance(self.owner, type):
            f = self.raw

            def meth(self_, *a, **kw):
                inj.count += 1
                if inj.count == inj.k:
                    inj.fired = True
                    raise inj.exc
                return f(self_, *a, **kw)

            setattr(self.owner, self.attr, meth)
        else:
            setattr(self.owner, self.attr, wrapper)
        return self

    def __exit__(self, *exc):
        if isinstance(self.owner, type):
            setattr(self.owner, self.attr, self.raw)
        elif self.owner.__class__.__module__.startswith("schwimmbad") or not hasattr(self.owner, "__dict__") or self.attr not in getattr(self.owner, "__dict__", {}):
            setattr(self.owner, self.attr, self.orig)
        else:
            setattr(self.owner, self.attr, self.orig)
        return False


def is_cache_like(f):
    """sample-cache files (pytensor and multiprocessing drop unrelated tmp* files/dirs into TMPDIR: ignored)"""
    b = os.path.basename(f)
    return any(x in b for x in (".hdf5", ".h5", ".fits", ".partial"))


def sha(fn):
    return hashlib.sha256(open(fn, "rb").read()).hexdigest()


def setup(ctx):
    import c02
    import sampling as S
    import schwimmbad
    from thejoker.thejoker import TheJoker

    tmp = os.path.join(ctx.scratch, "c13tmp")
    os.makedirs(tmp, exist_ok=True)
    import tempfile

    os.environ["TMPDIR"] = tmp
    tempfile.tempdir = tmp
    lib = S.make_library(48, seed=5, with_lnprior=True)
    user_fn = os.path.join(ctx.scratch, "user_prior.hdf5")
    lib.write(user_fn, overwrite=True)
    data = c02.real_data()
    pool = schwimmbad.SerialPool()
    joker = TheJoker(c02.real_prior(), rng=np.random.default_rng(7), pool=pool)
    base_ll = joker.marginal_ln_likelihood(data, lib)
    return dict(tmp=tmp, lib=lib, user_fn=user_fn, data=data, pool=pool, joker=joker, base_ll=base_ll)


def call_entry(env, entry, ps):
    j, d = env["joker"], env["data"]
    if entry == "marginal_ln_likelihood":
        return j.marginal_ln_likelihood(d, ps, n_batches=3)
    if entry == "rejection_sample":
        return j.rejection_sample(d, ps, return_logprobs=True, n_linear_samples=2, randomize_prior_order=True, n_batches=2)
    return j.iterative_rejection_sample(d, ps, n_requested_samples=2, init_batch_size=8, growth_factor=2, return_logprobs=True)


def run_case(env, case):
    """One injected call; returns (coq term, problems)."""
    problems = []
    label, path, attr, in_write = next(c for c in CALLABLES if c[0] == case["callable"])
    owner = resolve(path, env["pool"])
    exc = EXC_KINDS[case.get("exc", "error")](f"injected into {label} call #{case['k']}")
    if case["input"] == "obj":
        ps = env["lib"]
    elif case["input"] == "str":
        ps = env["user_fn"]
    else:
        ps = {"not": "samples"}
    before_files = sorted(f for f in glob.glob(os.path.join(env["tmp"], "*")) if os.path.isfile(f) and is_cache_like(f))
    user_sha = sha(env["user_fn"])
    obs = None
    with Injector(owner, attr, case["k"], exc) as inj:
        try:
            res = call_entry(env, case["entry"], ps)
            obs = "ObsReturned"
            if res is None:
                problems.append("call returned None")
        except INJECTED as e:
            obs = "ObsRaisedInjected"
            if e is not exc:
                problems.append("a different Injected instance reached the caller")
        except TypeError as e:
            obs = "ObsRaisedTypeError"
        except BaseException as e:
            obs = "ObsRaisedOther"
            problems.append(f"{type(e).__name__}: {str(e)[:150]} reached the caller instead of the injected failure")
    fired = inj.fired
    after_files = sorted(f for f in glob.glob(os.path.join(env["tmp"], "*")) if os.path.isfile(f) and is_cache_like(f))
    leaked = [f for f in after_files if f not in before_files]
    intact = sha(env["user_fn"]) == user_sha
    # property, read directly
    if fired and obs != "ObsRaisedInjected":
        problems.append(f"failure injected into {label} (call #{case['k']}) did not reach the caller: {obs}")
    if not fired and case["input"] != "bad" and obs != "ObsReturned":
        problems.append(f"no failure fired but the call ended with {obs}")
    if case["input"] == "bad" and obs != "ObsRaisedTypeError":
        problems.append(f"a non-JokerSamples object was not rejected with TypeError: {obs}")
    if leaked:
        problems.append(f"temporary cache file(s) left behind: {[os.path.basename(f) for f in leaked]}")
    if not intact:
        problems.append("user-supplied samples file was modified")
    for f in leaked:
        os.unlink(f)
    # follow-up on the same TheJoker object
    try:
        ll = env["joker"].marginal_ln_likelihood(env["data"], env["lib"])
        if not np.array_equal(ll, env["base_ll"]):
            problems.append("follow-up call on the same TheJoker returns different likelihoods")
    except Exception as e:
        problems.append(f"follow-up call raised {type(e).__name__}: {str(e)[:100]}")
    if glob.glob(os.path.join(env["tmp"], "*.hdf5")):
        problems.append("follow-up call leaked a cache file")
        for f in glob.glob(os.path.join(env["tmp"], "*.hdf5")):
            os.unlink(f)
    # model side: which faultable step of the skeleton did the injection hit?
    inp = {"obj": "InObj", "str": "InStr", "bad": "InBadType"}[case["input"]]
    if not fired:
        fault = "None"
    elif in_write:
        fault = "(Some 0%nat)"
    else:
        fault = "(Some 1%nat)" if case["input"] == "obj" else "(Some 0%nat)"
    term = f"({inp}, {fault}, {obs}, {len(leaked)}%nat, {'true' if intact else 'false'})"
    return term, problems, fired


HANG_LIMIT = 180  # seconds; a normal call on the 2-process pool takes a few seconds


def with_watchdog(fn, limit=HANG_LIMIT):
    """Run fn() in a daemon thread; returns ('ok', value) | ('raised', exc) | ('hang', None) when it does not finish in time."""
    import threading

    box = {}

    def target():
        try:
            box["v"] = ("ok", fn())
        except BaseException as e:  # noqa: BLE001 - reported to the caller of with_watchdog
            box["v"] = ("raised", e)

    th = threading.Thread(target=target, daemon=True)
    th.start()
    th.join(limit)
    return box.get("v", ("hang", None))


def multipool_scenarios(ctx, env):
    """Real worker processes: a failure raised inside a worker (a library without the jitter column makes
    read_batch fail in the child) must reach the caller, leak nothing, and leave the SAME TheJoker/pool usable."""
    import schwimmbad
    import sampling as S
    from thejoker.thejoker import TheJoker
    import c02

    out = []
    bad_lib = S.make_library(48, seed=5, with_lnprior=True)
    bad_lib.tbl.remove_column("s")
    good = env["lib"]
    for entry in ENTRIES:
        for inp in ("obj", "str"):
            case = dict(family="multipool", entry=entry, input=inp)
            problems = []
            pool = schwimmbad.MultiPool(processes=2)
            try:
                joker = TheJoker(c02.real_prior(), rng=np.random.default_rng(11), pool=pool)
                env2 = dict(env, joker=joker, pool=pool)
                if inp == "obj":
                    ps = bad_lib
                else:
                    ps = os.path.join(ctx.scratch, "bad_user.hdf5")
                    bad_lib.write(ps, overwrite=True)
                before = sorted(f for f in glob.glob(os.path.join(env["tmp"], "*")) if os.path.isfile(f) and is_cache_like(f))
                st, val = with_watchdog(lambda: call_entry(env2, entry, ps))
                if st == "ok":
                    problems.append("a library without the jitter column was processed without error")
                elif st == "hang":
                    problems.append(f"the call did not return within {HANG_LIMIT} s after a worker failed on a 2-process pool: the failure never reached the caller (hang)")
                    try:
                        pool.terminate()
                    except Exception:
                        pass
                    out.append((case, problems))
                    continue  # the `finally` below disposes of the pool
                leaked = [f for f in sorted(glob.glob(os.path.join(env["tmp"], "*"))) if os.path.isfile(f) and is_cache_like(f) and f not in before]
                if leaked:
                    problems.append(f"worker failure on a multi-process pool leaked {[os.path.basename(f) for f in leaked]}")
                    for f in leaked:
                        os.unlink(f)
                st, val = with_watchdog(lambda: joker.marginal_ln_likelihood(env["data"], good if inp == "obj" else env["user_fn"], n_batches=3))
                if st == "ok":
                    if not np.array_equal(val, env["base_ll"]):
                        problems.append("follow-up call after a worker failure returns different likelihoods (multi-process pool)")
                elif st == "hang":
                    problems.append(f"follow-up call on the same TheJoker after a worker failure did not return within {HANG_LIMIT} s")
                    try:
                        pool.terminate()
                    except Exception:
                        pass
                else:
                    problems.append(f"follow-up call on the same TheJoker after a worker failure raised {type(val).__name__}: {str(val)[:100]}")
            finally:
                if with_watchdog(pool.close, 30)[0] == "hang":
                    try:
                        pool.terminate()
                    except Exception:
                        pass
            out.append((case, problems))
    return out


def gen_cases(ctx):
    cases = list(load_corpus("C13"))
    kmax = 3 if ctx.tier == "quick" else 6
    for entry in ENTRIES:
        for label, *_ in CALLABLES:
            for k in range(1, kmax + 1):
                for inp in ("obj", "str"):
                    cases.append(dict(entry=entry, callable=label, k=k, input=inp))
                # the same fault as an interrupt / interpreter exit (not Exception subclasses): cleanup must not depend on the class
                if k == 1:
                    cases.append(dict(entry=entry, callable=label, k=k, input="obj", exc="interrupt" if len(cases) % 2 else "exit"))
        cases.append(dict(entry=entry, callable="read_batch", k=99, input="obj"))  # no fault fires
        if entry != "rejection_sample":
            cases.append(dict(entry=entry, callable="read_batch", k=99, input="bad"))
    return cases


def run_cases(ctx, cases, env):
    terms, kept, nt = [], [], 0
    for c in cases:
        term, problems, fired = run_case(env, c)
        if problems:
            ctx.fail("predicate", "C13:faults", "; ".join(problems[:2]) + f" [{c}]", case=c)
        terms.append(term)
        kept.append(c)
        nt += fired
    return terms, kept, nt


def run(ctx):
    ctx.make_overlay(need_kernel=True)
    ok = ctx.regen_all(needed=("py2v_tempfile.py",))
    ok = ok and ctx.build_models(MODELS)
    if ok:
        ctx.build_props()
    else:
        ctx.obligations += 1
    env = setup(ctx)
    cases = gen_cases(ctx)
    terms, kept, nt = run_cases(ctx, cases, env)
    for case, problems in multipool_scenarios(ctx, env):
        nt += 1
        if problems:
            ctx.fail("predicate", "C13:faults", "; ".join(problems[:2]) + f" [{case}]", case=case)
    if ok:
        try:
            for i in ctx.coq_check_cases("c13", HEADER, terms, "check", shard=400):
                ctx.fail("correspondence", "C13:faults", f"model run of the generated skeleton and the implementation disagree [{kept[i]}]: {terms[i]}", case=kept[i])
        except CoqRunError as e:
            ctx.broken_ties.append("correspondence could not be evaluated: " + str(e)[:500])
    ctx.samples.append({"input": kept[0], "coq_case": terms[0]})
    ctx.samples.append({"input": kept[len(kept) // 2], "coq_case": terms[len(kept) // 2]})
    ctx.coverage.update(evaluations=len(cases) + 6, distinct_nontrivial=nt)
    return ctx.finish(
        rule="fault enumeration: 3 entry points (marginal_ln_likelihood, rejection_sample, iterative_rejection_sample) x 13 internal callables "
        "(cache write and three points inside it -- write_table_hdf5, h5py create_dataset, YAML header --, read_batch, batch_tasks, run_worker, both workers, unpack, pool.map, tables.open_file, table_contains_column) x k-th "
        "invocation (1..%d) x {JokerSamples object, file name}, serial pool, plus no-fault and wrong-type controls, plus 6 scenarios on a real 2-process MultiPool (failure inside a worker process, then a follow-up call on the same object); non-trivial = the injected "
        "failure actually fired" % (3 if ctx.tier == "quick" else 6),
        assumptions=["creating / closing / unlinking the temporary file and the OS do not fail; a worker process killed by the OS (not an exception) is not modelled",
                     "on multi-process pools the failure is a natural one (library without the jitter column) because monkey-patched faults do not cross process boundaries",
                     "translator tools/py2v_tempfile.py (fail-closed), validated by this run's correspondence"],
        exhaustive=True,
    )


def replay(ctx, path):
    payload = json.load(open(path))
    ctx.make_overlay(need_kernel=True)
    case = payload.get("case")
    if case is None or case.get("family") == "multipool":
        return run(ctx)
    env = setup(ctx)
    term, problems, fired = run_case(env, case)
    for p in problems:
        ctx.fail("predicate", "C13:faults", p, case=case)
    for f in ctx.failures:
        print("REPLAY-FAILS:", f.text)
    if not ctx.failures:
        print("REPLAY-PASSES")
    return 1 if ctx.failures else 0
