"""C08 -- multi-survey data keep every observation tied to its own survey offset
(data_helpers.validate_prepare_data, likelihood_helpers.get_constant_term_design_matrix).

Hand-written model (coq/Model/Surveys.v); each run Coq decides the certificate merge_check on the
(all_data, ids, trend_M) triple the implementation returned, with the applied permutation recovered
from unique velocity tags.  Predicate: each merged row's survey is recovered from its tag and
compared with the label and the indicator columns the implementation attached to that row.
"""
import json

import numpy as np

from common import CoqRunError, coq_Q, coq_list, coq_xq, load_corpus, rng_for
from c15 import find_pi, nat_list

MODELS = ["Base/Corr.vo", "Base/XQ.vo", "Model/RVData.vo", "Model/Surveys.vo"]

HEADER = """From Coq Require Import QArith List Bool.
From TJ Require Import Base.XQ Base.Corr Model.RVData Model.Surveys.
Import ListNotations.
Definition O3 (t rv e : XQ) := mkobs t rv e.
Definition L (t rv e : XQ) (k : nat) := mklobs (mkobs t rv e) k.
Definition check (c : list (nat * list obs) * list nat * list lobs * list (list Q)) : bool :=
  let '(srcs, pi, out, cm) := c in merge_check srcs pi out cm.
(* the pinned code's behaviour (known finding D5): rows sorted, labels left in concatenation order *)
Definition check_code (c : list (nat * list obs) * list nat * list lobs * list (list Q)) : bool :=
  let '(srcs, pi, out, cm) := c in code_check srcs pi out cm.
"""

D5 = "C08:D5-ids-in-concatenation-order"


def gen_cases(ctx):
    rng = rng_for(ctx, 8)
    cases = list(load_corpus("C08"))
    n_cases = 120 if ctx.tier == "quick" else 1500
    for k in range(n_cases):
        ns = int(rng.integers(2, 6))
        sizes = [int(rng.integers(1, 9)) for _ in range(ns)]
        if k % 12 == 5:  # many surveys: label order 0,1,..,10,11 (numeric, not lexicographic)
            ns = int(rng.integers(11, 14))
            sizes = [int(rng.integers(1, 3)) for _ in range(ns)]
        layout = ["disjoint", "interleaved", "identical", "reversed", "random"][int(rng.integers(0, 5))]
        base = float(rng.integers(50000, 59000))
        ts = []
        for i, sz in enumerate(sizes):
            if layout == "disjoint":
                t = base + 100 * i + np.sort(rng.uniform(0, 90, sz))
            elif layout == "reversed":
                t = base + 100 * (ns - i) + np.sort(rng.uniform(0, 90, sz))[::-1]
            elif layout == "identical":
                grid = base + np.arange(10) * 7.5
                t = rng.choice(grid, sz, replace=False)
            else:
                t = base + rng.uniform(0, 200, sz)
            ts.append((np.round(t * 256) / 256).tolist())
        tag = 0
        rvs, errs = [], []
        for sz in sizes:
            rvs.append([float(np.round(rng.normal(0, 20) * 64) / 64 + (tag + j) * 2**-10) for j in range(sz)])
            tag += sz
            errs.append((np.round(rng.uniform(0.1, 3, sz) * 128) / 128 + 2**-7).tolist())
        form = ["list", "dict_int", "dict_str"][int(rng.integers(0, 3))]
        if form == "list":
            keys = list(range(ns))
        elif form == "dict_int":
            keys = [int(x) for x in rng.choice(50, ns, replace=False)]
        else:
            keys = [str(x) for x in rng.choice(["apogee", "harps", "lamost", "keck", "b", "Z9", "sdss", "x1", "s10", "s2", "S2", "a", "aa", "k9", "k10"], ns, replace=False)]
        units = ["km/s"] + [["km/s", "m/s"][int(rng.random() < 0.25)] for _ in range(ns - 1)]
        cases.append(dict(sizes=sizes, layout=layout, t=ts, rv=rvs, err=errs, form=form, keys=keys, units=units,
                          poly_trend=int(rng.integers(1, 4))))
    return cases


def run_case(case):
    import astropy.units as u
    from thejoker.data import RVData
    from thejoker.data_helpers import validate_prepare_data

    problems = []
    srcs = []
    for t, rv, err, un in zip(case["t"], case["rv"], case["err"], case["units"]):
        unit = u.Unit(un)
        # values are given in km/s; a source in m/s holds the same physical numbers
        f = (u.km / u.s).to(unit)
        srcs.append(RVData(np.array(t), np.array(rv) * f * unit, np.array(err) * f * unit))
    keys = case["keys"]
    data = list(srcs) if case["form"] == "list" else {k: d for k, d in zip(keys, srcs)}
    n_off = len(srcs) - 1
    try:
        all_data, ids, trend_M = validate_prepare_data(data, case["poly_trend"], n_off)
    except Exception as e:
        return None, [f"validate_prepare_data raised {type(e).__name__}: {e}"]
    # key -> number preserving numpy.unique's order
    order = sorted(set(keys))
    knum = {k: i for i, k in enumerate(order)} if case["form"] == "dict_str" else {k: int(k) for k in keys}
    rv_unit = srcs[0].rv.unit
    in_rows, in_ids, src_terms = [], [], []
    for k, d in zip(keys, srcs):
        rows = list(zip(np.asarray(d.t.tcb.mjd, float).tolist(), np.asarray(d.rv.to_value(rv_unit), float).tolist(),
                        np.asarray(d.rv_err.to_value(rv_unit), float).tolist()))
        in_rows += rows
        in_ids += [knum[k]] * len(rows)
        src_terms.append(f"({knum[k]}%nat, {coq_list([f'O3 {coq_xq(a)} {coq_xq(b)} {coq_xq(c)}' for a, b, c in rows])})")
    out_rows = list(zip(np.asarray(all_data._t_bmjd, float).tolist(), np.asarray(all_data.rv.value, float).tolist(),
                        np.asarray(all_data.rv_err.value, float).tolist()))
    if all_data.rv.unit != rv_unit:
        problems.append("merged data not in the first source's unit")
    if len(ids) != len(out_rows) or trend_M.shape[0] != len(out_rows):
        return None, problems + [f"lengths differ: data {len(out_rows)}, ids {len(ids)}, trend_M {trend_M.shape}"]
    try:
        ids_num = [knum[(k.item() if hasattr(k, 'item') else k) if case["form"] != "dict_str" else str(k)] for k in ids]
    except KeyError as e:
        return None, problems + [f"ids contain an unknown label {e}"]
    pi = find_pi(in_rows, out_rows)
    if pi is None:
        return None, problems + ["merged rows are not exactly the input observations"]
    if sorted(pi) != list(range(len(in_rows))):
        problems.append("merged data are not the union of the inputs")
    # predicate: the survey each merged row really came from (via its tag) vs. the label and columns attached to it
    nu = len(order)
    uniq_num = sorted(set(in_ids))
    for i, p in enumerate(pi):
        true_id = in_ids[p]
        if ids_num[i] != true_id:
            problems.append(f"row {i} (t={out_rows[i][0]}) belongs to survey {keys[[knum[k] for k in keys].index(true_id)]!r} but is labelled {ids[i]!r}")
            break
    for i, p in enumerate(pi):
        true_id = in_ids[p]
        exp = [1.0] + [1.0 if true_id == uq else 0.0 for uq in uniq_num[1:]]
        if trend_M[i, :nu].tolist() != exp:
            problems.append(f"row {i}: offset columns {trend_M[i, :nu].tolist()} but the observation belongs to survey number {uniq_num.index(true_id)} (expected {exp})")
            break
    if trend_M.shape[1] != nu + case["poly_trend"] - 1:
        problems.append(f"trend_M has {trend_M.shape[1]} columns, expected {nu + case['poly_trend'] - 1}")
    else:
        dt = np.asarray(all_data._t_bmjd) - all_data._t_ref_bmjd
        for j in range(1, case["poly_trend"]):
            if not np.allclose(trend_M[:, nu + j - 1], dt**j, rtol=1e-12, atol=0):
                problems.append(f"trend column {j} is not (t - t_ref)^{j}")
    if case["form"] == "list" and uniq_num != list(range(len(srcs))):
        problems.append("list input: labels are not 0..k")
    # classification of the known finding D5: labels (and the columns built from them) are exactly the
    # concatenation-order labels while the rows are the correct time-sorted union
    label_problems = [p for p in problems if p.startswith("row ")]
    if label_problems and len(label_problems) == len(problems) and ids_num == in_ids and sorted(pi) == list(range(len(in_rows))):
        exp_cm = [[1.0] + [1.0 if k == uq else 0.0 for uq in uniq_num[1:]] for k in in_ids]
        if trend_M[:, :nu].tolist() == exp_cm:
            problems = ["D5:" + p for p in problems]
    out_terms = [f"L {coq_xq(a)} {coq_xq(b)} {coq_xq(c)} {k}%nat" for (a, b, c), k in zip(out_rows, ids_num)]
    cm = coq_list([coq_list([coq_Q(x) for x in row]) for row in trend_M[:, :nu].tolist()])
    term = f"({coq_list(src_terms)}, {nat_list(pi)}, {coq_list(out_terms)}, {cm})"
    return term, problems


def arity_cases():
    """count mismatches must raise; a single RVData with 0 offsets is passed through unchanged."""
    import astropy.units as u
    from thejoker.data import RVData
    from thejoker.data_helpers import validate_prepare_data

    out = []
    d = lambda o: RVData(np.array([55000.0 + o, 55010.5 + o]), np.array([1.0, 2.0]) * u.km / u.s, np.array([0.5, 0.25]) * u.km / u.s)
    for nsrc in range(1, 5):
        for noff in range(0, 4):
            data = [d(i) for i in range(nsrc)]
            try:
                validate_prepare_data(data, 1, noff)
                raised = False
            except ValueError:
                raised = True
            except Exception as e:
                out.append((dict(family="arity", nsrc=nsrc, noff=noff), f"unexpected {type(e).__name__}: {e}"))
                continue
            if raised != (nsrc - 1 != noff):
                out.append((dict(family="arity", nsrc=nsrc, noff=noff), f"{nsrc} sources with {noff} offset priors: raised={raised}"))
    single = d(0)
    for noff in (0, 1, 2):
        try:
            a, ids, M = validate_prepare_data(single, 2, noff)
            ok = noff == 0 and a is single and list(ids) == [0, 0] and M.shape == (2, 2)
            if not ok:
                out.append((dict(family="arity", single=True, noff=noff), "single RVData accepted with offsets or altered"))
        except ValueError:
            if noff == 0:
                out.append((dict(family="arity", single=True, noff=noff), "single RVData with 0 offsets rejected"))
    return out


def history_cases():
    """The sampler's entry point, called twice on one TheJoker: first with the same merged observations divided between two
    surveys differently, then with the data proper.  Every observation must be tied to the survey it has NOW: the second call's
    marginal likelihoods equal those of a fresh sampler.  (Surveys are disjoint in time and in time order: not finding D5.)"""
    import warnings

    import astropy.units as u
    import pymc as pm
    import thejoker.units as xu
    from thejoker.data import RVData
    from thejoker.prior import JokerPrior
    from thejoker.thejoker import TheJoker

    out = []
    for seed in (1, 2, 3):
        r = np.random.default_rng(800 + seed)
        n = int(r.integers(5, 9))
        t = 55000.0 + np.sort(np.round(r.uniform(0, 80, n) * 8) / 8 + np.arange(n))
        rv = np.round(r.normal(0, 5, n) * 16) / 16
        err = np.full(n, 0.5)
        mk = lambda sl: RVData(t[sl], rv[sl] * u.km / u.s, err[sl] * u.km / u.s)
        k1, k2 = 2, n - 2
        data, alt = [mk(slice(0, k1)), mk(slice(k1, n))], [mk(slice(0, k2)), mk(slice(k2, n))]
        with warnings.catch_warnings():
            warnings.simplefilter("ignore")
            with pm.Model():
                dv = xu.with_unit(pm.Normal("dv0_1", 0, 10), u.km / u.s)
                prior = JokerPrior.default(P_min=2 * u.day, P_max=200 * u.day, sigma_K0=30 * u.km / u.s, sigma_v=50 * u.km / u.s, v0_offsets=[dv])
            smp = prior.sample(size=16, rng=np.random.default_rng(seed))
            try:
                j = TheJoker(prior, rng=np.random.default_rng(0))
                j.marginal_ln_likelihood(alt, smp, in_memory=True)
                again = np.asarray(j.marginal_ln_likelihood(data, smp, in_memory=True), float)
                fresh = np.asarray(TheJoker(prior, rng=np.random.default_rng(0)).marginal_ln_likelihood(data, smp, in_memory=True), float)
            except Exception as e:
                out.append((dict(family="history", seed=seed), f"raised {type(e).__name__}: {str(e)[:200]}"))
                continue
        if not np.array_equal(again, fresh):
            out.append((dict(family="history", seed=seed), f"surveys [{k1}+{n - k1} epochs] evaluated after [{k2}+{n - k2}] on the same TheJoker: marginal "
                        f"ln-likelihoods differ from a fresh sampler's by up to {np.max(np.abs(again - fresh)):.3g} (observations tied to the earlier call's surveys)"))
    return out


def offset_binding_cases():
    """Many surveys (given as a list, disjoint in time and in time order: not finding D5), every offset with its OWN prior: the k-th
    further source is governed by the prior declared for dv0_k and reported in the column dv0_k -- also when there are ten or more
    offsets, where the names no longer sort like the numbers.  K is pinned to ~0 by its prior, so the marginal likelihood has the
    closed form of the linear model (constant + survey indicators)."""
    import warnings

    import astropy.units as u
    import pymc as pm
    import thejoker.units as xu
    from astropy.time import Time
    from thejoker.data import RVData
    from thejoker.prior import JokerPrior
    from thejoker.thejoker import TheJoker

    kms = u.km / u.s
    out = []
    for n_off in (2, 11):
        off_true = np.array([0.0] + [5.0 * k * (-1) ** k for k in range(1, n_off + 1)])
        sig = 0.0625
        datas = []
        for k in range(n_off + 1):
            t = 58000.0 + 16.0 * k + np.array([0.0, 1.25, 2.875])
            rv = 3.0 + off_true[k] + np.array([0.015625, -0.03125, 0.0078125])
            datas.append(RVData(Time(t, format="mjd", scale="tcb"), rv * kms, np.full(3, sig) * kms))
        prior_mu = off_true[1:] + 0.5
        prior_sd = 1.0 + 0.125 * np.arange(n_off)
        case = dict(family="offset_binding", n_off=n_off)
        with warnings.catch_warnings():
            warnings.simplefilter("ignore")
            try:
                with pm.Model():
                    offs = [xu.with_unit(pm.Normal(f"dv0_{k}", prior_mu[k - 1], prior_sd[k - 1]), kms) for k in range(1, n_off + 1)]
                    prior = JokerPrior.default(P_min=2 * u.day, P_max=50 * u.day, sigma_K0=1e-4 * kms, sigma_v=50.0 * kms, s=0 * kms, v0_offsets=offs)
                smp = prior.sample(size=6, rng=np.random.default_rng(7))
                joker = TheJoker(prior, rng=np.random.default_rng(42))
                ll = np.asarray(joker.marginal_ln_likelihood(datas, smp, in_memory=True), float)
                post = joker.rejection_sample(datas, smp, in_memory=True, n_linear_samples=48)
                # behind a 2-process pool the helper is pickled to the workers and rebuilt there -- every epoch still with its own survey's offset column
                import schwimmbad

                with schwimmbad.MultiPool(processes=2) as pool_:
                    ll_pickled = np.asarray(TheJoker(prior, rng=np.random.default_rng(42), pool=pool_).marginal_ln_likelihood(datas, smp, n_batches=2), float)
            except Exception as e:
                out.append((case, f"{n_off} offsets: raised {type(e).__name__}: {str(e)[:200]}"))
                continue
        if not np.array_equal(ll_pickled, ll):
            out.append((case, f"{n_off} offsets: behind a 2-process pool (the helper is pickled to the workers and rebuilt there) the marginal ln-likelihoods are {ll_pickled[:2]}, "
                        f"the sampler's own helper {ll[:2]}: the survey indicator columns did not survive"))
        want_names = [f"dv0_{k}" for k in range(1, n_off + 1)]
        if [nm for nm in prior.par_names if nm.startswith("dv0_")] != want_names:
            out.append((case, f"{n_off} offsets: the prior lists the offsets as {[nm for nm in prior.par_names if nm.startswith('dv0_')]}, declared as {want_names}"))
        rv_all = np.concatenate([d.rv.to_value(kms) for d in datas])
        n = len(rv_all)
        M = np.zeros((n, 1 + n_off))
        M[:, 0] = 1.0
        for k in range(1, n_off + 1):
            M[3 * k: 3 * k + 3, k] = 1.0
        mu = np.concatenate([[0.0], prior_mu])
        Lam = np.diag(np.concatenate([[50.0**2], prior_sd**2]))
        B = sig**2 * np.eye(n) + M @ Lam @ M.T
        r = rv_all - M @ mu
        ll_ref = -0.5 * (r @ np.linalg.solve(B, r) + np.linalg.slogdet(2 * np.pi * B)[1])
        if not np.allclose(ll, ll_ref, rtol=0, atol=1e-2):
            out.append((case, f"{n_off} offsets, each with its own prior: marginal ln-likelihood {ll[0]:.6g} but the model in which source k is governed by the prior of dv0_k gives {ll_ref:.6g}"))
        for k in range(1, n_off + 1):
            got = float(np.mean(post[f"dv0_{k}"].to_value(kms))) if f"dv0_{k}" in post.par_names else float("nan")
            if not abs(got - off_true[k]) < 0.5:
                out.append((case, f"{n_off} offsets: posterior column dv0_{k} has mean {got:.3g} km/s but source number {k} is offset by {off_true[k]:.3g} km/s"))
                break
    return out


def mcmc_offset_cases():
    """The MCMC model setup_mcmc builds from multi-survey data given as a list, a dict of named surveys and a dict with integer labels
    that are not 0..n: raising the first offset by 5 (data units) moves the model velocities of exactly the second survey's epochs by 5."""
    import warnings

    import astropy.units as u
    import kernelcase as K
    import pytensor
    from thejoker.data_helpers import validate_prepare_data
    from thejoker.samples import JokerSamples
    from thejoker.thejoker import TheJoker

    out = []
    rng = np.random.default_rng(4711)
    spec = None
    for _ in range(200):
        sp = K.gen_spec(rng, n_max=6, tier="quick", full_frac=0.0)
        if sp["n_off"] >= 1 and sp["kprior"] == "default":
            spec = sp
            break
    if spec is None:
        return [(dict(family="mcmc_offsets"), "no multi-survey specification generated")]
    spec["theta"]["s"] = 0.0
    for label in ("list", "dict of named surveys", "dict with integer labels 10, 20, .."):
        try:
            with warnings.catch_warnings():
                warnings.simplefilter("ignore")
                data, prior, _ = K.build_problem(spec)
                all_data, ids, trend_M = validate_prepare_data(data, prior.poly_trend, prior.n_offsets)
                second = np.asarray(trend_M)[:, 1] == 1.0  # epochs of the survey the first offset belongs to
                if label.startswith("dict of named"):
                    data = dict(zip(["apogee", "harps", "lamost"], data))
                elif label.startswith("dict with integer"):
                    data = dict(zip([10, 20, 30], data))
                du = u.Unit(spec["data_unit"])
                names = ["K", "v0"] + [o["name"] for o in spec["offs"]] + [f"v{i}" for i in range(1, spec["n_poly"])]
                smp = JokerSamples(poly_trend=spec["n_poly"], n_offsets=spec["n_off"], t_ref=all_data.t_ref)
                th = spec["theta"]
                smp["P"], smp["e"], smp["omega"], smp["M0"], smp["s"] = [th["P"]] * u.day, [th["e"]] * u.one, [th["omega"]] * u.rad, [th["M0"]] * u.rad, [0.0] * du
                for nm in names:
                    smp[nm] = [1.0] * du / u.day ** K.lin_power(nm)
                model = prior.model
                TheJoker(prior, rng=np.random.default_rng(0)).setup_mcmc(data, smp, model=model)
                rvn = [v.name for v in model.free_RVs]
                fn = pytensor.function([prior.pars[nm] for nm in rvn], model["model_rv"], on_unused_input="ignore")
                import thejoker.units as xu

                unit_of = lambda nm: getattr(prior.pars[nm], xu.UNIT_ATTR_NAME)
                val = {nm: float(smp[nm][0].to_value(unit_of(nm))) for nm in rvn if nm in smp.par_names}
                off = spec["offs"][0]["name"]
                step = float((5.0 * du).to_value(unit_of(off)))
                r0 = np.asarray(fn(*[np.float64(val[nm]) for nm in rvn]), float)
                r5 = np.asarray(fn(*[np.float64(dict(val, **{off: val[off] + step})[nm]) for nm in rvn]), float)
        except Exception as e:
            out.append((dict(family="mcmc_offsets", input=label), f"setup_mcmc with {label}: raised {type(e).__name__}: {str(e)[:200]}"))
            continue
        resp = r5 - r0
        want = np.where(second, 5.0, 0.0)
        if resp.shape != want.shape or not np.allclose(resp, want, atol=1e-7 * max(1.0, float(np.max(np.abs(r0))))):
            out.append((dict(family="mcmc_offsets", input=label), f"setup_mcmc with {label}: raising {off} by 5 {spec['data_unit']} moves the model velocities by {np.round(resp, 6).tolist()}, "
                        f"expected {want.tolist()} (only the epochs of the survey that offset belongs to)"))
    return out


def run_cases(ctx, cases):
    terms, kept, nt = [], [], 0
    for c in cases:
        term, problems = run_case(c)
        if problems:
            d5 = all(p.startswith("D5:") for p in problems)
            ctx.fail("predicate", D5 if d5 else "C08:labels", "; ".join(problems[:3]), case=c)
        if term is not None:
            terms.append(term)
            kept.append(c)
        nt += c["layout"] != "disjoint"
    # certificate per case: the property-level merge_check, or (known finding D5) the faithful model of the pinned code
    bad, bad2 = ctx.coq_check_cases("c08", HEADER, terms, "check", shard=60, alt_fn="check_code")
    for i in bad:
        if i in bad2:
            ctx.fail("correspondence", "C08:labels", "certificate merge_check rejected and the behaviour is not the known D5 pattern either: rows, labels and offset columns are not one consistent permutation of the labelled inputs", case=kept[i])
        else:
            ctx.fail("correspondence", D5, "certificate merge_check rejected; behaviour equals the pinned-code model (labels left in concatenation order)", case=kept[i])
    if kept:
        ctx.samples.append({"input": {k: kept[0][k] for k in ("sizes", "layout", "form", "keys", "units")}, "coq_case": terms[0][:300]})
    return len(cases), nt


def run(ctx):
    ctx.make_overlay(need_kernel=True)
    ctx.regen_all(needed=("py2v_design.py",))  # Gen/DesignGen.v: the two design-matrix builders as the source has them now
    ok = ctx.build_models(MODELS)
    if ok:
        ctx.build_props()
        ctx.build_props("Props/C08b.vo")  # permutation invariance of the marginal likelihood (MathComp)
        ctx.build_props("Props/C08g.vo")  # the generated design-matrix builders are the model (offset columns after v0, trend terms last)
    cases = gen_cases(ctx)
    n_eval = nt = 0
    try:
        if ok:
            n_eval, nt = run_cases(ctx, cases)
    except CoqRunError as e:
        ctx.broken_ties.append("correspondence could not be evaluated: " + str(e)[:500])
        ok = False
    if not ok:
        for c in cases:
            _, problems = run_case(c)
            n_eval += 1
            if problems:
                ctx.fail("predicate", "C08:labels", "; ".join(problems[:3]), case=c)
                break
    for case, msg in arity_cases():
        ctx.fail("predicate", "C08:arity", msg, case=case)
    n_eval += 19
    for case, msg in history_cases():
        ctx.fail("predicate", "C08:history", msg, case=case)
    n_eval += 3
    for case, msg in mcmc_offset_cases():
        ctx.fail("predicate", "C08:mcmc-offsets", msg, case=case)
    n_eval += 3
    for case, msg in offset_binding_cases():
        ctx.fail("predicate", "C08:offset-binding", msg, case=case)
    n_eval += 2
    ctx.coverage.update(evaluations=n_eval, distinct_nontrivial=nt)
    return ctx.finish(
        rule="2..5 surveys of 1..8 epochs; layouts disjoint / interleaved / identical epochs / reversed / random; list, int-keyed dict and "
        "string-keyed dict in arbitrary key order; second and later sources optionally in m/s; poly_trend 1..3; plus the 4x4 grid of "
        "(number of sources, number of offset priors); 3 two-call histories on one TheJoker (the same observations divided between the surveys differently, then the data proper); the offset response of the MCMC model for list / named-dict / integer-label-dict input; 3 and 12 surveys with a different prior per offset (closed-form likelihood, posterior column per source). Non-trivial = surveys overlap in time",
        assumptions=["astropy unit conversion of later sources into the first source's unit is trusted (the converted values are the model's inputs)",
                     "numpy.unique orders labels ascending (ints numerically, strings by code point)"],
    )


def replay(ctx, path):
    payload = json.load(open(path))
    ctx.make_overlay(need_kernel=True)
    case = payload.get("case")
    if case is None or case.get("family") in ("arity", "history", "mcmc_offsets", "offset_binding"):
        return run(ctx)
    ctx.regen_all()
    if ctx.build_models(MODELS):
        run_cases(ctx, [case])
    else:
        _, problems = run_case(case)
        for p in problems:
            ctx.fail("predicate", "C08:labels", p, case=case)
    for f in ctx.failures:
        print("REPLAY-FAILS:", f.text)
    if not ctx.failures:
        print("REPLAY-PASSES")
    return 1 if ctx.failures else 0
