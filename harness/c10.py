"""C10 -- seeded runs reproducible; randomness confined to the given generator; streams separated.

Model: coq/Model/Rng.v, theorems Props/C10.v (child keys pairwise distinct and parent segments
disjoint over any call sequence).  Tie: (a) static, fail-closed scan tools/rng_scan.py (effect
discipline of the model holds in the source); (b) dynamic: equal seeds => bit-identical outputs on
every path, numpy/Python global random state neither read nor written, recorded spawn keys (what
numpy handed out, what each task's Generator was built from) compared by Coq with the model.
"""
import json
import os
import random
import subprocess
import sys
import warnings

import numpy as np

from common import VERIF, CoqRunError, coq_list, load_corpus

MODELS = ["Base/Corr.vo", "Model/Rng.vo"]

HEADER = """From Coq Require Import List Arith Bool.
From TJ Require Import Base.Corr Model.Rng.
Import ListNotations.
Definition check (c : list call * list nat * list nat) : bool := rng_check c.
"""


class RecSeedSeq(np.random.SeedSequence):
    """SeedSequence that records the children it spawns."""

    def __init__(self, *a, **k):
        super().__init__(*a, **k)
        self.spawn_log = []

    def spawn(self, n):
        ch = super().spawn(n)
        self.spawn_log.append([c.spawn_key for c in ch])
        return ch


class RecGen(np.random.Generator):
    def __init__(self, seed):
        self.ss = RecSeedSeq(seed)
        super().__init__(np.random.PCG64(self.ss))
        self.calls = []

    def uniform(self, *a, **k):
        r = super().uniform(*a, **k)
        self.calls.append(("draw", int(np.size(r))))
        return r

    def choice(self, a, size=None, replace=True, p=None, **k):
        r = super().choice(a, size=size, replace=replace, p=p, **k)
        self.calls.append(("draw", int(np.size(r))))
        return r


def table_bytes(s):
    """Every column of a JokerSamples as bytes (bit-identity)."""
    out = {}
    for c in s.par_names:
        col = s.tbl[c]
        out[c] = np.ascontiguousarray(np.asarray(getattr(col, "value", col), float)).tobytes()
    return out


def setup(ctx):
    import c02
    import sampling as S

    lib = S.make_library(96, seed=9, with_lnprior=True)
    fn = os.path.join(ctx.scratch, "c10_lib.hdf5")
    lib.write(fn, overwrite=True)
    return dict(lib=lib, fn=fn, data=c02.real_data(), prior=c02.real_prior())


PATHS = [
    ("rejection inmem", "rej", dict(in_memory=True, n_linear_samples=2, return_logprobs=True)),
    ("rejection object->cache", "rej", dict(n_linear_samples=2, n_batches=3)),
    ("rejection filename randomize", "rej_fn", dict(randomize_prior_order=True, n_prior_samples=60, n_batches=2, return_logprobs=True)),
    ("rejection filename max_post", "rej_fn", dict(max_posterior_samples=3, n_linear_samples=3)),
    ("iterative inmem", "it", dict(in_memory=True, n_requested_samples=3, init_batch_size=16, growth_factor=2)),
    ("iterative file randomize", "it_fn", dict(n_requested_samples=3, init_batch_size=16, growth_factor=2, randomize_prior_order=True, n_linear_samples=2)),
    ("rejection by count", "rej_int", dict(in_memory=True)),
    ("rejection by count via cache", "rej_int", dict(n_batches=2)),
]


def run_path(env, kind, kw, seed, pool=None, gen=None):
    from thejoker.thejoker import TheJoker

    rng = gen if gen is not None else np.random.default_rng(seed)
    joker = TheJoker(env["prior"], rng=rng, pool=pool)
    with warnings.catch_warnings():
        warnings.simplefilter("ignore")
        if kind == "rej":
            return joker.rejection_sample(env["data"], env["lib"], **kw)
        if kind == "rej_fn":
            return joker.rejection_sample(env["data"], env["fn"], **kw)
        if kind == "rej_int":
            return joker.rejection_sample(env["data"], 48, **kw)
        if kind == "it":
            return joker.iterative_rejection_sample(env["data"], env["lib"], **kw)
        if kind == "it_fn":
            return joker.iterative_rejection_sample(env["data"], env["fn"], **kw)
    raise ValueError(kind)


def global_state():
    st = np.random.get_state()
    return (st[0], st[1].tobytes(), st[2], st[3], st[4]), random.getstate()


def reproducibility(ctx, env):
    n = 0
    nt = 0
    for label, kind, kw in PATHS:
        case = dict(family="repro", path=label)
        try:
            np.random.seed(12345)
            random.seed(1)
            np.random.normal()  # leaves a cached second Gaussian in the legacy global state: part of the state a caller can observe
            random.gauss(0, 1)
            g0 = global_state()
            a = table_bytes(run_path(env, kind, kw, seed=777))
            if global_state() != g0:
                ctx.fail("predicate", "C10:global-state", f"{label}: numpy's or Python's GLOBAL random state was changed by the call", case=case)
            np.random.seed(999)  # a different global seed must not matter
            random.seed(2)
            b = table_bytes(run_path(env, kind, kw, seed=777))
            c = table_bytes(run_path(env, kind, kw, seed=778))
            n += 3
            if a != b:
                diff = [k for k in a if a.get(k) != b.get(k)] or ["columns"]
                sig = "C10:D8-count-without-rng" if kind == "rej_int" else "C10:repro"
                ctx.fail("predicate", sig, f"{label}: two runs with equal seed differ (columns {diff[:4]}): output depends on something other than the given generator", case=case)
            else:
                nt += 1
            if a == c and len(a.get("P", b"")) > 0:
                ctx.fail("predicate", "C10:repro", f"{label}: different seeds give identical output (the generator is not used)", case=case)
        except Exception as e:
            ctx.fail("predicate", "C10:repro", f"{label}: raised {type(e).__name__}: {str(e)[:120]}", case=case)
    # prior.sample
    for gl in (False, True):
        case = dict(family="repro", path=f"prior.sample(generate_linear={gl})")
        with warnings.catch_warnings():
            warnings.simplefilter("ignore")
            np.random.seed(5)
            np.random.normal()  # cached Gaussian present
            g0 = global_state()
            a = table_bytes(env["prior"].sample(size=12, generate_linear=gl, rng=np.random.default_rng(31)))
            if global_state() != g0:
                ctx.fail("predicate", "C10:global-state", f"prior.sample(rng=...) changed the global random state", case=case)
            np.random.seed(6)
            b = table_bytes(env["prior"].sample(size=12, generate_linear=gl, rng=np.random.default_rng(31)))
        n += 2
        if a != b:
            ctx.fail("predicate", "C10:repro", f"prior.sample(rng=Generator(31), generate_linear={gl}) is not reproducible", case=case)
        else:
            nt += 1
    return n, nt


def flat_data():
    """Uninformative data: nearly every prior sample is accepted, so every batch contributes linear draws."""
    import astropy.units as u
    from thejoker.data import RVData

    t = 55000 + np.array([0.0, 11.5, 23.25, 40.0])
    return RVData(t, np.array([1.0, -2.0, 0.5, 0.25]) * u.km / u.s, np.full(4, 5000.0) * u.km / u.s)


CROSS_PROCESS = r"""
import sys, warnings, hashlib, os
warnings.filterwarnings("ignore")
import logging; logging.disable(logging.WARNING)
import numpy as np, astropy.units as u
from thejoker.prior import JokerPrior
from thejoker.data import RVData
from thejoker.thejoker import TheJoker
prior = JokerPrior.default(P_min=1*u.day, P_max=100*u.day, sigma_K0=300*u.km/u.s, sigma_v=100*u.km/u.s)
h = hashlib.sha256()
for gl in (False, True):
    s = prior.sample(size=8, generate_linear=gl, rng=np.random.default_rng(3))
    for c in sorted(s.par_names):
        h.update(c.encode()); h.update(np.ascontiguousarray(np.asarray(s[c].value if hasattr(s[c], "value") else s[c], float)).tobytes())
t = 55000 + np.array([0.0, 11.5, 23.25, 40.0])
data = RVData(t, np.array([1.0, -2.0, 0.5, 0.25]) * u.km / u.s, np.full(4, 5000.0) * u.km / u.s)
post = TheJoker(prior, rng=np.random.default_rng(5)).rejection_sample(data, 24, in_memory=True)
for c in sorted(post.par_names):
    h.update(np.ascontiguousarray(np.asarray(post[c].value, float)).tobytes())
print("DIGEST", h.hexdigest())
"""


def cross_process(ctx):
    """Equal seeds in DIFFERENT interpreter processes (different string-hash salts) must give identical results."""
    procs = []
    for hs in ("1", "2", "3"):
        env = dict(os.environ, PYTHONHASHSEED=hs, PYTHONPATH=ctx.overlay)
        procs.append(subprocess.Popen(["/venv/bin/python", "-c", CROSS_PROCESS], env=env, stdout=subprocess.PIPE, stderr=subprocess.PIPE, text=True, cwd=ctx.scratch))
    digests = []
    for p in procs:
        out, err = p.communicate(timeout=600)
        d = [l.split()[1] for l in out.splitlines() if l.startswith("DIGEST")]
        digests.append(d[0] if d else "FAILED:" + err[-200:])
    case = dict(family="repro", path="prior.sample + rejection by count in 3 processes with PYTHONHASHSEED 1,2,3")
    if any(d.startswith("FAILED") for d in digests):
        ctx.fail("predicate", "C10:repro", f"cross-process run failed: {digests}", case=case)
    elif len(set(digests)) != 1:
        ctx.fail("predicate", "C10:repro", "equal seeds give different prior / posterior samples in different interpreter processes (results depend on the per-process hash salt)", case=case)
    return 3


def multipool_repro(ctx, env):
    import schwimmbad

    env = dict(env, data=flat_data())

    case = dict(family="repro", path="rejection MultiPool(2) n_batches=4")
    outs = []
    for _ in range(2):
        pool = schwimmbad.MultiPool(processes=2)
        try:
            outs.append(table_bytes(run_path(env, "rej_fn", dict(n_batches=4, n_linear_samples=2), seed=4242, pool=pool)))
        finally:
            pool.close()
    if outs[0] != outs[1]:
        ctx.fail("predicate", "C10:repro", "rejection_sample on a 2-process pool with equal seed and equal batching is not reproducible", case=case)
    serial = table_bytes(run_path(env, "rej_fn", dict(n_batches=4, n_linear_samples=2), seed=4242))
    if serial != outs[0]:
        ctx.fail("predicate", "C10:repro", "equal seed and batching: serial and 2-process pool results differ", case=case)
    return 3


def overlap_case(ctx, env):
    """Two calls on one sampler over a library of IDENTICAL prior rows with uninformative data: every accepted row has the same
    conditional posterior, so a linear-parameter draw is a fixed function of the standard normals consumed -- a double that appears
    in both calls means the second call's child stream re-reads a stretch of the first call's."""
    import astropy.units as u
    from thejoker.samples import JokerSamples
    from thejoker.thejoker import TheJoker

    lib = JokerSamples()
    n = 96  # the uniform draws of one call (one per row) shift the parent stream by a whole number of rows' worth of normals for 2, 3 and 4 linear parameters
    lib["P"], lib["e"] = np.full(n, 17.5) * u.day, np.full(n, 0.25) * u.one
    lib["omega"], lib["M0"], lib["s"] = np.full(n, 1.0) * u.rad, np.full(n, 2.0) * u.rad, np.zeros(n) * u.km / u.s
    fn = os.path.join(ctx.scratch, "c10_identical.hdf5")
    lib.write(fn, overwrite=True)
    case = dict(family="streams", scenario="two file calls over a library of identical rows, n_linear_samples=8")
    try:
        joker = TheJoker(env["prior"], rng=np.random.default_rng(909))
        with warnings.catch_warnings():
            warnings.simplefilter("ignore")
            a = joker.rejection_sample(flat_data(), fn, n_linear_samples=8, n_batches=2)
            b = joker.rejection_sample(flat_data(), fn, n_linear_samples=8, n_batches=2)
        ka, kb = set(np.asarray(a["K"].value, float).tolist()), set(np.asarray(b["K"].value, float).tolist())
        if len(ka) < 0.9 * len(a):
            ctx.fail("predicate", "C10:streams", f"{case['scenario']}: only {len(ka)} distinct K draws among {len(a)} rows of one call", case=case)
        common = ka & kb
        if common:
            ctx.fail("predicate", "C10:streams", f"{case['scenario']}: {len(common)} of the {len(b)} linear draws of call #2 are bit-identical to draws of call #1 "
                     "(the calls' child streams overlap)", case=case)
    except Exception as e:
        ctx.fail("predicate", "C10:streams", f"{case['scenario']}: raised {type(e).__name__}: {str(e)[:150]}", case=case)
    return 1


def stream_cases(ctx, env):
    """Record the spawn protocol on real calls and hand it to the model."""
    import numpy.random as npr
    from thejoker.thejoker import TheJoker

    terms, kept = [], []
    used = []
    orig = npr.PCG64

    class PCG64Rec(orig):
        def __init__(self, seed=None):
            if isinstance(seed, np.random.SeedSequence):
                used.append(tuple(seed.spawn_key))
            super().__init__(seed)

    scenarios = [
        ("two rejection calls, n_batches 3 then 2", [("rej", dict(n_batches=3, n_linear_samples=2)), ("rej", dict(n_batches=2))]),
        ("rejection + iterative on one object", [("rej_fn", dict(n_batches=4, randomize_prior_order=True)), ("it_fn", dict(n_requested_samples=2, init_batch_size=16, growth_factor=2, n_batches=3))]),
        ("three calls default batching", [("rej", {}), ("rej", {}), ("rej_fn", dict(n_batches=5))]),
        ("two file calls drawing many linear samples each", [("rej_fn", dict(n_batches=2, n_linear_samples=8)), ("rej_fn", dict(n_batches=2, n_linear_samples=8))]),
        ("in-memory calls (no child generators: every draw from the sampler's own stream), then a file call",
         [("rej_mem", {}), ("rej_mem", dict(n_linear_samples=2)), ("it_mem", dict(n_requested_samples=2, init_batch_size=16, growth_factor=2)), ("rej_fn", dict(n_batches=2))]),
    ]
    for label, calls in scenarios:
        gen = RecGen(2024)
        del used[:]
        joker = TheJoker(env["prior"], rng=gen)
        Ks = []
        npr.PCG64 = PCG64Rec
        try:
            with warnings.catch_warnings():
                warnings.simplefilter("ignore")
                for kind, kw in calls:
                    mark = len(gen.ss.spawn_log)
                    if kind == "rej":
                        s = joker.rejection_sample(env["data"], env["lib"], **kw)
                    elif kind == "rej_mem":
                        s = joker.rejection_sample(env["data"], env["lib"], in_memory=True, **kw)
                    elif kind == "it_mem":
                        s = joker.iterative_rejection_sample(env["data"], env["lib"], in_memory=True, **kw)
                    elif kind == "rej_fn":
                        s = joker.rejection_sample(env["data"], env["fn"], **kw)
                    else:
                        s = joker.iterative_rejection_sample(env["data"], env["fn"], **kw)
                    gen.calls.extend(("spawn", len(ch)) for ch in gen.ss.spawn_log[mark:])
                    Ks.append((np.asarray(s["P"].value).tobytes(), np.asarray(s["K"].value).tobytes()))
        finally:
            npr.PCG64 = orig
        case = dict(family="streams", scenario=label)
        handed = [k for ch in gen.ss.spawn_log for k in ch]
        obs_keys = [int(k[-1]) for k in handed]
        used_keys = [int(k[-1]) for k in used if len(k) > 0]
        if len(set(handed)) != len(handed):
            ctx.fail("predicate", "C10:streams", f"{label}: two child generators share a spawn key", case=case)
        if len(set(used)) != len(used) or sorted(used) != sorted(handed):
            ctx.fail("predicate", "C10:streams", f"{label}: task generators were not built one-to-one from the spawned child seeds (built from {used[:6]}.., spawned {handed[:6]}..)", case=case)
        # linear draws are continuous: the same double appearing in two calls means the calls read overlapping stretches of one stream
        kvals = [set(np.frombuffer(kb, dtype=float).tolist()) for _, kb in Ks]
        for a_ in range(len(kvals)):
            for b_ in range(a_ + 1, len(kvals)):
                common = kvals[a_] & kvals[b_]
                if common:
                    ctx.fail("predicate", "C10:streams", f"{label}: {len(common)} linear-parameter draws of call #{b_ + 1} are bit-identical to draws of call #{a_ + 1} "
                             "(the calls' child streams overlap)", case=case)
        if len(Ks) >= 2 and Ks[0] == Ks[1]:
            ctx.fail("predicate", "C10:streams", f"{label}: two successive calls returned identical samples incl. linear draws (streams repeated)", case=case)
        cs = coq_list([f"CDraw {n}" if k == "draw" else f"CSpawn {n}" for k, n in gen.calls])
        terms.append(f"({cs}, {coq_list([str(k) for k in obs_keys])}, {coq_list([str(k) for k in used_keys])})")
        kept.append(case)
    return terms, kept


def run(ctx):
    ctx.make_overlay(need_kernel=True)
    ctx.regen_all()
    ok = ctx.build_models(MODELS)
    if ok:
        ctx.build_props()
    # (a) static effect scan of the overlay's sources
    sys.path.insert(0, os.path.join(VERIF, "tools"))
    import rng_scan

    findings = rng_scan.scan(ctx.overlay)
    ctx.obligations += 1
    if not findings:
        ctx.discharged += 1
    static_d8 = [f for f in findings if " R5 " in f]
    for f in findings:
        ctx.note("static scan: " + f)
    env = setup(ctx)
    n_eval, nt = reproducibility(ctx, env)
    n_eval += multipool_repro(ctx, env)
    n_eval += overlap_case(ctx, env)
    n_eval += cross_process(ctx)
    terms, kept = stream_cases(ctx, env)
    n_eval += len(terms)
    nt += len(terms)
    if ok:
        try:
            for i in ctx.coq_check_cases("c10", HEADER, terms, "check", shard=50):
                ctx.fail("correspondence", "C10:streams", f"recorded spawn protocol differs from the model (Model/Rng.v): {kept[i]} {terms[i][:300]}", case=kept[i])
        except CoqRunError as e:
            ctx.broken_ties.append("correspondence could not be evaluated: " + str(e)[:500])
    # static findings without a dynamic failing input are broken ties
    dyn_sigs = {f.sig for f in ctx.failures}
    for f in findings:
        if " R5 " in f and "C10:D8-count-without-rng" in dyn_sigs:
            continue  # the dynamic run exhibits it (failing input found)
        ctx.broken_ties.append("static effect scan: " + f)
    ctx.samples.append({"paths": [p[0] for p in PATHS], "stream_case": terms[0][:300] if terms else None, "static_findings": findings})
    ctx.coverage.update(evaluations=n_eval, distinct_nontrivial=nt)
    return ctx.finish(
        rule="every entry point x option combination in PATHS (8 sampler paths incl. prior samples requested by count, prior.sample with/without linear "
        "parameters) run with equal seeds under two different GLOBAL seeds and with a different seed; a 2-process pool vs serial with equal batching; "
        "the same seeded computation in 3 interpreter processes with different hash salts; 3 multi-call scenarios recording the spawn protocol; plus the static effect scan (1 obligation). Non-trivial = path produced identical "
        "non-empty output for equal seeds",
        assumptions=["numpy's SeedSequence.spawn contract: children with distinct spawn keys are independent streams",
                     "pymc.draw(random_seed=Generator) derives all its randomness from that generator",
                     "static scan rules R1-R10 (tools/rng_scan.py) are the code-level reading of the model's effect discipline"],
    )


def replay(ctx, path):
    return run(ctx)
