"""C09 -- prior draws and reported ln_prior follow the declared densities.

Ties: theorems Props/C09.v over the reals (support, inverse CDF, derivative, log-density, normalisation of the log-uniform
prior; the K prior's variance rule equals the kernel's) whose executable encodings denote the real definitions; per run,
certified-interval certificates (Base/RealEnc.v, evaluated by Coq) on numbers the implementation produces:
  logp   pm.logp(UniformLog.dist(a, b), x) inside, at the edges of and outside [a, b]
  draw   UniformLogRV.rng_fn driven by a stub generator returning chosen uniform variates
  sigma  the sigma parameter and the log-density of the configured K prior at chosen (P, e); its square against the kernel's rule
  rows   differences of the ln_prior column of prior.sample(return_logprobs=True) between rows against differences of the
         joint log-density at those rows, generate_linear off and on
and python-level checks of the Beta parameters, the support of real draws and a Kolmogorov-Smirnov distance (supportive).
"""
import json
import math
import warnings

import numpy as np

from common import CoqRunError, coq_Q, coq_list, coq_xq, load_corpus, rng_for

SIG = "C09:densities"
MODELS = ["Base/Corr.vo", "Base/RealEnc.vo", "Base/XQ.vo", "Model/Densities.vo"]
HEADER = """From Coq Require Import QArith ZArith List Bool.
From TJ Require Import Base.Corr Base.XQ Base.RealEnc Model.Densities.
Import ListNotations. Open Scope Q_scope.
"""


def q(x, m=1024):
    return float(np.round(x * m) / m)


# pytensor stores Python-float parameters that are exactly representable in single precision as float32 constants, so ln(b/a), sigma_K0,
# P0 ... enter the implementation's arithmetic with float32 round-off (6e-8): densities are compared to 2e-6, not to double precision
SINGLE = 2e-6


def tol_for(x, rel=SINGLE):
    return rel * max(1.0, abs(x))


class StubGen:
    """stands in for the numpy Generator inside rng_fn: returns the uniform variates it was given"""

    def __init__(self, uu):
        self.uu = np.asarray(uu, float)

    def uniform(self, *a, size=None, **k):
        return self.uu.copy()


def gen_cases(ctx):
    rng = rng_for(ctx, 9)
    n = 12 if ctx.tier == "quick" else 80
    cases = []
    for _ in range(n):
        a = q(10 ** rng.uniform(-2, 3), 64) or 0.25
        b = a * q(10 ** rng.uniform(0.05, 6), 16) + 1 / 16
        xs = [a, b, q(a + (b - a) * rng.random(), 1 << 20), q(a * (b / a) ** rng.random(), 1 << 20), a / 2, b * 1.5, q(a - 1 / 64, 1 << 10) if a > 1 / 32 else a / 4, b + 1 / 8]
        xs = [x for x in xs if x > 0]
        uu = [0.0, 0.5, q(rng.random(), 1 << 30), q(rng.random(), 1 << 30), 1 - 2.0**-30, 2.0**-40]
        cfg = dict(a=a, b=b, xs=xs, uu=uu,
                   sK0=q(rng.uniform(5, 80), 16), P0=[365.25, 128.0, 50.0][int(rng.integers(0, 3))], maxK=[500.0, q(rng.uniform(15, 120), 16)][int(rng.random() < 0.6)],
                   sigma_v=[q(rng.uniform(10, 200), 8), q(rng.uniform(0.01, 1), 1024), q(rng.uniform(1e-4, 1e-2), 1 << 20)],
                   poly_trend=int(rng.integers(1, 4)), seed=int(rng.integers(0, 2**31)), n_rows=6,
                   K_unit=["km/s", "m/s"][int(rng.random() < 0.4)], P0_unit=["d", "yr"][int(rng.random() < 0.4)])
        # sigma_K0 is handed over in K_unit and P0 in P0_unit; every number below (sK0, maxK, sigma) is then in K_unit
        cfg["f"] = 1000.0 if cfg["K_unit"] == "m/s" else 1.0
        # user-supplied (non-constant) priors on the jitter and the angles: (kind, mu, sigma) per parameter, or absent
        cfg["extra"] = {}
        if rng.random() < 0.5:
            if rng.random() < 0.7:
                cfg["extra"]["s"] = ["lognormal", q(rng.uniform(-2, 1), 64), q(rng.uniform(0.3, 1.5), 64)]
            if rng.random() < 0.5:
                cfg["extra"]["omega"] = ["normal", q(rng.uniform(1, 5), 64), q(rng.uniform(0.3, 2), 64)]
            if rng.random() < 0.5:
                cfg["extra"]["M0"] = ["normal", q(rng.uniform(1, 5), 64), q(rng.uniform(0.3, 2), 64)]
        cfg["Pe"] = [(q(a * (b / a) ** rng.random(), 1 << 16), q(rng.uniform(0, 0.95), 1024)) for _ in range(4)] + [(a, 0.0), (q(min(b, a * 1.01), 1 << 16), 0.9375)]
        cases.append(cfg)
    return cases


def build_prior(cfg):
    """JokerPrior.default (its wiring is part of the property) when max_K is the default 500 km/s, else the same prior assembled by hand
    with the requested max_K."""
    import astropy.units as u
    import pymc as pm
    import pytensor.tensor as pt
    import thejoker.units as xu
    from thejoker.distributions import FixedCompanionMass, Kipping13Global, UniformLog
    from thejoker.prior import JokerPrior

    sv = [cfg["sigma_v"][i] * u.km / u.s / u.day**i for i in range(cfg["poly_trend"])]
    with warnings.catch_warnings():
        warnings.simplefilter("ignore")
        ex = cfg.get("extra") or {}
        if cfg["maxK"] == 500.0 and not ex:
            return JokerPrior.default(P_min=cfg["a"] * u.day, P_max=cfg["b"] * u.day, sigma_K0=(cfg["sK0"] * cfg["f"]) * u.Unit(cfg["K_unit"]),
                                      P0=(cfg["P0"] * u.day).to(u.Unit(cfg["P0_unit"])),
                                      sigma_v=sv if cfg["poly_trend"] > 1 else sv[0], poly_trend=cfg["poly_trend"])
        with pm.Model():
            P = xu.with_unit(UniformLog("P", cfg["a"], cfg["b"]), u.day)
            e = xu.with_unit(Kipping13Global("e"), u.one)
            def angle(name):
                if name in ex:
                    return xu.with_unit(pm.TruncatedNormal(name, mu=np.float64(ex[name][1]), sigma=np.float64(ex[name][2]), lower=0.0, upper=2 * np.pi), u.rad)
                return xu.with_unit(pm.Uniform(name, 0, 2 * np.pi), u.rad)
            om, M0 = angle("omega"), angle("M0")
            if "s" in ex:
                s = xu.with_unit(pm.Lognormal("s", mu=np.float64(ex["s"][1]), sigma=np.float64(ex["s"][2])), u.km / u.s)
            else:
                s = xu.with_unit(pm.Deterministic("s", pt.constant(0.0)), u.km / u.s)
            K = xu.with_unit(FixedCompanionMass("K", P=P, e=e, sigma_K0=(cfg["sK0"] * cfg["f"]) * u.Unit(cfg["K_unit"]), P0=(cfg["P0"] * u.day).to(u.Unit(cfg["P0_unit"])),
                                                max_K=cfg["maxK"] * u.km / u.s), u.Unit(cfg["K_unit"]))
            pars = dict(P=P, e=e, omega=om, M0=M0, s=s, K=K)
            for i in range(cfg["poly_trend"]):
                pars[f"v{i}"] = xu.with_unit(pm.Normal(f"v{i}", np.array(0.0), np.array(cfg["sigma_v"][i], dtype="f8")), u.km / u.s / u.day**i)
            return JokerPrior(pars=pars, poly_trend=cfg["poly_trend"])


def observe(cfg):
    import pymc as pm
    from thejoker.distributions import UniformLog, UniformLogRV

    a, b = cfg["a"], cfg["b"]
    o = {}
    with warnings.catch_warnings():
        warnings.simplefilter("ignore")
        d = UniformLog.dist(a, b)
        o["logp"] = [float(pm.logp(d, np.float64(x)).eval()) for x in cfg["xs"]]
        o["draw"] = np.asarray(UniformLogRV.rng_fn(StubGen(cfg["uu"]), a, b, size=len(cfg["uu"])), float).tolist()
        prior = build_prior(cfg)
        K, P, e = prior.pars["K"], prior.pars["P"], prior.pars["e"]
        mu_g, sig_g = K.owner.op.dist_params(K.owner)
        o["sigma"] = [float(sig_g.eval({P: np.float64(p_), e: np.float64(e_)})) for p_, e_ in cfg["Pe"]]
        kk = [q(s * 0.7, 1 << 20) for s in o["sigma"]]
        lpK = pm.logp(K, np.float64(0.0))
        o["K_at"] = kk
        o["K_logp"] = [float(pm.logp(K, np.float64(k_)).eval({P: np.float64(p_), e: np.float64(e_)})) for k_, (p_, e_) in zip(kk, cfg["Pe"])]
        ecc = e.owner.op.dist_params(e.owner)
        o["beta"] = (float(ecc[0].eval()), float(ecc[1].eval()))
        o["rows"] = {}
        for lin in (False, True):
            s = prior.sample(size=cfg["n_rows"], generate_linear=lin, return_logprobs=True, rng=np.random.default_rng(cfg["seed"]))
            rows = dict(P=np.asarray(s["P"].value, float), e=np.asarray(s["e"].value, float), ln_prior=np.asarray(s["ln_prior"], float))
            rows["x"] = {k: np.asarray(s[k].value, float) for k in sorted(cfg.get("extra") or {})}
            if lin:
                rows["K"] = np.asarray(s["K"].value, float)
                rows["v"] = [np.asarray(s[f"v{i}"].value, float) for i in range(cfg["poly_trend"])]
            o["rows"][lin] = rows
        big = prior.sample(size=4000, rng=np.random.default_rng(cfg["seed"] + 1))
        o["bigP"] = np.asarray(big["P"].value, float)
        o["bige"] = np.asarray(big["e"].value, float)
        # the JOINT law of a row: K is drawn given the row's own (P, e)
        bl = prior.sample(size=4000, generate_linear=True, rng=np.random.default_rng(cfg["seed"] + 2))
        Pb, eb, Kb = np.asarray(bl["P"].value, float), np.asarray(bl["e"].value, float), np.asarray(bl["K"].value, float)
        sg = np.clip(cfg["sK0"] * cfg["f"] * (Pb / cfg["P0"]) ** (-1 / 3) / np.sqrt(1 - eb**2), 0, cfg["maxK"] * cfg["f"])
        o["zK"] = Kb / sg
    return o


def predicate(cfg, o):
    errs = []
    a, b = cfg["a"], cfg["b"]
    norm = math.log(b) - math.log(a)
    for x, lp in zip(cfg["xs"], o["logp"]):
        if a <= x <= b:
            exp = -math.log(x) - math.log(norm)
            if not (math.isfinite(lp) and abs(lp - exp) <= SINGLE * max(1, abs(exp))):
                errs.append(f"UniformLog({a}, {b}).logp({x}) = {lp!r}, the log of the normalised density 1/(x ln(b/a)) is {exp!r}")
        elif lp != -math.inf:
            errs.append(f"UniformLog({a}, {b}).logp({x}) = {lp!r} outside the support (must be -inf)")
    for u_, dr in zip(cfg["uu"], o["draw"]):
        exp = math.exp(u_ * norm + math.log(a))
        if not (abs(dr - exp) <= SINGLE * exp * max(1.0, norm) and a * (1 - SINGLE) <= dr <= b * (1 + SINGLE * max(1.0, norm))):
            errs.append(f"UniformLog rng_fn with u={u_}: {dr!r}, expected {exp!r} in [{a}, {b})")
    for (p_, e_), sg, k_, lpk in zip(cfg["Pe"], o["sigma"], o["K_at"], o["K_logp"]):
        exp = min(max(cfg["sK0"] * cfg["f"] * (p_ / cfg["P0"]) ** (-1 / 3) / math.sqrt(1 - e_**2), 0.0), cfg["maxK"] * cfg["f"])
        if abs(sg - exp) > SINGLE * exp:
            errs.append(f"K prior sigma at P={p_}, e={e_}: {sg!r}, declared min(sigma_K0 (P/P0)^(-1/3)/sqrt(1-e^2), max_K) = {exp!r}")
        elp = -0.5 * (k_ / exp) ** 2 - math.log(exp) - 0.5 * math.log(2 * math.pi)
        if abs(lpk - elp) > 5 * SINGLE * max(1, abs(elp)):
            errs.append(f"K prior logp at K={k_}, P={p_}, e={e_}: {lpk!r}, Normal(0, sigma(P,e)) gives {elp!r}")
    if not (abs(o["beta"][0] - 0.867) < 1e-12 and abs(o["beta"][1] - 3.03) < 1e-12):
        errs.append(f"default eccentricity prior is Beta{o['beta']}, Kipping (2013) global is Beta(0.867, 3.03)")
    for lin, rows in o["rows"].items():
        d = joint_logdens(cfg, rows, lin)
        dd = (rows["ln_prior"] - rows["ln_prior"][0]) - (d - d[0])
        if not np.all(np.abs(dd) <= 5 * SINGLE * (1 + np.abs(d))):
            i = int(np.argmax(np.abs(dd)))
            errs.append(f"prior.sample(generate_linear={lin}, return_logprobs=True): ln_prior[{i}] - ln_prior[0] = {rows['ln_prior'][i] - rows['ln_prior'][0]!r} "
                        f"but the joint log-density differs by {d[i] - d[0]!r} between those rows")
    if not (np.all(o["bigP"] >= a) and np.all(o["bigP"] <= b) and np.all(o["bige"] >= 0) and np.all(o["bige"] <= 1)):
        errs.append("prior draws outside the support")
    cdf = np.sort((np.log(o["bigP"]) - math.log(a)) / norm)
    ks = float(np.max(np.abs(cdf - (np.arange(len(cdf)) + 0.5) / len(cdf))))
    o["ks"] = ks
    if "zK" in o:
        from math import erf

        z = np.sort(o["zK"])
        cdfz = np.array([0.5 * (1 + erf(v / math.sqrt(2))) for v in z])
        ksz = float(np.max(np.abs(cdfz - (np.arange(len(z)) + 0.5) / len(z))))
        o["ks_K"] = ksz
        if ksz > 0.045:  # 4000 draws: far beyond the 1e-6 quantile of the KS statistic
            errs.append(f"K / sigma_K(P, e) of the drawn rows is not standard normal (KS distance {ksz:.3f} over 4000 draws, sd {np.std(z):.3f}): "
                        "K is not drawn given the row's own period and eccentricity")
    if ks > 0.04:  # 4000 draws: the 1e-5 quantile of the KS statistic is 0.038
        errs.append(f"period draws do not follow the log-uniform CDF (KS distance {ks:.3f} over 4000 draws)")
    return errs


def joint_logdens(cfg, rows, lin):
    a, b = cfg["a"], cfg["b"]
    d = -np.log(rows["P"]) + (0.867 - 1) * np.log(rows["e"]) + (3.03 - 1) * np.log(1 - rows["e"])
    for k, (kind, mu, sg) in sorted((cfg.get("extra") or {}).items()):
        x = rows["x"][k]
        d = d + (-0.5 * ((np.log(x) - mu) / sg) ** 2 - np.log(x) if kind == "lognormal" else -0.5 * ((x - mu) / sg) ** 2)
    if lin:
        sg = np.clip(cfg["sK0"] * cfg["f"] * (rows["P"] / cfg["P0"]) ** (-1 / 3) / np.sqrt(1 - rows["e"] ** 2), 0, cfg["maxK"] * cfg["f"])
        d = d - 0.5 * (rows["K"] / sg) ** 2 - np.log(sg)
        for i, v in enumerate(rows["v"]):
            d = d - 0.5 * (v / cfg["sigma_v"][i]) ** 2
    return d


def run_cases(ctx, cases):
    t_logp, t_draw, t_sig, t_rows, info = [], [], [], [], {"logp": [], "draw": [], "sig": [], "rows": []}
    nt = 0
    stats = dict(logp_inside=0, logp_outside=0, draws=0, sigma_points=0, clip_active=0, row_pairs=0, ks_max=0.0)
    for cfg in cases:
        try:
            o = observe(cfg)
        except Exception as e:
            ctx.fail("predicate", SIG, f"implementation raised {type(e).__name__}: {str(e)[:300]}", case=cfg)
            continue
        for e in predicate(cfg, o)[:2]:
            ctx.fail("predicate", SIG, e, case=cfg)
        stats["ks_max"] = max(stats["ks_max"], o.get("ks", 0.0))
        stats["ks_K_max"] = max(stats.get("ks_K_max", 0.0), o.get("ks_K", 0.0))
        a, b = cfg["a"], cfg["b"]
        for x, lp in zip(cfg["xs"], o["logp"]):
            if math.isnan(lp):
                continue
            t_logp.append(f"({coq_Q(a)}, {coq_Q(b)}, {coq_Q(x)}, {coq_xq(lp)}, {coq_Q(tol_for(lp) if math.isfinite(lp) else 1.0)})")
            info["logp"].append((cfg, x, lp))
            stats["logp_inside" if a <= x <= b else "logp_outside"] += 1
        for u_, dr in zip(cfg["uu"], o["draw"]):
            if math.isfinite(dr):
                t_draw.append(f"({coq_Q(a)}, {coq_Q(b)}, {coq_Q(u_)}, {coq_Q(dr)}, {coq_Q(tol_for(dr) * max(1.0, math.log(b / a)))})")
                info["draw"].append((cfg, u_, dr))
                stats["draws"] += 1
        for (p_, e_), sg, k_, lpk in zip(cfg["Pe"], o["sigma"], o["K_at"], o["K_logp"]):
            if math.isfinite(sg) and math.isfinite(lpk):
                t_sig.append(f"({coq_Q(cfg['sK0'] * cfg['f'])}, {coq_Q(cfg['P0'])}, {coq_Q(cfg['maxK'] * cfg['f'])}, {coq_Q(p_)}, {coq_Q(e_)}, {coq_Q(sg)}, {coq_Q(tol_for(sg))}, {coq_Q(k_)}, {coq_Q(lpk)}, {coq_Q(tol_for(lpk, 5 * SINGLE))})")
                info["sig"].append((cfg, p_, e_, sg))
                stats["sigma_points"] += 1
                stats["clip_active"] += sg == cfg["maxK"] * cfg["f"]
        pc = (f"(mk_pcfg {coq_Q(a)} {coq_Q(b)} kipping_global {coq_Q(cfg['sK0'] * cfg['f'])} {coq_Q(cfg['P0'])} {coq_Q(cfg['maxK'] * cfg['f'])} "
              f"{coq_list(['(0, ' + coq_Q(s) + ')' for s in cfg['sigma_v'][:cfg['poly_trend']]])} "
              + coq_list([f"({'XLogNormal' if kind == 'lognormal' else 'XNormal'} {coq_Q(mu)} {coq_Q(sg)})" for _, (kind, mu, sg) in sorted((cfg.get('extra') or {}).items())]) + ")")
        for lin, rows in o["rows"].items():
            def prow(i):
                K = coq_Q(rows["K"][i]) if lin else "0"
                v = coq_list([coq_Q(rows["v"][j][i]) for j in range(cfg["poly_trend"])]) if lin else "[]"
                xs = coq_list([coq_Q(rows["x"][k][i]) for k in sorted(rows["x"])])
                return f"(mk_prow {coq_Q(rows['P'][i])} {coq_Q(rows['e'][i])} {K} {v} {xs})"
            if not np.isfinite(rows["ln_prior"]).all():
                continue
            for i in range(1, len(rows["P"])):
                t_rows.append(f"({pc}, {'true' if lin else 'false'}, {prow(0)}, {prow(i)}, {coq_Q(rows['ln_prior'][0])}, {coq_Q(rows['ln_prior'][i])}, "
                              f"{coq_Q(5 * SINGLE * (1 + abs(rows['ln_prior'][i] - rows['ln_prior'][0])))})")
                info["rows"].append((cfg, lin, i))
                stats["row_pairs"] += 1
                stats["row_pairs_user_prior"] = stats.get("row_pairs_user_prior", 0) + bool(rows["x"])
        nt += 1
    hd = HEADER + """Definition c_logp (t : Q * Q * Q * XQ * Q) : bool := let '(a, b, x, o, tol) := t in ul_logp_obs_ok a b x o tol.
Definition c_draw (t : Q * Q * Q * Q * Q) : bool := let '(a, b, u, o, tol) := t in ul_draw_obs_ok a b u o tol.
Definition c_sig (t : Q * Q * Q * Q * Q * Q * Q * Q * Q * Q) : bool :=
  let '(s, p0, m, p, e, o, tol, k, lp, tol2) := t in fcm_sigma_obs_ok s p0 m p e o tol && fcm_var_matches_kernel s p0 m p e && fcm_logp_obs_ok s p0 m p e k lp tol2.
Definition c_rows (t : prior_cfg * bool * prior_row * prior_row * Q * Q * Q) : bool :=
  let '(c, lin, r0, r1, l0, l1, tol) := t in row_diff_ok c lin r0 r1 l0 l1 tol.
"""
    for tag, terms, fn, what in (("logp", t_logp, "c_logp", "pm.logp(UniformLog) is not the log of the normalised density inside [a,b] / minus infinity outside"),
                                 ("draw", t_draw, "c_draw", "UniformLog rng_fn is not the inverse-CDF transform exp(u ln(b/a) + ln a) inside [a,b]"),
                                 ("sig", t_sig, "c_sig", "K prior: sigma(P,e) / its square vs the kernel's variance rule / logp disagree with the declared Normal(0, min(sigma_K0 (P/P0)^(-1/3)/sqrt(1-e^2), max_K))"),
                                 ("rows", t_rows, "c_rows", "ln_prior differences between rows of prior.sample(return_logprobs=True) are not the joint log-density differences")):
        if not terms:
            continue
        bad = ctx.coq_check_cases("c09_" + tag, hd, terms, fn, shard=40)
        for i in bad[:6]:
            ctx.fail("correspondence", SIG, what + f" [{info[tag][i][1:]}]", case=info[tag][i][0])
    if cases:
        ctx.samples.append({"config": {k: cases[0][k] for k in ("a", "b", "sK0", "P0", "maxK", "sigma_v", "poly_trend")}, "logp_case": t_logp[0] if t_logp else None,
                            "rows_case": t_rows[-1][:300] if t_rows else None})
    ctx.coverage["distribution"] = stats
    return len(cases), nt


def run(ctx):
    ctx.make_overlay(need_kernel=True)
    ctx.regen_all(needed=("consts2v.py",))  # Gen/ConstsGen.v: the Kipping Beta parameters as the source has them now
    ok = ctx.build_models(MODELS)
    if ok:
        ctx.build_props()
        ctx.build_props("Props/C09c.vo")
    else:
        ctx.obligations += 1
    cases = load_corpus("C09") + gen_cases(ctx)
    n_eval = nt = 0
    try:
        if ok:
            n_eval, nt = run_cases(ctx, cases)
    except CoqRunError as e:
        ctx.broken_ties.append("correspondence could not be evaluated: " + str(e)[:500])
        ok = False
    if not ok:
        for cfg in cases[:4]:
            n_eval += 1
            try:
                errs = predicate(cfg, observe(cfg))
            except Exception as e:
                errs = [f"raised {type(e).__name__}: {e}"]
            if errs:
                ctx.fail("predicate", SIG, errs[0], case=cfg)
                break
    ctx.coverage.update(evaluations=n_eval, distinct_nontrivial=nt)
    return ctx.finish(
        rule="period supports [a, b] with a over 5 decades and b/a over 6; per configuration 8 evaluation points of logp (both edges, inside, "
        "outside on both sides), 6 chosen uniform variates incl. 0 and 1-2^-30, 6 (P, e) points for the K prior (clip active and inactive, "
        "e up to 0.9375), sigma_K0 / P0 / max_K / sigma_v / poly_trend varied, half of the configurations with user-supplied non-constant priors on s (Lognormal) / omega / M0 (TruncatedNormal), 6-row prior.sample with generate_linear off and on (5 row pairs "
        "each), 4000 draws for support and KS distance; non-trivial = a configuration whose observations were all compared",
        assumptions=["numpy / pymc draw from the built-in uniform, Beta and Normal distributions they are asked for; the Beta normaliser and the "
                     "constant terms of uniform angles are not checked (row differences only)",
                     "the KS distances over 4000 seeded draws (periods against the log-uniform CDF; K / sigma_K(P_row, e_row) against the standard normal) are supportive evidence, not certificates",
                     "rounding: pytensor keeps float32-representable Python-float parameters as float32 constants, so densities, draws and sigma are compared to 2e-6 relative, ln_prior differences to 1e-5 (1+|d|)"],
        trusted_extra=["Coq-Interval through Base/RealEnc.v (ln, exp, sqrt at 60 bits)", "translator tools/consts2v.py (Kipping Beta parameters; fail-closed)"],
    )


def replay(ctx, path):
    payload = json.load(open(path))
    cfg = payload.get("case")
    if cfg is None:
        return run(ctx)
    ctx.make_overlay(need_kernel=True)
    cfg["Pe"] = [tuple(x) for x in cfg["Pe"]]
    cfg.setdefault("f", 1.0); cfg.setdefault("K_unit", "km/s"); cfg.setdefault("P0_unit", "d"); cfg.setdefault("extra", {})
    if ctx.build_models(MODELS):
        run_cases(ctx, [cfg])
    else:
        for e in predicate(cfg, observe(cfg)):
            ctx.fail("predicate", SIG, e, case=cfg)
    for f in ctx.failures:
        print("REPLAY-FAILS:", f.text)
    if not ctx.failures:
        print("REPLAY-PASSES")
    return 1 if ctx.failures else 0
