"""C03 -- linear parameters are drawn from the exact conditional posterior.

Ties: translator (posterior path of the generated kernel model, Gen/KernelPyx.v) + theorems (Props/C03.v: same
per-sample state as the marginal path, completing the square, row layout); correspondence: the (mean, cov) arguments
that the implementation hands to Generator.multivariate_normal (recorded by a Generator subclass passed as `rng`) are
compared by Coq with the model's a and the exact inverse of the model's Ainv, which in turn are compared EXACTLY with the
specification (A^-1 = Lambda^-1 + M^T C_s^-1 M with the same jitter / slots / capped K variance as the marginal
likelihood); the returned table must be, bit for bit, the model's layout of the recorded draws.
Predicate: numpy closed form of (a, A), and the layout read directly off the property statement.
"""
import json
import warnings

import numpy as np

from common import CoqRunError, coq_Q, coq_list, load_corpus, rng_for
import kernelcase as K
from sampling import RecGen
from c01 import HEADER, MODELS, kernel_setup

SIG = "C03:posterior"


def gen_cases(ctx, n=None):
    rng = rng_for(ctx, 3)
    n = n or (40 if ctx.tier == "quick" else 400)
    n_max = 7 if ctx.tier == "quick" else 12
    out = []
    for _ in range(n):
        spec = K.gen_spec(rng, n_max=n_max, tier=ctx.tier)
        spec["nls"] = int(rng.integers(1, 5))
        spec["strength"] = ["normal", "weak", "strong"][int(rng.integers(0, 3))]
        f = {"normal": 1.0, "weak": 64.0, "strong": 1 / 16.0}[spec["strength"]]
        for s in spec["surveys"]:
            s["err"] = [e * f for e in s["err"]]
        if spec["kprior"] == "default" and rng.random() < 0.4:  # tiny period: the cap on the K variance is active
            import astropy.units as u

            P0d = float((spec["P0"][0] * u.Unit(spec["P0"][1])).to_value(u.day))
            spec["theta"]["P"] = P0d / 2 ** (3 * int(rng.integers(2, 5)))
        if spec["kprior"] == "default" and rng.random() < 0.35:
            # FixedCompanionMass(mu=..): the K prior keeps its period- and eccentricity-dependent width but is centred away from zero
            spec["K_mu"] = float(np.round(rng.normal(0, 2) * 64) / 64) * (1.0 if spec["sigma_K0"][1] == "km/s" else 1000.0) * spec["sigma_K0"][0] / 30.0
        # two more nonlinear rows for the layout part
        spec["extra_theta"] = [dict(P=float(np.round(rng.uniform(1, 300) * 64) / 64), e=float(np.round(rng.uniform(0, 0.8) * 256) / 256),
                                    omega=float(np.round(rng.uniform(0, 6) * 256) / 256), M0=float(np.round(rng.uniform(0, 6) * 256) / 256),
                                    s=spec["theta"]["s"]) for _ in range(int(rng.integers(0, 3)))]
        out.append(spec)
    return out


def run_post(spec):
    """Run the posterior path; returns the C01 observation dict plus recorded (mean, cov, draws) and the output table."""
    import astropy.units as u
    from thejoker.samples import JokerSamples
    from thejoker.thejoker import TheJoker

    out = K.run_impl(spec)
    prior, data, smp = out["prior"], out["data"], out["smp"]
    du = u.Unit(spec["data_unit"])
    rec = RecGen(11)
    joker = TheJoker(prior, rng=rec)
    with warnings.catch_warnings():
        warnings.simplefilter("ignore")
        res = joker.rejection_sample(data, smp, n_linear_samples=spec["nls"], in_memory=True)
    mvn = rec.calls("mvn")
    out["mvn"] = mvn
    out["table"] = res
    # the same accepted sample through the cache-file path: a serial pool that hands each posterior task a recording generator,
    # so that the (mean, cov) the file-backed worker passes to multivariate_normal are observed too
    import schwimmbad

    class RecPool(schwimmbad.SerialPool):
        def __init__(self):
            super().__init__()
            self.gens = []

        def map(self, func, tasks, callback=None):
            out_ = []
            for t in tasks:
                if getattr(func, "__name__", "") == "make_full_samples_worker":
                    g = RecGen(13)
                    self.gens.append(g)
                    t = tuple(t[:-1]) + (g,)
                r = func(t)
                if callback is not None:
                    callback(r)
                out_.append(r)
            return out_

    pool = RecPool()
    with warnings.catch_warnings():
        warnings.simplefilter("ignore")
        res_f = TheJoker(prior, rng=RecGen(11), pool=pool).rejection_sample(data, smp, n_linear_samples=spec["nls"])
    out["mvn_file"] = [c for g in pool.gens for c in g.calls("mvn")]
    out["table_file"] = res_f
    # several samples at once through the helper (layout)
    helper = out["helper"]
    thetas = [spec["theta"]] + spec["extra_theta"]
    chunk = np.array([[t["P"], t["e"], t["omega"], t["M0"], t["s"]] for t in thetas], dtype=float)
    rec2 = RecGen(12)
    raw, ll = helper.batch_get_posterior_samples(np.ascontiguousarray(chunk), spec["nls"], rec2)
    out["raw"], out["raw_ll"], out["chunk"], out["mvn2"] = np.array(raw), np.array(ll), chunk, rec2.calls("mvn")
    # the accepted sample as the LAST row of a batch, after the other rows (whose K-prior variance may be capped where its own is not,
    # or the reverse): what the generator is handed for it must not depend on what the helper processed before
    if spec["extra_theta"]:
        rec3 = RecGen(14)
        chunk_rev = np.ascontiguousarray(np.array([[t["P"], t["e"], t["omega"], t["M0"], t["s"]] for t in spec["extra_theta"] + [spec["theta"]]], dtype=float))
        helper.batch_get_posterior_samples(chunk_rev, spec["nls"], rec3)
        out["mvn_last"] = rec3.calls("mvn")
    # the same samples through the public unpack (units and names)
    unp = JokerSamples.unpack(np.array(raw), helper.internal_units, t_ref=helper.data.t_ref, poly_trend=prior.poly_trend, n_offsets=prior.n_offsets)
    out["unpacked"] = unp
    return out


def lin_names(spec):
    return ["K", "v0"] + [o["name"] for o in spec["offs"]] + [f"v{i}" for i in range(1, spec["n_poly"])]


def predicate(spec, out):
    errs = []
    nl = 1 + spec["n_poly"] + spec["n_off"]
    ll_cf, a_cf, Ainv_cf = K.closed_form(spec, out["all_data"], out["trend_M"], out["kcol"])
    A_cf = np.linalg.inv(Ainv_cf)
    sd = np.sqrt(np.diag(A_cf))
    mvn = out["mvn"]
    if len(mvn) != 1:
        return [f"expected one multivariate_normal call for one accepted sample, saw {len(mvn)}"]
    meta, draws = mvn[0]
    if meta["size"] != spec["nls"]:
        errs.append(f"drew size={meta['size']} linear samples, {spec['nls']} requested")
    if np.asarray(meta["mean"]).shape != (nl,) or not np.all(np.abs(np.asarray(meta["mean"]) - a_cf) <= 1e-4 * sd + 1e-9 * np.abs(a_cf)):
        errs.append(f"mean handed to the generator {np.asarray(meta['mean'])} is not a = A (Lambda^-1 mu + M^T C_s^-1 y) = {a_cf} "
                    f"[K prior {spec['kprior']}, P={spec['theta']['P']}, s={spec['theta']['s']}, offsets {spec['n_off']}]")
    elif np.asarray(meta["cov"]).shape != (nl, nl) or not np.all(np.abs(np.asarray(meta["cov"]) - A_cf) <= 1e-4 * np.outer(sd, sd)):
        errs.append(f"covariance handed to the generator is not A = (Lambda^-1 + M^T C_s^-1 M)^-1 (diag {np.diag(meta['cov'])} vs {np.diag(A_cf)}) "
                    f"[K prior {spec['kprior']}, P={spec['theta']['P']}, s={spec['theta']['s']}]")
    ml = out.get("mvn_last")
    if ml is not None:
        if len(ml) != 1 + len(spec["extra_theta"]):
            errs.append(f"batch of {1 + len(spec['extra_theta'])} rows: {len(ml)} multivariate_normal calls")
        else:
            m_l = ml[-1][0]
            if (np.asarray(m_l["mean"]).shape != (nl,) or not np.all(np.abs(np.asarray(m_l["mean"]) - a_cf) <= 1e-4 * sd + 1e-9 * np.abs(a_cf))
                    or np.asarray(m_l["cov"]).shape != (nl, nl) or not np.all(np.abs(np.asarray(m_l["cov"]) - A_cf) <= 1e-4 * np.outer(sd, sd))):
                errs.append(f"as the last row of a batch (after rows with P = {[t['P'] for t in spec['extra_theta']]}) the sample's (mean, cov) handed to the generator "
                            f"{np.asarray(m_l['mean'])} / diag {np.diag(np.asarray(m_l['cov']))} are not the conditional posterior a = {a_cf}, diag A = {np.diag(A_cf)} "
                            f"[K prior {spec['kprior']}, P={spec['theta']['P']}, e={spec['theta']['e']}]")
    # the cache-file path hands the generator the same conditional posterior (and returns the sample's own nonlinear parameters)
    mf = out.get("mvn_file")
    if mf is not None:
        if len(mf) != 1:
            errs.append(f"cache-file path: expected one multivariate_normal call for one accepted sample, saw {len(mf)}")
        else:
            m_f = mf[0][0]
            if (np.asarray(m_f["mean"]).shape != (nl,) or not np.all(np.abs(np.asarray(m_f["mean"]) - a_cf) <= 1e-4 * sd + 1e-9 * np.abs(a_cf))
                    or np.asarray(m_f["cov"]).shape != (nl, nl) or not np.all(np.abs(np.asarray(m_f["cov"]) - A_cf) <= 1e-4 * np.outer(sd, sd))):
                errs.append(f"cache-file path: (mean, cov) handed to the generator {np.asarray(m_f['mean'])} / diag {np.diag(np.asarray(m_f['cov']))} "
                            f"are not the conditional posterior a = {a_cf}, diag A = {np.diag(A_cf)} [s={spec['theta']['s']} {spec['data_unit']}, "
                            f"sample columns in {spec.get('smp_units', {})}]")
            tf = out["table_file"]
            import astropy.units as u_

            s_f = np.asarray(tf["s"].to_value(u_.Unit(spec["data_unit"])), float)
            if len(tf) != spec["nls"] or not np.allclose(s_f, spec["theta"]["s"], rtol=1e-12, atol=0):
                errs.append(f"cache-file path: returned rows carry s = {s_f} {spec['data_unit']}, the accepted sample has {spec['theta']['s']}")
    # the returned table: nls rows, nonlinear parameters unchanged, linear columns = the draws in design-matrix order and data units
    import astropy.units as u

    du = u.Unit(spec["data_unit"])
    tab = out["table"]
    if len(tab) != spec["nls"]:
        errs.append(f"{len(tab)} rows returned for one accepted sample with n_linear_samples={spec['nls']}")
    else:
        th = spec["theta"]
        for nm, un, val in (("P", u.day, th["P"]), ("e", u.one, th["e"]), ("omega", u.rad, th["omega"]), ("M0", u.rad, th["M0"]), ("s", du, th["s"])):
            col = np.asarray(tab[nm].to_value(un), float)
            if not np.all(col == val):
                errs.append(f"nonlinear parameter {nm} of the returned rows is {col}, the accepted sample has {val}")
        draws = np.asarray(draws).reshape(spec["nls"], nl)
        for k, nm in enumerate(lin_names(spec)):
            un = du / u.day ** K.lin_power(nm)
            col = np.asarray(tab[nm].to_value(un), float)
            if not np.array_equal(col, draws[:, k]):
                errs.append(f"column {nm} of the returned rows is not column {k} of the draws (design-matrix order K, v0, offsets, v1..)")
            if not tab[nm].unit.is_equivalent(un):
                errs.append(f"column {nm} has unit {tab[nm].unit}")
    # raw layout for several samples
    raw, chunk, mvn2 = out["raw"], out["chunk"], out["mvn2"]
    exp = []
    for n in range(len(chunk)):
        d = np.asarray(mvn2[n][1]).reshape(spec["nls"], nl) if n < len(mvn2) else np.zeros((spec["nls"], nl))
        for j in range(spec["nls"]):
            exp.append(np.concatenate([chunk[n], d[j]]))
    if len(mvn2) != len(chunk) or raw.shape != (len(chunk) * spec["nls"], 5 + nl) or not np.array_equal(raw, np.array(exp)):
        errs.append("raw posterior rows are not [nonlinear parameters, draw j] for each sample n, n_linear_samples consecutive rows per sample")
    return errs


def pobs_term(out):
    meta, _ = out["mvn"][0]
    return f"(mk_pobs {K.qlist(np.asarray(meta['mean']).ravel())} {K.qmat(np.asarray(meta['cov']))})"


def layout_term(spec, out):
    nl = 1 + spec["n_poly"] + spec["n_off"]
    thetas = coq_list([K.qlist(r) for r in out["chunk"]])
    draws = coq_list([coq_list([K.qlist(r) for r in np.asarray(v).reshape(spec["nls"], nl)]) for _, v in out["mvn2"]])
    return f"({thetas}, {draws}, {K.qmat(out['raw'])})"


def run_cases(ctx, specs):
    terms, lterms, kept, nt = [], [], [], 0
    stats = dict(cap_active=0, weak=0, strong=0, nls_gt1=0)
    for spec in specs:
        try:
            out = run_post(spec)
        except Exception as e:
            ctx.fail("predicate", SIG, f"implementation raised {type(e).__name__}: {str(e)[:200]}", case=spec)
            continue
        errs = predicate(spec, out)
        for e in errs[:1]:
            ctx.fail("predicate", SIG, e, case=spec)
        if len(out["mvn"]) != 1 or not np.isfinite(out["mvn"][0][0]["mean"]).all() or not np.isfinite(out["mvn"][0][0]["cov"]).all():
            continue
        terms.append(f"({K.kcase_term(spec, out)}, {pobs_term(out)})")
        lterms.append(layout_term(spec, out))
        kept.append(spec)
        stats["weak"] += spec["strength"] == "weak"
        stats["strong"] += spec["strength"] == "strong"
        stats["nls_gt1"] += spec["nls"] > 1
        nt += 1
    codes = ctx.coq_check_codes("c03_p", HEADER, terms, "fun c => check_post (fst c) (snd c)", shard=4, timeout=1500)
    for i, code in enumerate(codes):
        tag = f"[K prior {kept[i]['kprior']}, P={kept[i]['theta']['P']}, s={kept[i]['theta']['s']}, offsets {kept[i]['n_off']}, poly {kept[i]['n_poly']}, {kept[i]['strength']} data]"
        if code & 1:
            ctx.fail("correspondence", SIG, "the mean handed to multivariate_normal is not the posterior-path `a` of the generated kernel model " + tag, case=kept[i])
        if code & 2:
            ctx.fail("correspondence", SIG, "the covariance handed to multivariate_normal is not the inverse of the generated model's Ainv " + tag, case=kept[i])
        if code & 4:
            ctx.fail("correspondence", SIG, "generated kernel model, posterior path: (a, Ainv) are not the specification's "
                     "A^-1 = Lambda^-1 + M^T C_s^-1 M, A^-1 a = Lambda^-1 mu + M^T C_s^-1 y (jitter, prior slots, K-variance cap as for the marginal) " + tag, case=kept[i])
    lhead = HEADER + "Definition chk (c : list (list Q) * list (list (list Q)) * list (list Q)) : bool := check_layout (fst (fst c)) (snd (fst c)) (snd c).\n"
    bad = ctx.coq_check_cases("c03_l", lhead, lterms, "chk", shard=20)
    for i in bad:
        ctx.fail("correspondence", SIG, "raw posterior rows differ from the model's layout of the recorded draws", case=kept[i])
    # how many cases had the cap active: asked of Coq (spec_cap_active) so that the count is the model's
    try:
        caps = ctx.coq_check_cases("c03_cap", HEADER, [t.split(", (mk_pobs")[0][1:] for t in terms], "fun c => negb (spec_cap_active c)", shard=40)
        ctx.case_lemmas -= (len(terms) + 39) // 40  # informational files, not certificates
        stats["cap_active"] = len(caps)
    except CoqRunError:
        pass
    if kept:
        ctx.samples.append({"input": {k: kept[0][k] for k in ("n_poly", "n_off", "data_unit", "kprior", "P0", "theta", "nls", "strength")}, "coq_case": terms[0][:400]})
    ctx.coverage["distribution"] = stats
    return len(specs), nt


def independence_cases():
    """`independent draws`: a library of identical rows, all accepted, evaluated through the cache file in more batches than the pool
    has workers, n_linear_samples draws each.  The standardised draws of different rows share (a, A), so two rows -- of one batch or
    of different batches -- that repeat each other's values cannot be independent draws from N(a, A)."""
    import astropy.units as u
    import sampling as S
    from c02 import real_data, real_prior
    from thejoker.samples import JokerSamples
    from thejoker.thejoker import TheJoker

    out = []
    for n_batches in (4, 3):
        case = dict(family="independence", n_batches=n_batches)
        lib = JokerSamples()
        n = 12
        lib["P"] = np.full(n, 3.4375) * u.day
        lib["e"] = np.full(n, 0.125) * u.one
        lib["omega"] = np.full(n, 1.5) * u.rad
        lib["M0"] = np.full(n, 0.75) * u.rad
        lib["s"] = np.zeros(n) * u.km / u.s
        with warnings.catch_warnings():
            warnings.simplefilter("ignore")
            try:
                joker = TheJoker(real_prior(), rng=np.random.default_rng(5))
                res = joker.rejection_sample(real_data(), lib, in_memory=False, n_batches=n_batches, n_linear_samples=3)
            except Exception as e:
                out.append((case, f"raised {type(e).__name__}: {str(e)[:200]}"))
                continue
        Kv = np.asarray(res["K"].to_value(u.km / u.s), float)
        if len(Kv) != 3 * n:
            out.append((case, f"{len(Kv)} rows returned for {n} identical (all accepted) library rows with 3 linear draws each"))
            continue
        nd = len(set(Kv.tolist()))
        if nd != len(Kv):
            out.append((case, f"{n} identical library rows in {n_batches} batches (serial pool), 3 linear draws each: only {nd} distinct K values among "
                        f"{len(Kv)} draws -- draws repeat across rows, they are not independent draws from N(a, A)"))
    return out


def run(ctx):
    ok = kernel_setup(ctx)
    if ok:
        ctx.build_props()
        ctx.build_props("Props/C03r.vo")  # the conditional density of the linear parameters over the reals
    else:
        ctx.obligations += 1
    specs = load_corpus("C03") + gen_cases(ctx)
    n_eval = nt = 0
    try:
        if ok:
            n_eval, nt = run_cases(ctx, specs)
    except CoqRunError as e:
        ctx.broken_ties.append("correspondence could not be evaluated: " + str(e)[:500])
        ok = False
    if not ok:
        for spec in specs:
            n_eval += 1
            try:
                errs = predicate(spec, run_post(spec))
            except Exception as e:
                errs = [f"raised {type(e).__name__}: {e}"]
            if errs:
                ctx.fail("predicate", SIG, errs[0], case=spec)
                break
    for case, msg in independence_cases():
        ctx.fail("predicate", "C03:independence", msg, case=case)
    n_eval += 2
    ctx.coverage.update(evaluations=n_eval, distinct_nontrivial=nt)
    return ctx.finish(
        rule="random problems as for C01 (1..7 epochs, 12 thorough; poly_trend 1..3; 0..2 offsets; default or custom K prior; non-zero means; jitter "
        "in {0, small, comparable, large}; units varied) with n_linear_samples 1..4, weak (errors x64), normal and strong (errors /16) data, tiny "
        "periods so that the K-variance cap is active (count in coverage.distribution.cap_active, decided by Coq), plus 0..2 further nonlinear "
        "rows for the layout; two libraries of 12 identical rows through the cache file in 4 and 3 batches on the serial pool (no linear draw repeats another); non-trivial = a case whose (mean, cov) were recorded and compared",
        assumptions=["numpy's Generator.multivariate_normal draws from the N(mean, cov) it is handed (the distribution of the draws is not verified)",
                     "IEEE rounding / LAPACK outside the model: mean and covariance compared to 1e-4 posterior standard deviations",
                     "the recording Generator subclass is what the implementation receives as `rng` on the in-memory path; on the file path the "
                     "children spawned per batch are plain Generators (covered by C05/C10 instead)"],
        trusted_extra=["translator tools/pyx2v.py + tools/imp2v.py (fail-closed)", "exact Gauss-Jordan inverse (Base/QMat.v) of the model's Ainv"],
    )


def replay(ctx, path):
    payload = json.load(open(path))
    spec = payload.get("case")
    if spec is None or spec.get("family") == "independence":
        return run(ctx)
    ok = kernel_setup(ctx)
    if ok:
        run_cases(ctx, [spec])
    else:
        for e in predicate(spec, run_post(spec)):
            ctx.fail("predicate", SIG, e, case=spec)
    for f in ctx.failures:
        print("REPLAY-FAILS:", f.text)
    if not ctx.failures:
        print("REPLAY-PASSES")
    return 1 if ctx.failures else 0
