"""C12 -- sample files round-trip exactly; batch reads return the rows asked for.

Model: coq/Model/Store.v (table-level store), theorems Props/C12.v.  Tie: exact correspondence by
random operation sequences on real HDF5 (and FITS) files; Coq replays each sequence with run_ops.
Predicate: direct comparison with the tables written + file hash around refused operations.
"""
import hashlib
import json
import os

import numpy as np

from common import CoqRunError, coq_Q, coq_bool, coq_list, coq_xq, load_corpus, rng_for

MODELS = ["Base/Corr.vo", "Base/XQ.vo", "Model/RVData.vo", "Model/Store.vo"]

HEADER = """From Coq Require Import QArith List Bool.
From TJ Require Import Base.XQ Base.Corr Model.Store.
Import ListNotations.
Definition check (ops : list op) : bool := run_ops None ops.
"""

NAMES = ["P", "e", "omega", "M0", "s", "K", "v0", "v1", "dv0_1", "ln_prior", "ln_likelihood"]
UNITS = {"P": ["d", "yr"], "e": [""], "omega": ["rad", "deg"], "M0": ["rad", "deg"], "s": ["km / s", "m / s"], "K": ["km / s", "m / s"],
         "v0": ["km / s", "m / s"], "v1": ["km / (d s)", "m / (d s)"], "dv0_1": ["km / s", "m / s"], "ln_prior": [""], "ln_likelihood": [""]}
_UNIT_IDS = {}


def unit_id(u):
    s = u if isinstance(u, str) else u.to_string()
    s = s.strip()
    if s in ("", "dimensionless"):
        s = ""
    return _UNIT_IDS.setdefault(s, len(_UNIT_IDS))


def sha(fn):
    return hashlib.sha256(open(fn, "rb").read()).hexdigest() if os.path.exists(fn) else None


def mk_spec(rng, cols=None, units=None, meta=None, nrows=None, f32=None):
    """A table specification: ordered columns with units, metadata, rows (dyadic values)."""
    if meta is None:
        meta = dict(t_ref=[None, float(rng.integers(50000, 59000)) + 0.25][int(rng.integers(0, 2))], poly_trend=int(rng.integers(1, 3)),
                    n_offsets=int(rng.integers(0, 2)))

    if cols is None:
        pool = ["P", "e", "omega", "M0", "s", "K", "v0", "ln_prior", "ln_likelihood"]
        if meta["poly_trend"] > 1:
            pool.append("v1")
        if meta["n_offsets"] > 0:
            pool.append("dv0_1")
        k = int(rng.integers(1, len(pool) + 1))
        cols = [str(c) for c in rng.permutation(pool)[:k]]
    if units is None:
        units = {c: UNITS[c][int(rng.integers(0, len(UNITS[c])))] for c in cols}
    nrows = nrows if nrows is not None else int(rng.integers(1, 41))
    rows = np.round(rng.normal(0, 50, (nrows, len(cols))) * 256) / 256
    spec = dict(cols=cols, units=units, meta=meta)
    if f32 is None:
        f32 = cols[int(rng.integers(0, len(cols)))] if len(cols) > 1 and rng.random() < 0.3 else ""
    if f32:
        # one single-precision column (its values k/256 are exact in float32) next to double-precision columns whose values are NOT
        # representable in single precision: every read must return them bit for bit
        spec["f32"] = f32
        for j, c in enumerate(cols):
            if c != f32:
                rows[:, j] += 2.0**-36 * (1 + np.arange(nrows))
    spec["rows"] = rows.tolist()
    return spec


def build_samples(spec):
    import astropy.units as u
    from astropy.time import Time
    from thejoker.samples import JokerSamples

    m = spec["meta"]
    tref = None if m["t_ref"] is None else Time(m["t_ref"], format="mjd", scale="tcb")
    if tref is not None:
        # the reference epoch is an instant: it may be handed over on any time scale (m["t_ref"] is its TCB MJD); the scale is a
        # function of the epoch so that tables with equal epochs carry identical Time objects
        sc = ["tcb", "tcb", "utc", "tdb", "tt"][int(m["t_ref"]) % 5]
        if sc != "tcb":
            tref = getattr(tref, sc)
    s = JokerSamples(t_ref=tref, poly_trend=m["poly_trend"], n_offsets=m["n_offsets"])
    arr = np.array(spec["rows"], float).reshape(len(spec["rows"]), len(spec["cols"]))
    for j, c in enumerate(spec["cols"]):
        col = arr[:, j].astype(np.float32) if spec.get("f32") == c else arr[:, j]
        s[c] = col * u.Unit(spec["units"][c])
    return s


def tbl_term(cols, units, meta, rows):
    hdr = coq_list([f"({NAMES.index(c)}, {unit_id(units[c])})%nat" for c in cols])
    tr = "None" if meta["t_ref"] is None else f"(Some {coq_xq(meta['t_ref'])})"
    mt = f"(mk_meta {tr} {int(meta['poly_trend'])}%nat {int(meta['n_offsets'])}%nat)"
    rws = coq_list([coq_list([coq_xq(x) for x in r]) for r in rows])
    return f"(mk_tbl {hdr} {mt} {rws})"


def observe_table(s):
    """(cols, units, meta, rows) of a JokerSamples as read back."""
    cols = list(s.par_names)
    units = {c: (s.tbl[c].unit.to_string() if getattr(s.tbl[c], "unit", None) is not None else "") for c in cols}
    tref = s.t_ref
    tv = None if tref is None else float(tref.tcb.mjd)
    if tv is not None and abs(tv - round(tv * 64) / 64) < 1e-8:
        tv = round(tv * 64) / 64  # astropy's scale conversions round-trip to ~1e-11 d; epochs in this harness are multiples of 1/64 d (1e-8 d = 1 ms)
    meta = dict(t_ref=tv, poly_trend=int(s.poly_trend), n_offsets=int(s.n_offsets))
    n = len(s)
    rows = [[float(np.asarray(getattr(s.tbl[c], "value", s.tbl[c]))[i]) for c in cols] for i in range(n)]
    return cols, units, meta, rows


def gen_cases(ctx):
    rng = rng_for(ctx, 12)
    n_seq = 70 if ctx.tier == "quick" else 900
    # the same file name read, rewritten with its convertible columns in their other units, and read again (nothing may be remembered per file name)
    scripted = [dict(seed=int(rng.integers(0, 2**31)), fits=False, script=sc) for sc in
                (["write", "slice", "write_ow_units", "slice", "idx"], ["write", "idx", "read", "write_ow_units", "idx", "slice", "random"],
                 ["write", "random", "write_ow_units", "random", "write_ow_units", "slice"],
                 ["write", "write_ow_app", "read", "append", "read"], ["write", "append", "write_ow_app", "idx", "read", "write_ow_app", "read"],
                 # every flag combination on a file that does not exist yet creates it
                 ["append", "read", "append", "slice", "read"], ["write_ow_app", "read", "append", "read"], ["write_ow", "read", "write", "read"])]
    # a table with one single-precision column: slice, index and random reads that request it first, then append and read again
    scripted += [dict(seed=int(rng.integers(0, 2**31)), fits=False, f32=True, script=sc) for sc in
                 (["write", "slice", "idx", "random", "read"], ["write", "append", "slice", "slice", "idx"])]
    return load_corpus("C12") + scripted + [dict(seed=int(rng.integers(0, 2**31)), fits=bool(k % 7 == 6)) for k in range(n_seq)]


def incompatible_variant(rng, base):
    """A table that must be refused on append to `base`; returns (spec, kind)."""
    kinds = ["fewer_cols", "extra_col", "order", "unit", "t_ref", "n_offsets"]
    kind = kinds[int(rng.integers(0, len(kinds)))]
    cols, units, meta = list(base["cols"]), dict(base["units"]), dict(base["meta"])
    if kind == "fewer_cols" and len(cols) > 1:
        cols = cols[: int(rng.integers(1, len(cols)))]
    elif kind == "extra_col":
        extra = [c for c in ["P", "e", "omega", "M0", "s", "K", "v0", "ln_prior", "ln_likelihood"] if c not in cols]
        if not extra:
            return None, None
        c = extra[int(rng.integers(0, len(extra)))]
        cols = cols + [c]
        units[c] = UNITS[c][0]
    elif kind == "order" and len(cols) > 1:
        i = int(rng.integers(0, len(cols) - 1))
        cols[i], cols[i + 1] = cols[i + 1], cols[i]
    elif kind == "unit":
        cand = [c for c in cols if len(UNITS[c]) > 1]
        if not cand:
            return None, None
        c = cand[int(rng.integers(0, len(cand)))]
        units[c] = [x for x in UNITS[c] if x != units[c]][0]
    elif kind == "t_ref":
        meta["t_ref"] = 51234.5 if meta["t_ref"] != 51234.5 else 51235.5
    elif kind == "n_offsets":
        meta["n_offsets"] = meta["n_offsets"] + 1
    else:
        return None, None
    spec = mk_spec(rng, cols=cols, units={c: units[c] for c in cols}, meta=meta, nrows=int(rng.integers(1, 6)))
    return spec, kind


def run_sequence(ctx, case):
    """Execute one random op sequence on a real file; returns (coq term, problems, n_ops, summary)."""
    import astropy.units as u
    from thejoker.samples import JokerSamples
    from thejoker.utils import read_batch

    rng = np.random.default_rng(case["seed"])
    ext = ".fits" if case["fits"] else ".hdf5"
    fn = os.path.join(ctx.scratch, f"c12_{case['seed']}{ext}")
    if os.path.exists(fn):
        os.unlink(fn)
    problems, ops, summary = [], [], []
    model = None  # python mirror of what should be in the file: (cols, units, meta, rows)
    model_f32 = ""  # which column of the file is single precision ("" = none)
    base = mk_spec(rng)
    if case.get("f32"):
        while len(base["cols"]) < 3:
            base = mk_spec(rng)
        base = mk_spec(rng, cols=base["cols"], units=base["units"], meta=base["meta"], nrows=max(5, len(base["rows"])), f32=base["cols"][int(rng.integers(0, len(base["cols"])))])
    n_ops = 3 if case["fits"] else len(case["script"]) if case.get("script") else int(rng.integers(3, 9))
    for k in range(n_ops):
        if case["fits"]:
            kind = ["write_ow", "read", "write_ow"][k]
        elif case.get("script"):
            kind = case["script"][k]
            if k == 0 and os.path.exists(fn):
                os.unlink(fn)
        else:
            kind = "write" if model is None and k == 0 else ["write", "write_ow", "append", "append_bad", "read", "slice", "idx", "random"][
                int(rng.choice(8, p=[.06, .1, .2, .2, .12, .12, .12, .08]))]
        if kind == "write_ow_units" and model is not None:
            flipped = {c: ([x for x in UNITS[c] if unit_id(x) != unit_id(model[1][c])] or [model[1][c]])[0] for c in model[0]}
            scripted_spec = mk_spec(rng, cols=model[0], units=flipped, meta=model[2], nrows=max(4, len(model[3])))
            kind = "write_ow"
        else:
            scripted_spec = None
        if kind in ("write", "write_ow", "append", "append_bad", "write_ow_app"):
            if scripted_spec is not None:
                spec, why = scripted_spec, None
            elif kind == "append_bad" and model is not None:
                spec, why = incompatible_variant(rng, dict(cols=model[0], units=model[1], meta=model[2]))
                if spec is None:
                    continue
            elif kind == "append" and model is not None:
                spec, why = mk_spec(rng, cols=model[0], units=model[1], meta=model[2], nrows=int(rng.integers(1, 12)), f32=model_f32), None  # same column dtypes as the file
            else:
                spec, why = (mk_spec(rng) if kind in ("write_ow", "write_ow_app") else base if model is None else mk_spec(rng)), None
            # write_ow_app: overwrite=True together with append=True replaces the table
            ow, app = kind in ("write_ow", "write_ow_app"), kind in ("append", "append_bad", "write_ow_app")
            before = sha(fn)
            s = build_samples(spec)
            if len(s) > 0 and k % 2 == 1:
                # queries on the object before it is written (one row picked by integer, the median-period row): what is written is still the whole table
                try:
                    _ = s[0]
                    _ = s[len(s) - 1]
                    if "P" in s.par_names:
                        _ = s.median_period()
                except Exception as e:
                    problems.append(f"op {k} {kind}: picking single rows of the table about to be written raised {type(e).__name__}: {str(e)[:120]}")
                    break
            try:
                s.write(fn, overwrite=ow, append=app)
                res = "WOk"
            except OSError as e:
                res = "WExists" if "exists" in str(e).lower() else "ERR:" + str(e)[:100]
            except Exception as e:
                name = type(e).__name__
                res = "WIncompatible" if ("Cannot append" in str(e) or "MergeConflict" in name) else f"ERR:{name}:{str(e)[:100]}"
            summary.append(f"{kind}{'(' + why + ')' if why else ''}->{res}")
            if res.startswith("ERR"):
                problems.append(f"op {k} {kind}: unexpected exception {res}")
                break
            # python mirror
            if model is None or ow:
                exp = "WOk"
                new_model = (spec["cols"], spec["units"], spec["meta"], [list(r) for r in spec["rows"]])
            elif app:
                same = model[0] == spec["cols"] and all(unit_id(model[1][c]) == unit_id(spec["units"][c]) for c in model[0]) and model[2] == spec["meta"]
                exp = "WOk" if same else "WIncompatible"
                new_model = (model[0], model[1], model[2], model[3] + [list(r) for r in spec["rows"]]) if same else model
            else:
                exp, new_model = "WExists", model
            if res != exp:
                problems.append(f"op {k} {kind}{'(' + why + ')' if why else ''}: result {res}, expected {exp}")
            if res != "WOk" and sha(fn) != before:
                problems.append(f"op {k}: refused {kind}({why}) altered the file")
            if res == "WOk":
                if exp == "WOk" and not (app and not ow and model is not None):
                    model_f32 = spec.get("f32", "")  # a fresh table (first write, overwrite, overwrite+append)
                model = new_model if exp == "WOk" else (spec["cols"], spec["units"], spec["meta"], None)
            if not case["fits"] and os.path.exists(fn):
                # the file layout Gen/WriteGen.v speaks about: exactly the table dataset and its serialized-header dataset, always together
                import h5py

                with h5py.File(fn, "r") as hf:
                    keys = sorted(hf.keys())
                if keys != ["samples", "samples.__table_column_meta__"]:
                    problems.append(f"op {k} {kind}: the file holds the datasets {keys}, expected the table and its serialized header (well-formedness of Gen/WriteGen.v)")
            ops.append(f"OWrite {coq_bool(ow)} {coq_bool(app)} {tbl_term(spec['cols'], spec['units'], spec['meta'], spec['rows'])} {res}")
            if model is not None and model[3] is None:
                problems.append("file state unknown after a wrongly accepted write; sequence stopped")
                break
        elif model is None:
            continue
        elif kind == "read":
            try:
                got = observe_table(JokerSamples.read(fn))
            except Exception as e:
                problems.append(f"op {k} read raised {type(e).__name__}: {str(e)[:120]}")
                break
            gc, gu, gm, gr = got
            if gc != model[0]:
                problems.append(f"read: columns {gc} != written {model[0]}")
            elif any(unit_id(gu[c]) != unit_id(model[1][c]) for c in gc):
                problems.append(f"read: units {gu} != written {model[1]}")
            elif gm != model[2]:
                problems.append(f"read: metadata {gm} != written {model[2]}")
            elif gr != model[3]:
                problems.append(f"read: row values differ from everything written ({len(gr)} rows vs {len(model[3])})")
            ops.append(f"ORead (Some {tbl_term(gc, gu, gm, gr)})")
            summary.append("read")
        else:
            n = len(model[3])
            ncol = int(rng.integers(1, len(model[0]) + 1))
            cols = [str(c) for c in rng.permutation(model[0])[:ncol]]
            if case.get("f32") and model_f32:
                # the single-precision column is the FIRST one requested, followed by double-precision columns
                cols = [model_f32] + [c for c in cols if c != model_f32]
                if len(cols) == 1:
                    cols.append(next(c for c in model[0] if c != model_f32))
            units = {}
            for c in cols:
                if rng.random() < 0.5 or case.get("script"):
                    units[c] = u.Unit(UNITS[c][0] if case.get("script") else UNITS[c][int(rng.integers(0, len(UNITS[c])))])
            factors = [float(u.Unit(model[1][c]).to(units[c])) if c in units else 1.0 for c in cols]
            cidx = [model[0].index(c) for c in cols]
            recorded = {}
            if kind == "slice":
                a, b = sorted(rng.integers(0, n + 3, 2).tolist())
                step = int(rng.choice([1, 1, 2, 3]))
                arg = (a, b) if step == 1 and rng.random() < 0.5 else slice(a, b, step)
                sel = list(range(n))[a:b:step]
                opk = f"OSlice {coq_list([f'{NAMES.index(c)}%nat' for c in cols])} {a}%nat {b}%nat {step}%nat"
            elif kind == "idx":
                m = int(rng.integers(0, 2 * n + 1)) if rng.random() < 0.9 else 0
                sel = rng.integers(0, n, m).tolist()  # out of order, with repeats
                if n >= 4 and rng.random() < 0.35:
                    # index arrays that LOOK like a run of consecutive rows from their end points (last - first = length - 1) but are
                    # out of order or hold repeats, and true consecutive runs
                    a0 = int(rng.integers(0, n - 3))
                    sel = [[a0, a0 + 2, a0 + 1, a0 + 3], [a0, a0, a0 + 3, a0 + 3], [a0, a0 + 1, a0 + 2, a0 + 3], [a0 + 3, a0 + 1, a0 + 2, a0]][int(rng.integers(0, 4))]
                arg = np.array(sel, dtype=int)
                opk = f"OIdx {coq_list([f'{NAMES.index(c)}%nat' for c in cols])} {coq_list([f'{i}%nat' for i in sel])}"
            else:
                import sampling

                m = int(rng.integers(1, n + 1))
                rec = sampling.RecGen(int(rng.integers(0, 2**31)))
                arg = m
                recorded["rng"] = rec
                sel = None
            try:
                kw = dict(units=units if units else None)
                if kind == "random":
                    kw["rng"] = recorded["rng"]
                got = np.asarray(read_batch(fn, cols, arg, **kw), float)
            except Exception as e:
                problems.append(f"op {k} read_batch({kind}) raised {type(e).__name__}: {str(e)[:120]}")
                break
            if kind == "random":
                ch = recorded["rng"].calls("choice")
                sel = ch[0][1].tolist() if ch else []
                if len(sel) != m or len(set(sel)) != m or any(not (0 <= i < n) for i in sel):
                    problems.append(f"read_batch(int): random subset {sel} is not {m} distinct rows of the table")
                opk = f"OIdx {coq_list([f'{NAMES.index(c)}%nat' for c in cols])} {coq_list([f'{i}%nat' for i in sel])}"
            want = np.array([[model[3][i][j] * f for j, f in zip(cidx, factors)] for i in sel], float).reshape(len(sel), len(cols))
            if got.shape != want.shape or not np.allclose(got, want, rtol=1e-13, atol=0):
                problems.append(f"read_batch({kind}, cols={cols}, sel={sel[:8]}..): wrong rows/values (shape {got.shape} vs {want.shape})")
            ops.append(f"{opk} {coq_list([coq_Q(f) for f in factors])} {coq_list([coq_list([coq_xq(x) for x in r]) for r in got.tolist()])}")
            summary.append(kind)
    if os.path.exists(fn):
        os.unlink(fn)
    return "[" + ";\n ".join(ops) + "]", problems, len(ops), summary


def run_cases(ctx, cases):
    terms, kept, nt = [], [], 0
    for c in cases:
        term, problems, n_ops, summary = run_sequence(ctx, c)
        if problems:
            ctx.fail("predicate", "C12:store", "; ".join(problems[:2]) + f" [ops: {summary}]", case=c)
        terms.append(term)
        kept.append((c, summary))
        nt += n_ops >= 3
    bad = ctx.coq_check_cases("c12", HEADER, terms, "check", shard=12)
    for i in bad:
        ctx.fail("correspondence", "C12:store", f"model (Model/Store.v run_ops) and implementation disagree on op sequence {kept[i][1]}", case=kept[i][0])
    if kept:
        ctx.samples.append({"input": kept[0][0], "ops": kept[0][1], "coq_case": terms[0][:400]})
    return len(cases), nt


def run(ctx):
    ctx.make_overlay(need_kernel=True)
    ctx.regen_all(needed=("py2v_readbatch.py", "py2v_write.py"))  # Gen/ReadBatchGen.v: the four batch readers as the source has them now
    ok = ctx.build_models(MODELS)
    if ok:
        ctx.build_props()
        ctx.build_props("Props/C12w.vo")  # the generated HDF5 writer (file / group / dataset level) refines the table-level write, for every flag combination
        ctx.build_props("Props/C12g.vo")  # the generated column-wise readers return the rows of the row model
    cases = gen_cases(ctx)
    n_eval = nt = 0
    try:
        if ok:
            n_eval, nt = run_cases(ctx, cases)
    except CoqRunError as e:
        ctx.broken_ties.append("correspondence could not be evaluated: " + str(e)[:500])
        ok = False
    if not ok:
        for c in cases[:60]:
            n_eval += 1
            _, problems, _, summary = run_sequence(ctx, c)
            if problems:
                ctx.fail("predicate", "C12:store", "; ".join(problems[:2]), case=c)
                break
    ctx.coverage.update(evaluations=n_eval, distinct_nontrivial=nt)
    return ctx.finish(
        rule="random operation sequences (3..8 ops) on real HDF5 files: write, overwrite, compatible append, incompatible appends (fewer columns, extra "
        "column, swapped order, other unit, other t_ref, other n_offsets), read, read_batch by slice/tuple (with steps, beyond the end), by index "
        "array (out of order, repeats, empty) and random (recording Generator); tables of 1..40 rows with random column subsets/orders/units and "
        "metadata; every 7th sequence is a FITS write/read/overwrite. Non-trivial = at least 3 executed ops",
        assumptions=["HDF5 / FITS byte encodings, astropy unit factors and Time serialisation are trusted (the store is modelled at table level)",
                     "float column values are compared exactly; converted columns to 1e-14 relative"],
    )


def replay(ctx, path):
    payload = json.load(open(path))
    ctx.make_overlay(need_kernel=True)
    case = payload.get("case")
    if case is None:
        return run(ctx)
    ctx.regen_all()
    if ctx.build_models(MODELS):
        run_cases(ctx, [case])
    else:
        _, problems, _, _ = run_sequence(ctx, case)
        for p in problems:
            ctx.fail("predicate", "C12:store", p, case=case)
    for f in ctx.failures:
        print("REPLAY-FAILS:", f.text)
    if not ctx.failures:
        print("REPLAY-PASSES")
    return 1 if ctx.failures else 0
