"""C07 -- physical results are invariant under the choice of units.

Ties: theorems Props/C07.v (unit conversion algebra, scaling of B / B^-1 / chi^2 / det B / posterior under a change of the
velocity unit for all dimensions, the Jacobian constant over the reals, shift-invariance of the rejection rule, P0 brought
to days in the generated kernel model); correspondence on TWIN problems -- the same physical problem written in other
units (RV data km/s <-> m/s; every prior parameter, sigma_K0, max_K in the other velocity / time units; P0 and the period
prior in yr / d / h; prior-sample columns in yr / deg / the other velocity unit):
  * every twin is compared with the generated kernel model and the exact closed form as in C01 (check_code), so each
    value is tied to the physics in its own units;
  * Coq certifies the Jacobian relation between the implementation's values  ll_twin - ll_base + n ln c = 0;
  * with equal seeds and one library (handed over in each twin's units) the accepted rows are the same library rows and
    the (mean, cov) handed to the generator for the linear parameters scale as c and c^2 (trend terms by their own factor).
"""
import copy
import json
import math
import warnings

import numpy as np

from common import CoqRunError, coq_Q, coq_list, frac, load_corpus, rng_for
import kernelcase as K
from sampling import RecGen
from c01 import HEADER, kernel_setup
from c03 import lin_names

SIG = "C07:units"
VEL = {"km/s": 1.0, "m/s": 1e-3}  # in km/s


def gen_cases(ctx, n=None):
    rng = rng_for(ctx, 7)
    n = n or (5 if ctx.tier == "quick" else 100)
    n_max = 5 if ctx.tier == "quick" else 8
    out = []
    for k_ in range(n):
        spec = K.gen_spec(rng, n_max=n_max, tier=ctx.tier, full_frac=0.0)
        spec["lib_seed"] = int(rng.integers(0, 2**31))
        if k_ % 5 == 1:
            # very precise data: every ln-likelihood of the library lies far below the exp() range of a double (about -1e5..-1e6), in
            # either unit -- the acceptance rule only ever sees differences to the maximum
            # (precise data alone are absorbed by the linear parameters; the priors on those are made narrow as well)
            for sv in spec["surveys"]:
                sv["err"] = [e / 16 for e in sv["err"]]
            spec["theta"]["s"] = 0.0625 * (1.0 if spec["data_unit"] == "km/s" else 1000.0)  # a small jitter (a large one would absorb the misfit)
            spec["kprior"] = "custom"
            for p_ in spec["lin"] + spec["offs"]:
                f_ = 1000.0 if p_["unit"].startswith("m/s") else 1.0
                p_["mu"], p_["std"] = 0.0, f_ / 64
        if spec["theta"]["s"] == 0.0:  # a non-zero jitter, so that the unit of the `s` column matters on every path
            spec["theta"]["s"] = 0.625 * (1.0 if spec["data_unit"] == "km/s" else 1000.0)
        out.append(spec)
    return out


def swap_vel(unit):
    return unit.replace("km/s", "@").replace("m/s", "km/s").replace("@", "m/s")


def variants(spec):
    """Twin specifications: same physics, other units.  Returns [(kind, spec', c)] with c = data-unit ratio (new values = c * old)."""
    import astropy.units as u

    tw = []
    # (1) RV data in the other velocity unit
    v = copy.deepcopy(spec)
    c = 1000.0 if spec["data_unit"] == "km/s" else 1e-3
    v["data_unit"] = swap_vel(spec["data_unit"])
    for s in v["surveys"]:
        s["rv"] = [x * c for x in s["rv"]]
        s["err"] = [x * c for x in s["err"]]
    v["theta"] = dict(spec["theta"], s=spec["theta"]["s"] * c)
    tw.append(("data-unit", v, c))
    # (2) every prior scale in another unit
    v = copy.deepcopy(spec)
    for p in v["lin"] + v["offs"]:
        old = u.Unit(p["unit"])
        new = u.Unit(swap_vel(p["unit"]).replace("/ d", "/ yr") if "/ d" in p["unit"] else swap_vel(p["unit"]).replace("/ yr", "/ d"))
        f = float(old.to(new))
        p["mu"], p["std"], p["unit"] = p["mu"] * f, p["std"] * f, new.to_string()
    sk = spec["sigma_K0"]
    v["sigma_K0"] = (sk[0] * float(u.Unit(sk[1]).to(u.Unit(swap_vel(sk[1])))), swap_vel(sk[1]))
    if spec["max_K"] is not None:
        v["max_K"], v["max_K_unit"] = spec["max_K"] * 1000.0, "m/s"
    tw.append(("prior-units", v, 1.0))
    # (3) P0 and the period prior in other time units
    v = copy.deepcopy(spec)
    nxt = {"yr": "d", "d": "h", "h": "yr"}[spec["P0"][1]]
    v["P0"] = (float((spec["P0"][0] * u.Unit(spec["P0"][1])).to_value(u.Unit(nxt))), nxt)
    v["P_unit"] = "yr" if spec["P_unit"] == "d" else "d"
    tw.append(("time-units", v, 1.0))
    # (4) prior-sample columns in other units
    v = copy.deepcopy(spec)
    v["smp_units"] = {"P": "yr", "omega": "deg", "M0": "deg", "s": swap_vel(spec["data_unit"])}
    tw.append(("sample-columns", v, 1.0))
    # (5) later surveys handed over in the other velocity unit than the first one (multi-survey data only)
    if spec["n_off"] >= 1:
        v = copy.deepcopy(spec)
        for sv in v["surveys"][1:]:
            sv["unit"] = swap_vel(spec["data_unit"])
        tw.append(("survey-units", v, 1.0))
    return tw


def make_library(spec, n=24):
    """One library of nonlinear samples in (day, rad, data unit of `spec`), handed over in spec's smp_units."""
    import astropy.units as u
    from thejoker.samples import JokerSamples

    r = np.random.default_rng(spec["lib_seed"])
    du = u.Unit(spec["data_unit"])
    su = spec.get("smp_units", {})
    lib = JokerSamples(poly_trend=spec["n_poly"], n_offsets=spec["n_off"])
    P = 2.0 + np.arange(n) * 3.0 + np.round(r.uniform(0, 2, n) * 64) / 64
    lib["P"] = (P * u.day).to(u.Unit(su.get("P", "d")))
    lib["e"] = np.round(r.uniform(0, 0.7, n) * 256) / 256 * u.one
    lib["omega"] = (np.round(r.uniform(0, 6, n) * 256) / 256 * u.rad).to(u.Unit(su.get("omega", "rad")))
    lib["M0"] = (np.round(r.uniform(0, 6, n) * 256) / 256 * u.rad).to(u.Unit(su.get("M0", "rad")))
    s_kms = spec["theta"]["s"] * VEL[spec["data_unit"]]
    lib["s"] = (np.full(n, s_kms) * u.km / u.s).to(u.Unit(su.get("s", spec["data_unit"])))
    return lib, P


# Re-expressing a period in years or an angle in degrees perturbs it by one unit in the last place; twobody's Kepler solver stops at
# its own tolerance (1e-10 in the eccentric anomaly), so the K column -- and with precise data the ln-likelihood -- can move by a few
# 1e-7 between twins (seen in the thorough tier: 6e-7 at |ll| = 30).  A unit mistake moves it by n ln(1000) or by whole nats.
TWIN_TOL = 2e-6


def sample_twin(spec):
    """rejection_sample on the library with a fixed seed; returns accepted library rows, all lls, recorded mvn arguments."""
    import astropy.units as u
    from thejoker.thejoker import TheJoker

    data, prior, _ = K.build_problem(spec)
    lib, P = make_library(spec)
    rec = RecGen(707)
    joker = TheJoker(prior, rng=rec)
    with warnings.catch_warnings():
        warnings.simplefilter("ignore")
        lls = np.asarray(joker.marginal_ln_likelihood(data, lib, in_memory=True), float)
        res = joker.rejection_sample(data, lib, n_linear_samples=1, in_memory=True)
    acc = [int(np.argmin(np.abs(P - p))) for p in np.asarray(res["P"].to_value(u.day), float)]
    uu = rec.calls("uniform")[0][1]
    margin = np.min(np.abs((lls - lls.max()) - np.log(uu)))
    # returned rows as physical quantities in fixed units
    du = u.km / u.s
    def physical(r):
        ph = {nm: np.asarray(r[nm].to_value(du / u.day ** K.lin_power(nm)), float) for nm in lin_names(spec)}
        ph.update(P=np.asarray(r["P"].to_value(u.day), float), e=np.asarray(r["e"].value, float), omega=np.asarray(r["omega"].to_value(u.rad), float),
                  M0=np.asarray(r["M0"].to_value(u.rad), float), s=np.asarray(r["s"].to_value(du), float))
        return ph
    phys = physical(res)
    # the same through the on-disk path (cache file, 2 batches): marginal values, accepted rows and the returned nonlinear columns
    with warnings.catch_warnings():
        warnings.simplefilter("ignore")
        jd = TheJoker(prior, rng=RecGen(707))
        lls_disk = np.asarray(jd.marginal_ln_likelihood(data, lib, n_batches=2), float)
        res_disk = jd.rejection_sample(data, lib, n_linear_samples=1, n_batches=2)
    phys_disk = physical(res_disk)
    # the iterative sampler on the same library, in memory and through the cache file, equal seeds
    it = {}
    with warnings.catch_warnings():
        warnings.simplefilter("ignore")
        for label, kw in (("iterative, in memory", dict(in_memory=True)), ("iterative, cache file", dict())):
            ji = TheJoker(prior, rng=RecGen(708))
            ri = ji.iterative_rejection_sample(data, lib, n_requested_samples=3, init_batch_size=8, growth_factor=2, n_linear_samples=1, **kw)
            it[label] = physical(ri)
    return dict(iterative=it, acc=acc, lls=lls, mvn=rec.calls("mvn"), margin=float(margin), phys=phys, lls_disk=lls_disk, phys_disk=phys_disk, n=len(data) if not isinstance(data, list) else sum(len(d) for d in data))


def compare_twins(spec, base, tw, kind, c):
    errs = []
    n = base["n"]
    shift = (tw["lls"] - base["lls"]) + n * math.log(c)
    if not np.all(np.abs(shift) < TWIN_TOL * (1 + np.abs(base["lls"]))):
        i = int(np.argmax(np.abs(shift)))
        errs.append(f"{kind}: marginal ln-likelihood of library row {i} is {tw['lls'][i]!r} against {base['lls'][i]!r}: differs from the Jacobian constant "
                    f"-n ln c = {-n * math.log(c)!r} by {shift[i]:.3g} (n={n}, c={c})")
        return errs
    if min(base["margin"], tw["margin"]) < 1e-7:
        return errs  # an acceptance decision too close to call: the accepted sets may legitimately differ by round-off
    if base["acc"] != tw["acc"]:
        errs.append(f"{kind}: accepted library rows differ for equal seeds: {base['acc']} vs {tw['acc']}")
        return errs
    # posterior: the (mean, cov) handed to the generator, as physical quantities
    for k, ((m0, _), (m1, _)) in enumerate(zip(base["mvn"], tw["mvn"])):
        f = np.array([c] * len(m0["mean"]))  # every linear parameter carries one power of the velocity unit
        sd = np.sqrt(np.diag(m0["cov"]))
        if not np.all(np.abs(m1["mean"] - f * m0["mean"]) <= 1e-5 * f * sd + 1e-9 * np.abs(f * m0["mean"])):
            errs.append(f"{kind}: conditional posterior mean of accepted sample {k} is not physically the same: {m1['mean']} vs {f * m0['mean']} (c={c})")
            break
        if not np.all(np.abs(m1["cov"] - np.outer(f, f) * m0["cov"]) <= 1e-5 * np.outer(f * sd, f * sd)):
            errs.append(f"{kind}: conditional posterior covariance of accepted sample {k} is not physically the same (c={c})")
            break
    # returned rows: nonlinear parameters physically equal, in memory and through the cache file
    for nm in ("P", "e", "omega", "M0", "s"):
        if not np.allclose(base["phys"][nm], tw["phys"][nm], rtol=1e-12, atol=1e-12):
            errs.append(f"{kind}: returned {nm} differs physically: {base['phys'][nm][:3]} vs {tw['phys'][nm][:3]}")
        if len(tw["phys_disk"][nm]) == len(base["phys"][nm]) and not np.allclose(base["phys"][nm], tw["phys_disk"][nm], rtol=1e-12, atol=1e-12):
            errs.append(f"{kind}, on-disk path: returned {nm} differs physically from the in-memory base run: {base['phys'][nm][:3]} vs {tw['phys_disk'][nm][:3]}")
    if len(tw["phys_disk"]["P"]) != len(base["phys"]["P"]):
        errs.append(f"{kind}, on-disk path: {len(tw['phys_disk']['P'])} rows accepted, in-memory base run accepts {len(base['phys']['P'])}")
    for label, ph in tw.get("iterative", {}).items():
        b = base["iterative"][label]
        if len(ph["P"]) != len(b["P"]):
            errs.append(f"{kind}, {label}: {len(ph['P'])} rows returned against {len(b['P'])} for the base problem with equal seeds")
            continue
        for nm in ("P", "e", "omega", "M0", "s"):
            if not np.allclose(b[nm], ph[nm], rtol=1e-12, atol=1e-12):
                errs.append(f"{kind}, {label}: returned {nm} differs physically from the base problem's: {b[nm][:3]} vs {ph[nm][:3]}")
                break
    sh = (tw["lls_disk"] - base["lls"]) + n * math.log(c)
    if not np.all(np.abs(sh) < TWIN_TOL * (1 + np.abs(base["lls"]))):
        i = int(np.argmax(np.abs(sh)))
        errs.append(f"{kind}, on-disk path: marginal ln-likelihood of library row {i} is {tw['lls_disk'][i]!r} against {base['lls'][i]!r} in memory (Jacobian constant {-n * math.log(c)!r})")
    return errs


JAC_HEADER = HEADER + """Definition jac_ok (t : nat * Q * Q * Q) : bool :=
  let '(n, c, ll0, ll1) := t in
  rclose 70 ((1 # 500000) * (if Qle_bool 1 (Corr.Qabs' ll0) then Corr.Qabs' ll0 else 1))
         (RAdd (RSub (RQ ll1) (RQ ll0)) (RMul (RC (Z.of_nat n) 1) (RLn (RQ c)))) (0 # 1).
"""


def run_cases(ctx, specs):
    kterms, kinfo, jterms, jinfo, nt = [], [], [], [], 0
    stats = dict(twins=0, undecided_margins=0)
    for spec in specs:
        try:
            out0 = K.run_impl(spec)
            base = sample_twin(spec)
        except Exception as e:
            ctx.fail("predicate", SIG, f"implementation raised {type(e).__name__}: {str(e)[:200]}", case=spec)
            continue
        kterms.append(f"({K.kcase_term(spec, out0)}, {K.kobs_term(out0)})")
        kinfo.append((spec, "base"))
        for e in compare_twins(spec, base, base, "base (in memory vs cache file)", 1.0)[:1]:
            ctx.fail("predicate", SIG, e, case=dict(spec, twin="base"))
        n = len(out0["rv"])
        for kind, v, c in variants(spec):
            try:
                out1 = K.run_impl(v)
                tw = sample_twin(v)
            except Exception as e:
                ctx.fail("predicate", SIG, f"{kind}: implementation raised {type(e).__name__}: {str(e)[:200]}", case=dict(spec, twin=kind))
                continue
            stats["twins"] += 1
            stats["undecided_margins"] += min(base["margin"], tw["margin"]) < 1e-7
            if not (math.isfinite(out0["ll"]) and math.isfinite(out1["ll"])):
                ctx.fail("predicate", SIG, f"{kind}: non-finite marginal ln-likelihood {out0['ll']} / {out1['ll']}", case=dict(spec, twin=kind))
                continue
            d = out1["ll"] - out0["ll"] + n * math.log(c)
            if abs(d) > TWIN_TOL * (1 + abs(out0["ll"])):
                ctx.fail("predicate", SIG, f"{kind}: marginal ln-likelihood {out1['ll']!r} vs {out0['ll']!r}: not the Jacobian constant -n ln c (off by {d:.3g}; n={n}, c={c}) "
                         f"[P prior in {v['P_unit']}, P0 {v['P0']}, K prior {v['kprior']}]", case=dict(spec, twin=kind))
            for e in compare_twins(spec, base, tw, kind, c)[:1]:
                ctx.fail("predicate", SIG, e, case=dict(spec, twin=kind))
            if kind in ("data-unit", "time-units", "survey-units") and np.isfinite(out1["a"]).all() and np.isfinite(out1["Ainv"]).all():
                kterms.append(f"({K.kcase_term(v, out1)}, {K.kobs_term(out1)})")
                kinfo.append((spec, kind))
            cq = frac(1000) if c == 1000.0 else (frac(1) / 1000 if c == 1e-3 else frac(1))
            jterms.append(f"({n}%nat, ({cq.numerator} # {cq.denominator}), {coq_Q(out0['ll'])}, {coq_Q(out1['ll'])})")
            jinfo.append((spec, kind))
        nt += 1
    codes = ctx.coq_check_codes("c07_k", HEADER, kterms, "fun c => check_code (fst c) (snd c)", shard=4, timeout=1500)
    for i, code in enumerate(codes):
        spec, kind = kinfo[i]
        if code & 1:
            ctx.fail("correspondence", SIG, f"{kind} twin: generated kernel model and the rebuilt binary disagree (ll / a / Ainv)", case=dict(spec, twin=kind))
        if code & 2:
            ctx.fail("correspondence", SIG, f"{kind} twin: generated kernel model does not compute the closed form in these units", case=dict(spec, twin=kind))
    bad = ctx.coq_check_cases("c07_j", JAC_HEADER, jterms, "jac_ok", shard=40)
    for i in bad:
        spec, kind = jinfo[i]
        ctx.fail("correspondence", SIG, f"{kind} twin: Coq cannot certify ll_twin - ll_base + n ln c = 0 on the implementation's values", case=dict(spec, twin=kind))
    if kinfo:
        ctx.samples.append({"input": {k: specs[0][k] for k in ("n_poly", "n_off", "data_unit", "kprior", "P_unit", "P0", "theta")},
                            "twins": [k for k, _, _ in variants(specs[0])], "jacobian_case": jterms[0] if jterms else None})
    ctx.coverage["distribution"] = stats
    return len(specs), nt


def run(ctx):
    ok = kernel_setup(ctx)
    if ok:
        ctx.build_props()
        ctx.build_props("Props/C07r.vo")  # the Jacobian constant over the reals (Base/Rstruct.v: MathComp field structure on R)
    else:
        ctx.obligations += 1
    specs = load_corpus("C07") + gen_cases(ctx)
    n_eval = nt = 0
    try:
        if ok:
            n_eval, nt = run_cases(ctx, specs)
    except CoqRunError as e:
        ctx.broken_ties.append("correspondence could not be evaluated: " + str(e)[:500])
        ok = False
    if not ok:
        for spec in specs[:6]:
            n_eval += 1
            try:
                out0 = K.run_impl(spec)
                for kind, v, c in variants(spec):
                    out1 = K.run_impl(v)
                    d = out1["ll"] - out0["ll"] + len(out0["rv"]) * math.log(c)
                    if not abs(d) <= TWIN_TOL * (1 + abs(out0["ll"])):
                        ctx.fail("predicate", SIG, f"{kind}: marginal ln-likelihood {out1['ll']!r} vs {out0['ll']!r}: not the Jacobian constant (off by {d:.3g})", case=dict(spec, twin=kind))
            except Exception as e:
                ctx.fail("predicate", SIG, f"raised {type(e).__name__}: {e}", case=spec)
    ctx.coverage.update(evaluations=n_eval, distinct_nontrivial=nt)
    return ctx.finish(
        rule="base problems as for C01 (nice regime, 1..5 epochs quick / 8 thorough), each with four twins: RV data in the other velocity unit "
        "(c = 1000 or 1/1000), every prior parameter / sigma_K0 / max_K in the other velocity unit and trend terms per yr <-> per d, P0 in the "
        "next of yr/d/h with the period prior in yr <-> d, prior-sample columns in yr / deg / the other velocity unit; per twin a 24-row library "
        "run through rejection_sample with a fixed seed; non-trivial = a base problem all of whose twins ran",
        assumptions=["astropy's unit conversion factors; a twin's numbers are the base numbers times a float factor (equal physics to 1e-16)",
                     "accepted-set equality is not demanded when an acceptance decision is closer than 1e-7 to its threshold (counted in coverage)",
                     "IEEE rounding and the Kepler solver's own convergence tolerance (a 1e-16 change of P or M0 can change the iteration count): Jacobian relation to 2e-6 (1+|ll|), posterior mean/cov to 1e-5 posterior sigma"],
        trusted_extra=["Coq-Interval through Base/RealEnc.v (ln c)", "translator tools/pyx2v.py (fail-closed)"],
    )


def replay(ctx, path):
    payload = json.load(open(path))
    spec = payload.get("case")
    if spec is None:
        return run(ctx)
    spec = {k: v for k, v in spec.items() if k != "twin"}
    ok = kernel_setup(ctx)
    if ok:
        run_cases(ctx, [spec])
    for f in ctx.failures:
        print("REPLAY-FAILS:", f.text)
    if not ctx.failures:
        print("REPLAY-PASSES")
    return 1 if ctx.failures else 0
