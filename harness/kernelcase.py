"""Shared builder for kernel cases (C01, C03, C04, C05, C07): random data sets, fully specified priors
(means, widths, units), nonlinear parameter rows for which (P/P0)^(-2/3) is an exact rational, the
implementation runs, and the Coq terms (kcase / kobs of Model/KernelRun.v).
"""
import warnings

import numpy as np

from common import coq_Q, coq_bool, coq_list

KEP_TOL, KEP_MAXITER = 1e-10, 128


def gen_spec(rng, n_max=8, allow_offsets=True, tier="quick", full_frac=0.15):
    """A JSON-serialisable problem specification.

    Two regimes.  `nice` (most cases): measurement errors are powers of two in the data unit and every unit factor is
    an exact binary number, so 1/err^2, s^2 and the prior variances are short dyadic rationals and the exact-rational
    evaluation of the model stays small (about a second per case).  `full` (full_frac of the cases, at most 4 epochs):
    arbitrary errors and unit factors (m/s priors for km/s data, trends per year, ...), full 53-bit inputs."""
    nice = bool(rng.random() >= full_frac)
    if not nice:
        n_max = min(n_max, 4)
    n_poly = int(rng.integers(1, 4))
    n_off = int(rng.integers(0, 3)) if allow_offsets else 0
    if not nice:
        n_poly, n_off = min(n_poly, 2), min(n_off, 1)
    data_unit = ["km/s", "m/s"][int(rng.random() < 0.3)]
    scale = 1.0 if data_unit == "km/s" else 1000.0
    surveys = []
    base = float(rng.integers(50000, 59000))
    tstart = 0.0
    for k in range(n_off + 1):
        n = int(rng.integers(1, max(2, n_max // (n_off + 1)) + 1))
        t = tstart + np.sort(np.round(rng.uniform(0, 60, n) * 64) / 64) + np.arange(n) / 64
        tstart = float(t.max()) + 3.0  # surveys in time order and disjoint (the known finding D5 is about interleaving)
        rv = np.round(rng.normal(0, 12, n) * 256) / 256 * scale
        if nice:
            err = 2.0 ** rng.integers(-2, 3, n) * (1.0 if data_unit == "km/s" else 1024.0)
        else:
            err = (np.round(rng.uniform(0.2, 3, n) * 128) / 128 + 1 / 128) * scale
        surveys.append(dict(t=(base + t).tolist(), rv=rv.tolist(), err=err.tolist()))
    kprior = ["default", "custom"][int(rng.random() < 0.35)]
    vel_units = ["km/s", "m/s"] if (not nice or data_unit == "m/s") else ["km/s"]
    P_unit = ["d", "yr"][int(rng.random() < 0.35)]
    P0 = [(1.0, "yr"), (128.0, "d"), (3072.0, "h"), (0.25, "yr")][int(rng.integers(0, 4))]
    q = lambda x, m=64: float(np.round(x * m) / m)
    lin = []
    names = ["K"] + [f"v{i}" for i in range(n_poly)]
    for i, nm in enumerate(names):
        un = vel_units[int(rng.integers(0, len(vel_units)))]
        f = 1.0 if un == "km/s" else 1000.0
        if nm == "K":
            lin.append(dict(name=nm, mu=q(rng.normal(0, 3)) * f if kprior == "custom" else 0.0, std=q(rng.uniform(2, 40)) * f, unit=un))
        else:
            k = int(nm[1:])
            tun = (["d", "yr"][int(rng.integers(0, 2))] if not nice else "d") if k > 0 else None
            tf = 1.0 if tun in (None, "d") else 365.25**k
            lin.append(dict(name=nm, mu=q(rng.normal(0, 5 if k == 0 else 0.02), 1024) * f * tf, std=q(rng.uniform(1, 60) if k == 0 else rng.uniform(0.005, 0.2), 1024) * f * tf,
                            unit=un if k == 0 else f"{un} / {tun}{k if k > 1 else ''}"))
    offs = []
    for i in range(1, n_off + 1):
        un = vel_units[int(rng.integers(0, len(vel_units)))]
        f = 1.0 if un == "km/s" else 1000.0
        offs.append(dict(name=f"dv0_{i}", mu=q(rng.normal(0, 4)) * f, std=q(rng.uniform(0.5, 20)) * f, unit=un))
    sk_unit = vel_units[int(rng.integers(0, len(vel_units)))]
    sigma_K0 = q(rng.uniform(5, 60)) * (1.0 if sk_unit == "km/s" else 1000.0)
    max_K = [None, q(rng.uniform(20, 200))][int(rng.random() < 0.4)]
    # theta: P = P0[days] * (a / 2^k)^3 so that (P/P0)^(-2/3) is an exact rational
    import astropy.units as u

    P0_days = float((P0[0] * u.Unit(P0[1])).to_value(u.day))
    a, k = int(rng.integers(1, 48)), int(rng.integers(0, 5))
    P = P0_days * a**3 / 2 ** (3 * k)
    if not (0.05 < P < 5000):
        a, k = 3, 3
        P = P0_days * a**3 / 2 ** (3 * k)
    if rng.random() < 0.5:  # arbitrary period: (P/P0)^(-2/3) is irrational, the model uses a certified double
        P = float(np.round(np.exp(rng.uniform(np.log(0.3), np.log(3000))) * 4096) / 4096)
    e = q(rng.uniform(0, 0.9), 256)
    s_choice = int(rng.integers(0, 4))
    s = [0.0, q(rng.uniform(0.01, 0.2), 1024), q(rng.uniform(0.5, 3), 64), q(rng.uniform(20, 80), 16)][s_choice] * scale
    theta = dict(P=P, e=e, omega=q(rng.uniform(0, 6.25), 256), M0=q(rng.uniform(0, 6.25), 256), s=s)
    spec = dict(n_poly=n_poly, n_off=n_off, data_unit=data_unit, surveys=surveys, kprior=kprior, P_unit=P_unit, P0=P0, lin=lin, offs=offs,
                sigma_K0=(sigma_K0, sk_unit), max_K=max_K, theta=theta, s_choice=s_choice, nice=nice,
                err_unit=(("m/s" if data_unit == "km/s" else "km/s") if rng.random() < 0.25 else None))
    if n_off == 0 and rng.random() < 0.25:
        # an explicit reference epoch that is not the first observation; half of them handed over on another time scale (the number is
        # the TCB value: the kernel counts time from that instant)
        spec["t_ref"] = float(min(surveys[0]["t"]) + np.round(rng.uniform(-40, 60) * 8) / 8)
        if rng.random() < 0.5:
            spec["t_ref_scale"] = ["utc", "tt", "tai"][int(rng.integers(0, 3))]
    if s_choice and rng.random() < 0.4:
        # the jitter column of the prior sample handed over in the other velocity unit (every entry point must convert it)
        spec["smp_units"] = {"s": "m/s" if data_unit == "km/s" else "km/s"}
    return spec


def build_problem(spec):
    """Construct RVData source(s), the JokerPrior and the one-row JokerSamples of a specification."""
    import astropy.units as u
    import pymc as pm
    import pytensor.tensor as pt
    import thejoker.units as xu
    from thejoker.data import RVData
    from thejoker.distributions import FixedCompanionMass, UniformLog
    from thejoker.prior import JokerPrior
    from thejoker.samples import JokerSamples

    du = u.Unit(spec["data_unit"])
    kw = {}
    if spec.get("t_ref") is False and spec["n_off"] == 0:  # data without a reference epoch
        kw["t_ref"] = False
    elif spec.get("t_ref") is not None and spec["n_off"] == 0:  # explicit reference epoch (single source only: the merge re-derives it)
        from astropy.time import Time

        # the same instant may be given in another time scale (spec["t_ref_scale"]): the number below is the TCB value
        tr = Time(float(spec["t_ref"]), format="mjd", scale="tcb")
        kw["t_ref"] = getattr(tr, spec["t_ref_scale"]) if spec.get("t_ref_scale") else tr
    # the uncertainties may be handed over in another velocity unit than the velocities (spec["err_unit"]), and a later survey in
    # another unit than the first (survey["unit"]): same physics; numbers in the spec are always in spec["data_unit"]
    eu = u.Unit(spec.get("err_unit") or spec["data_unit"])
    srcs = []
    for k, s in enumerate(spec["surveys"]):
        su = u.Unit(s.get("unit") or spec["data_unit"])
        srcs.append(RVData(np.array(s["t"]), (np.array(s["rv"]) * du).to(su), (np.array(s["err"]) * du).to(eu if s.get("unit") is None else su), **kw))
    data = srcs[0] if spec["n_off"] == 0 else srcs
    with warnings.catch_warnings():
        warnings.simplefilter("ignore")
        with pm.Model():
            Pu = u.Unit(spec["P_unit"])
            lo, hi = (1 * u.day).to_value(Pu), (20000 * u.day).to_value(Pu)
            P = xu.with_unit(UniformLog("P", lo, hi), Pu)
            e = xu.with_unit(pm.Beta("e", 0.867, 3.03), u.one)
            om = xu.with_unit(pm.Uniform("omega", 0, 2 * np.pi), u.rad)
            M0 = xu.with_unit(pm.Uniform("M0", 0, 2 * np.pi), u.rad)
            if spec.get("s_prior") == "const":  # a constant jitter carried by the prior (what setup_mcmc uses)
                s = xu.with_unit(pm.Deterministic("s", pt.constant(float(spec["theta"]["s"]))), du)
            elif spec.get("s_prior") == "sampled":
                s = xu.with_unit(pm.Lognormal("s", np.array(np.log(max(float(spec["theta"]["s"]), 1e-3))), np.array(0.5)), du)
            else:
                s = xu.with_unit(pm.Deterministic("s", pt.constant(0.0)), du)
            pars = dict(P=P, e=e, omega=om, M0=M0, s=s)
            for p in spec["lin"]:
                un = u.Unit(p["unit"])
                if p["name"] == "K" and spec["kprior"] == "default":
                    kw = {}
                    if spec["max_K"] is not None:
                        kw["max_K"] = spec["max_K"] * u.Unit(spec.get("max_K_unit", "km/s"))
                    sk = spec["sigma_K0"]
                    if spec.get("K_mu") is not None:  # a non-zero mean of the period- and eccentricity-dependent K prior (in sigma_K0's unit)
                        kw["mu"] = float(spec["K_mu"])
                    pars["K"] = xu.with_unit(FixedCompanionMass("K", P=P, e=e, sigma_K0=sk[0] * u.Unit(sk[1]), P0=spec["P0"][0] * u.Unit(spec["P0"][1]), **kw), u.Unit(sk[1]))
                else:
                    pars[p["name"]] = xu.with_unit(pm.Normal(p["name"], np.array(p["mu"], dtype="f8"), np.array(p["std"], dtype="f8")), un)
            offs = [xu.with_unit(pm.Normal(o["name"], np.array(o["mu"], dtype="f8"), np.array(o["std"], dtype="f8")), u.Unit(o["unit"])) for o in spec["offs"]]
            prior = JokerPrior(pars=pars, poly_trend=spec["n_poly"], v0_offsets=offs)
    th = spec["theta"]
    smp = JokerSamples(poly_trend=spec["n_poly"], n_offsets=spec["n_off"])
    su = spec.get("smp_units", {})  # prior-sample columns may be handed over in any equivalent unit (theta is in day, rad, data unit)
    smp["P"] = (np.array([th["P"]]) * u.day).to(u.Unit(su.get("P", "d")))
    smp["e"] = np.array([th["e"]]) * u.one
    smp["omega"] = (np.array([th["omega"]]) * u.rad).to(u.Unit(su.get("omega", "rad")))
    smp["M0"] = (np.array([th["M0"]]) * u.rad).to(u.Unit(su.get("M0", "rad")))
    smp["s"] = (np.array([th["s"]]) * du).to(u.Unit(su.get("s", spec["data_unit"])))
    return data, prior, smp


def kepler_column(t, t0, th):
    from twobody.wrap import cy_rv_from_elements

    return cy_rv_from_elements(np.ascontiguousarray(t, dtype=float), th["P"], 1.0, th["e"], th["omega"], th["M0"], float(t0), KEP_TOL, KEP_MAXITER)


def closed_form(spec, all_data, trend_M, kcol):
    """numpy reading of the property statement: ln N(y | M mu, C + s^2 I + M Lambda M^T), and (a, A)."""
    import astropy.units as u

    du = u.Unit(spec["data_unit"])
    y = np.asarray(all_data.rv.to_value(du), float)
    var = np.asarray(all_data.rv_err.to_value(du), float) ** 2 + spec["theta"]["s"] ** 2
    M = np.hstack([kcol[:, None], trend_M])
    conv = lambda p: ((p["mu"] * u.Unit(p["unit"])).to_value(du / u.day ** lin_power(p["name"])), (p["std"] * u.Unit(p["unit"])).to_value(du / u.day ** lin_power(p["name"])))
    K = spec["lin"][0]
    if spec["kprior"] == "custom":
        muK, sdK = conv(K)
        varK = sdK**2
    else:
        muK = (float(spec.get("K_mu") or 0.0) * u.Unit(spec["sigma_K0"][1])).to_value(du)
        sk = (spec["sigma_K0"][0] * u.Unit(spec["sigma_K0"][1])).to_value(du)
        P0d = (spec["P0"][0] * u.Unit(spec["P0"][1])).to_value(u.day)
        mk = ((spec["max_K"] * u.Unit(spec.get("max_K_unit", "km/s"))) if spec["max_K"] is not None else 500.0 * u.km / u.s).to_value(du)
        varK = min(sk**2 * (spec["theta"]["P"] / P0d) ** (-2 / 3) / (1 - spec["theta"]["e"] ** 2), mk**2)
    rest = [conv(p) for p in spec["lin"][1:]]
    offs = [conv(o) for o in spec["offs"]]
    order = [(muK, varK)] + [(rest[0][0], rest[0][1] ** 2)] + [(m, s**2) for m, s in offs] + [(m, s**2) for m, s in rest[1:]]
    mu = np.array([m for m, _ in order])
    Lam = np.array([v for _, v in order])
    B = np.diag(var) + (M * Lam) @ M.T
    r = y - M @ mu
    sign, logdet = np.linalg.slogdet(2 * np.pi * B)
    ll = -0.5 * (r @ np.linalg.solve(B, r) + logdet)
    Ainv = np.diag(1 / Lam) + (M.T / var) @ M
    a = np.linalg.solve(Ainv, mu / Lam + (M.T / var) @ y)
    return float(ll), a, Ainv


def lin_power(name):
    return int(name[1:]) if name.startswith("v") and name[1:].isdigit() else 0


def run_impl(spec):
    """Run the implementation; returns dict with ll (API), buffers after test_likelihood_worker, model inputs."""
    import astropy.units as u
    import thejoker.units as xu
    from thejoker.data_helpers import validate_prepare_data
    from thejoker.thejoker import TheJoker
    from thejoker.utils import _pytensor_get_mean_std

    data, prior, smp = build_problem(spec)
    joker = TheJoker(prior, rng=np.random.default_rng(0))
    with warnings.catch_warnings():
        warnings.simplefilter("ignore")
        ll = float(joker.marginal_ln_likelihood(data, smp, in_memory=True)[0])
        # the same row at the end of a batch whose earlier rows have other jitters (positive, then zero) and a very short period
        # (K-variance cap active for the default prior): the value must not depend on what was evaluated before it
        from thejoker.samples import JokerSamples as _JS
        import astropy.units as _u
        th = spec["theta"]
        du_ = _u.Unit(spec["data_unit"])
        sc_ = 1.0 if spec["data_unit"] == "km/s" else 1000.0
        batch = _JS(poly_trend=spec["n_poly"], n_offsets=spec["n_off"])
        batch["P"] = np.array([th["P"] * 1.5 + 0.25, 0.0625, th["P"]]) * _u.day
        batch["e"] = np.array([0.125, 0.96875, th["e"]]) * _u.one
        batch["omega"] = np.array([1.0, 2.5, th["omega"]]) * _u.rad
        batch["M0"] = np.array([0.5, 4.0, th["M0"]]) * _u.rad
        batch["s"] = np.array([2.5 * sc_, 0.0, th["s"]]) * du_
        ll_in_batch = float(joker.marginal_ln_likelihood(data, batch, in_memory=True)[2])
        batch2 = batch[[1, 0, 2]]
        ll_in_batch2 = float(joker.marginal_ln_likelihood(data, batch2, in_memory=True)[2])
        # ... and as the LAST of five rows through the default (cache-file) path cut into two and into three batches
        # (5 is a multiple of neither): the value comes back at its own position
        batch5 = batch[[0, 1, 0, 1, 2]]
        ll_file = tuple(float(np.asarray(joker.marginal_ln_likelihood(data, batch5, n_batches=nb))[4]) for nb in (2, 3))
        helper = joker._make_joker_helper(data)
        all_data, ids, trend_M = validate_prepare_data(data, prior.poly_trend, prior.n_offsets)
        row, _ = smp.pack(units=helper.internal_units, names=helper.packed_order)
        ll_test = float(helper.test_likelihood_worker(np.ascontiguousarray(row[0], dtype=float)))
    out = dict(ll=ll, ll_in_batch=(ll_in_batch, ll_in_batch2) + ll_file, ll_test=ll_test, a=np.array(helper.a), Ainv=np.array(helper.Ainv), A=np.array(helper.A), b=np.array(helper.b), B=np.array(helper.B),
               Binv=np.array(helper.Binv), row=np.asarray(row[0], float), all_data=all_data, trend_M=np.asarray(trend_M, float), prior=prior, helper=helper,
               data=data, smp=smp, joker=joker)
    du = all_data.rv.unit
    out["rv"] = np.asarray(all_data.rv.value, float)
    out["ivar"] = np.asarray(all_data.ivar.to_value(1 / du**2), float)
    # the reference epoch the problem specifies (not the attribute the implementation stored): explicit, none, or the earliest time
    if spec.get("t_ref") is False and spec["n_off"] == 0:
        out["t0"] = 0.0
    elif spec.get("t_ref") is not None and spec["n_off"] == 0:
        out["t0"] = float(spec["t_ref"])
    else:
        out["t0"] = float(min(min(sv["t"]) for sv in spec["surveys"]))
    out["t0_impl"] = float(all_data._t_ref_bmjd)
    out["kcol"] = kepler_column(all_data._t_bmjd, out["t0"], dict(P=out["row"][0], e=out["row"][1], omega=out["row"][2], M0=out["row"][3]))
    # declared priors as the helper reads them (raw parameters of the distributions, unit factors)
    lin = []
    for name in prior._linear_equiv_units.keys():
        dist = prior.model[name]
        in_unit = getattr(dist, xu.UNIT_ATTR_NAME)
        to_unit = helper.internal_units[name]
        with warnings.catch_warnings():
            warnings.simplefilter("ignore")
            mu_raw, std_raw = _pytensor_get_mean_std(dist, u.one, u.one)
        if name == "K" and spec["kprior"] == "default":
            std_raw = 0.0
        lin.append((float(np.asarray(mu_raw).ravel()[0]), float(np.asarray(std_raw).ravel()[0]), float(in_unit.to(to_unit))))
    offs = []
    for o in prior.v0_offsets:
        dist = prior.model[o.name]
        in_unit = getattr(dist, xu.UNIT_ATTR_NAME)
        with warnings.catch_warnings():
            warnings.simplefilter("ignore")
            mu_raw, std_raw = _pytensor_get_mean_std(dist, u.one, u.one)
        offs.append((float(mu_raw), float(std_raw), float(in_unit.to(helper.internal_units[o.name]))))
    out["lin"], out["offs"] = lin, offs
    if spec["kprior"] == "default":
        d = prior.model["K"]
        Punit = getattr(prior.pars["P"], xu.UNIT_ATTR_NAME)
        out["sigma_K0"] = (float(d._sigma_K0.value), float(d._sigma_K0.unit.to(du)))
        out["P0"] = (float(d._P0.value), float(d._P0.unit.to(Punit)), float(d._P0.unit.to(u.day)))
        out["max_K"] = (float(d._max_K.value), float(d._max_K.unit.to(du)))
    else:
        out["sigma_K0"], out["P0"], out["max_K"] = (0.0, 1.0), (1.0, 1.0, 1.0), (0.0, 1.0)
    return out


def qlist(l):
    return coq_list([coq_Q(float(x)) for x in l])


def qmat(m):
    return coq_list([qlist(r) for r in np.asarray(m, float).tolist()])


def kcase_term(spec, out):
    pp = lambda t: f"(mk_pp {coq_Q(t[0])} {coq_Q(t[1])} {coq_Q(t[2])})"
    return (f"(mk_kcase {spec['n_poly']}%nat {spec['n_off']}%nat {coq_Q(out['t0'])} {qlist(out['rv'])} {qlist(out['ivar'])} {qmat(out['trend_M'])} "
            f"{coq_bool(spec['kprior'] == 'custom')} {coq_list([pp(t) for t in out['lin']])} {coq_list([pp(t) for t in out['offs']])} "
            f"({coq_Q(out['sigma_K0'][0])}, {coq_Q(out['sigma_K0'][1])}) ({coq_Q(out['P0'][0])}, {coq_Q(out['P0'][1])}, {coq_Q(out['P0'][2])}) "
            f"({coq_Q(out['max_K'][0])}, {coq_Q(out['max_K'][1])}) {qlist(out['row'])} {qlist(out['kcol'])} {qlist(pow_candidates(out))})")


def pow_candidates(out):
    """double(s) for (P/P0)^(-2/3) with P/P0 the exact rational the model forms; Coq certifies them before use"""
    from fractions import Fraction

    x = Fraction(float(out["row"][0])) / (Fraction(float(out["P0"][0])) * Fraction(float(out["P0"][2])))
    return [float(x) ** (-2 / 3.0)]


def kobs_term(out):
    tol = 1e-7 * max(1.0, abs(out["ll"]))
    return f"(mk_kobs {coq_Q(out['ll'])} {coq_Q(tol)} {qlist(out['a'])} {qmat(out['Ainv'])})"
