"""C02 -- the rejection step (rule, evaluation order, truncation, rows unaltered).

Model: coq/Model/Reject.v, theorems Props/C02.v.  Tie: exact correspondence -- a recording Generator
captures the uniform / choice draws, return_all_logprobs gives the likelihoods, the rows returned
are identified by their (unique) period; Coq evaluates rs_check (acceptance decisions by certified
interval arithmetic) and compares.  Drivers: the public API with (a) a stub helper returning a
prescribed likelihood profile and (b) the real kernel.
"""
import json
import os

import numpy as np

from common import CoqRunError, coq_Q, coq_list, coq_xq, load_corpus, rng_for
import sampling as S

MODELS = ["Base/Corr.vo", "Base/XQ.vo", "Base/RealEnc.vo", "Model/Reject.vo"]

HEADER = """From Coq Require Import QArith List Bool.
From TJ Require Import Base.XQ Base.Corr Model.Reject.
Import ListNotations.
Definition tri (o : option bool) : nat := match o with Some true => 0 | Some false => 1 | None => 2 end.
Definition check (c : rs_case) : bool := match rs_check 60 c with Some false => false | _ => true end.
Definition undecided (c : rs_case) : bool := match rs_check 60 c with None => true | _ => false end.
"""

_PRIOR = None


def real_prior():
    global _PRIOR
    if _PRIOR is None:
        import astropy.units as u
        from thejoker.prior import JokerPrior

        _PRIOR = JokerPrior.default(P_min=1 * u.day, P_max=100 * u.day, sigma_K0=300 * u.km / u.s, sigma_v=100 * u.km / u.s)  # wide: the max_K clip of the K prior is active for the short library periods
    return _PRIOR


def real_data(seed=3):
    import astropy.units as u
    from thejoker.data import RVData

    r = np.random.default_rng(seed)
    t = 55000 + np.sort(r.uniform(0, 60, 7))
    rv = 12 * np.cos(2 * np.pi * t / 3.4375) + r.normal(0, 0.5, 7)
    return RVData(t, rv * u.km / u.s, np.full(7, 0.5) * u.km / u.s)


def gen_cases(ctx, return_logprobs=False, n_cases=None):
    rng = rng_for(ctx, 2 if not return_logprobs else 6)
    n_cases = n_cases or (110 if ctx.tier == "quick" else 1200)
    cases = []
    kinds = ["flat", "spike", "ties", "ninf", "wide", "narrow", "deep", "high"]
    for k in range(n_cases):
        n = int(rng.choice([1, 2, 3, 5, 8, 17, 40, 90, 200, 400], p=[.05, .08, .08, .1, .15, .2, .15, .1, .06, .03]))
        path = ["inmem", "file_obj", "file_name"][int(rng.integers(0, 3))]
        driver = "api" if k % 6 == 5 else "stub"
        if k % 12 == 5:
            path = "inmem"  # the `warm` cases below: the library object has been through an earlier in-memory call
        kind = kinds[int(rng.integers(0, len(kinds)))]
        if kind == "ninf" and n == 1:
            kind = "flat"
        maxpost = [None, 1, 2, int(rng.integers(1, n + 2)), n + 7][int(rng.integers(0, 5))]
        n_prior = None if (path == "inmem" or rng.random() < 0.5) else int(rng.integers(1, n + 1))
        warm = driver == "api" and path == "inmem" and k % 12 == 5
        f32lib = driver == "stub" and k % 8 == 3  # an all-single-precision library (every second one of them in memory)
        if f32lib and k % 16 == 3:
            path, n_prior = "inmem", None
        cases.append(dict(warm=warm, f32lib=f32lib, n=n, kind=kind, seed=int(rng.integers(0, 2**31)), path=path, driver=driver, maxpost=maxpost, n_prior=n_prior,
                          n_linear=int(rng.integers(1, 4)), randomize=bool(rng.random() < 0.5),
                          n_batches=[None, 1, 3, n + 1][int(rng.integers(0, 4))], return_logprobs=return_logprobs))
    return cases


def run_impl(ctx, case):
    """Run one rejection_sample call; returns dict of observations or raises."""
    from thejoker.thejoker import TheJoker

    n = case["n"]
    lib = S.make_library(n, seed=case["seed"] % 1000, with_lnprior=True, alt_units=(case["seed"] % 3 == 0 or bool(case.get("warm"))) and not case.get("f32lib"))
    if case["seed"] % 5 == 0:
        # a library whose period column is single precision (its values 2 + i/256 are exact in float32) next to double-precision columns:
        # the other columns must come back bit for bit
        lib["P"] = lib["P"].astype(np.float32)
    if case.get("f32lib"):
        # an all-single-precision library (what prior.sample(dtype=np.float32) gives; every value here is exact in float32) in the
        # kernel's own units, so that no single-precision unit conversion is involved: rows come back with their own values and the
        # reported log-probabilities are the double-precision values computed for them
        for nm in lib.par_names:
            lib[nm] = lib[nm].astype(np.float32)
    rec = S.RecGen(case["seed"])
    joker = TheJoker(real_prior(), rng=rec)
    stub = None
    if case["driver"] == "stub":
        prof_ = S.profile(case["kind"], n, np.random.default_rng(case["seed"] + 1))
        if lib["P"].dtype == np.float32 and lib["e"].dtype == np.float32:
            # with a single-precision library the likelihoods are shifted by a constant that single precision cannot hold (same
            # decisions, same ties): a value that went through float32 on its way to the caller is no longer the value computed
            prof_ = np.where(np.isfinite(prof_), prof_ + 2.0**-30, prof_)
        stub = S.StubHelper(prof_)
        joker._make_joker_helper = lambda data: stub
        data = None
    else:
        data = real_data()
    if case["path"] == "file_name":
        fn = os.path.join(ctx.scratch, f"lib_{os.getpid()}_{case['seed']}.hdf5")
        lib.write(fn, overwrite=True)
        ps = fn
    else:
        ps = lib
    kw = dict(max_posterior_samples=case["maxpost"], n_linear_samples=case["n_linear"], return_logprobs=case["return_logprobs"],
              return_all_logprobs=True, in_memory=(case["path"] == "inmem"))
    if case["path"] != "inmem":
        kw.update(n_prior_samples=case["n_prior"], n_batches=case["n_batches"], randomize_prior_order=case["randomize"])
    elif case["randomize"]:
        kw.update(randomize_prior_order=True)  # the in-memory path documents no shuffling; whatever it does, rows keep their own values
    if case.get("warm"):
        # the same library object was used before, for the same observations expressed in m/s: nothing of that call may leak into this one
        import astropy.units as u
        from thejoker.data import RVData

        d0 = real_data()
        dm = RVData(d0.t, d0.rv.to(u.m / u.s), d0.rv_err.to(u.m / u.s))
        TheJoker(real_prior(), rng=np.random.default_rng(case["seed"])).rejection_sample(dm, ps, in_memory=True, max_posterior_samples=1)
    try:
        samples, lls = joker.rejection_sample(data, ps, **kw)
    finally:
        if case["path"] == "file_name" and os.path.exists(ps):
            os.unlink(ps)
    rows, cols = S.observe_rows(samples)
    un = rec.calls("uniform")
    ch = rec.calls("choice")
    obs = dict(lls=np.asarray(lls, float), rows=rows, cols=cols, n_uniform_calls=len(un), us=un[0][1] if un else np.zeros(0),
               order=(ch[0][1].tolist() if ch else None), n_choice_calls=len(ch), samples=samples, lib=lib, stub=stub,
               choice_meta=(ch[0][0] if ch else None))
    return obs


def predicate(case, obs):
    """The property statement recomputed with numpy from the recorded draws (independent of the Coq model)."""
    errs = []
    lls, us = obs["lls"], np.asarray(obs["us"], float)
    n_eval = case["n_prior"] if case["n_prior"] is not None else case["n"]
    if len(lls) != n_eval:
        errs.append(f"{len(lls)} likelihoods evaluated, expected {n_eval}")
    if obs["n_uniform_calls"] != 1 or len(us) != len(lls):
        errs.append(f"expected one uniform draw per evaluated sample from the sampler's generator (calls={obs['n_uniform_calls']}, {len(us)} draws, {len(lls)} samples)")
        return errs
    if (case["randomize"] and case["path"] != "inmem") != (obs["order"] is not None) and not (case["path"] == "inmem" and case["randomize"]):
        errs.append("randomize_prior_order and the generator's choice() calls disagree")
        return errs
    with np.errstate(all="ignore"):
        good = np.where(np.exp(lls - lls.max()) > us)[0]
    mp = case["maxpost"] if case["maxpost"] is not None else len(lls)
    good = good[:mp]
    order = np.asarray(obs["order"]) if obs["order"] is not None else np.arange(len(lls))
    cm = obs.get("choice_meta")
    if cm is not None and (cm["a"] != case["n"] or cm["replace"] is not False):
        errs.append(f"the evaluation order is drawn from {cm['a']} rows (replace={cm['replace']}), the library has {case['n']}: "
                    "the evaluated samples are not a random selection of the whole library")
    if obs["order"] is not None and (len(set(obs["order"])) != len(obs["order"]) or len(order) != n_eval or max(obs["order"]) >= case["n"]):
        errs.append("shuffled order is not a selection of distinct library rows")
        return errs
    full = order[good]
    exp_rows = np.repeat(full, case["n_linear"]).tolist()
    if obs["rows"] != exp_rows:
        errs.append(f"returned rows {obs['rows'][:12]}.. but the rule keeps library rows {exp_rows[:12]}.. (n_linear={case['n_linear']})")
    if obs["stub"] is not None:
        prof = obs["stub"].profile
        if not np.array_equal(lls, prof[order], equal_nan=True):
            errs.append("likelihood array is not the likelihood of the evaluated rows in evaluation order")
    # rows unaltered: nonlinear columns bit-identical to the library rows
    import astropy.units as u

    lib, smp = obs["lib"], obs["samples"]
    for name in ("P", "e", "omega", "M0", "s"):
        if len(smp) and name in smp.par_names:
            unit = lib[name].unit  # compare as physical quantities, in the library's own unit
            try:
                got = np.asarray(smp[name].to_value(unit), float)
            except Exception as e:
                errs.append(f"column {name}: returned unit {smp[name].unit} not convertible to the library's {unit}")
                continue
            want = np.asarray(lib[name].to_value(unit), float)[obs["rows"]] if obs["rows"] else np.zeros(0)
            same = np.array_equal(got, want) if smp[name].unit == unit else np.allclose(got, want, rtol=1e-12, atol=0)
            if len(got) != len(want) or not same:
                errs.append(f"column {name} of the returned rows differs from the library rows (modified / invented values): {got[:3]} {unit} vs {want[:3]} {unit}")
    return errs


def case_term(case, obs):
    lls = coq_list([coq_xq(x) for x in obs["lls"]])
    us = coq_list([coq_Q(x) for x in np.asarray(obs["us"], float)])
    order = "None" if obs["order"] is None else "(Some " + coq_list([f"{int(i)}%nat" for i in obs["order"]]) + ")"
    n_prior = len(obs["lls"])
    mp = case["maxpost"] if case["maxpost"] is not None else n_prior
    lnp_lib = coq_list([coq_xq(x) for x in S.lnprior_of_row(np.arange(case["n"]))])
    rows = coq_list([f"{int(i)}%nat" for i in obs["rows"]])

    def col(name):
        if not case["return_logprobs"]:
            return "None"
        fl = S.col_as_floats(obs["cols"].get(name)) if name in obs["cols"] else None
        if fl is None:
            return "(Some [XNaN; XNaN; XNaN; XPInf])"  # not a float column: cannot match any model value
        return "(Some " + coq_list([coq_xq(x) for x in fl]) + ")"

    return (f"(mk_rs_case {lls} {us} {order} {n_prior}%nat {mp}%nat {case['n_linear']}%nat {lnp_lib} {rows} "
            f"{col('ln_likelihood')} {col('ln_prior')})")


def classify(case, msg):
    return "C02:rejection"


def run_cases(ctx, cases, prop="C02", extra_pred=None, classify_fn=None):
    classify_fn = classify_fn or classify
    terms, kept = [], []
    nt = 0
    for c in cases:
        try:
            obs = run_impl(ctx, c)
        except Exception as e:
            msg = f"rejection_sample raised {type(e).__name__}: {str(e)[:200]}"
            ctx.fail("predicate", classify_fn(c, msg), msg + f" [{c}]", case=c)
            continue
        errs = predicate(c, obs)
        if extra_pred:
            errs += extra_pred(c, obs)
        for e in errs[:1]:
            ctx.fail("predicate", classify_fn(c, e), e + f" [{ {k: c[k] for k in ('n','kind','path','driver','maxpost','n_prior','n_linear','randomize','n_batches')} }]", case=c)
        terms.append(case_term(c, obs))
        kept.append(c)
        n_acc = len(set(obs["rows"]))
        nt += 0 < n_acc < len(obs["lls"])
    bad = ctx.coq_check_cases(prop.lower(), HEADER, terms, "check", shard=40, info_fn="undecided")
    for i in bad:
        ctx.fail("correspondence", classify_fn(kept[i], "model"), f"model (Model/Reject.v rs_check) and implementation disagree [{kept[i]}]", case=kept[i])
    ctx.coverage["undecided_cases"] = len(ctx.last_info)
    if kept:
        ctx.samples.append({"input": kept[0], "coq_case": terms[0][:400]})
    return len(cases), nt


def run(ctx):
    ctx.make_overlay(need_kernel=True)
    ctx.regen_all(needed=("py2v_reject.py",))  # Gen/RejectSites.v: the four rejection sites as the source has them now
    ok = ctx.build_models(MODELS)
    if ok:
        ctx.build_props()
        ctx.build_props("Props/C02g.vo")  # the generated rejection sites are the model
        ctx.build_props("Props/C02p.vo")  # survival probability L_i/L_max as the measure of the rule's acceptance set (Coquelicot)
    cases = load_corpus("C02") + gen_cases(ctx)
    n_eval = nt = 0
    try:
        if ok:
            n_eval, nt = run_cases(ctx, cases)
    except CoqRunError as e:
        ctx.broken_ties.append("correspondence could not be evaluated: " + str(e)[:500])
        ok = False
    if not ok:
        for c in cases[:60]:
            n_eval += 1
            try:
                errs = predicate(c, run_impl(ctx, c))
            except Exception as e:
                errs = [f"raised {type(e).__name__}: {e}"]
            if errs:
                ctx.fail("predicate", "C02:rejection", errs[0], case=c)
                break
    ctx.coverage.update(evaluations=n_eval, distinct_nontrivial=nt)
    return ctx.finish(
        rule="rejection_sample through the public API: libraries of 1..400 rows; likelihood profiles flat / single spike / exact ties / -inf next to "
        "finite / wide / narrow injected by a stub helper (5 of 6 cases) or computed by the real kernel (1 of 6); in-memory, JokerSamples->cache "
        "file and file-name paths; n_prior_samples, max_posterior_samples (1, 2, random, >N, None), n_linear 1..3, randomize_prior_order, "
        "n_batches (None,1,3,N+1). Non-trivial = at least one sample accepted and one rejected",
        assumptions=["numpy exp and float subtraction are within 1e-9 relative of the exact value (decisions closer than that are counted as undecided and skipped)",
                     "the recording Generator subclass observes every draw the sampler takes from the generator it was given",
                     "rows are identified by their period column (exact dyadic, injective)"],
        trusted_extra=["Coq-Interval (verified interval arithmetic, BigZ primitive integers) through Base/RealEnc.v", "translators tools/py2v_reject.py (the four rejection sites), tools/py2v_batch.py (fail-closed)"],
    )


def replay(ctx, path):
    payload = json.load(open(path))
    ctx.make_overlay(need_kernel=True)
    case = payload.get("case")
    if case is None:
        return run(ctx)
    ctx.regen_all()
    if ctx.build_models(MODELS):
        run_cases(ctx, [case])
    else:
        try:
            errs = predicate(case, run_impl(ctx, case))
        except Exception as e:
            errs = [f"raised {type(e).__name__}: {e}"]
        for p in errs:
            ctx.fail("predicate", "C02:rejection", p, case=case)
    for f in ctx.failures:
        print("REPLAY-FAILS:", f.text)
    if not ctx.failures:
        print("REPLAY-PASSES")
    return 1 if ctx.failures else 0
