"""C17 -- sample-table operations preserve the physical orbit and its metadata (thejoker/samples.py).

Model: coq/Model/Table.v, theorems Props/C17.v.  Tie: exact correspondence for selection / copy /
median_period / pack-unpack / metadata; certified-interval certificates for wrap_K rows and
get_time_with_phase; predicate: direct comparison + RV curves through get_orbit before/after wrap_K.
"""
import json
import math
import os

import numpy as np

from common import CoqRunError, coq_Q, coq_Z, coq_list, load_corpus, rng_for

MODELS = ["Base/Corr.vo", "Base/XQ.vo", "Base/RealEnc.vo", "Model/RVData.vo", "Model/Table.vo"]

HEADER = """From Coq Require Import QArith ZArith List Bool.
From TJ Require Import Base.XQ Base.Corr Base.RealEnc Model.RVData Model.Table.
Import ListNotations.
Definition C (n u : nat) (v : list Q) := mk_scol n u v.
Definition hdr_meta_eqb (a b : stab) : bool :=
  Corr.list_eqb (fun x y => Nat.eqb (sc_name x) (sc_name y) && Nat.eqb (sc_unit x) (sc_unit y)) (st_cols a) (st_cols b) &&
  smeta_eqb (st_meta a) (st_meta b).
(* table, selections (idx, observed), copy, reductions (observed mean/std tables), periods + median index + observed median row,
   pack names/header + unpacked observation, wrap_K rows, time-with-phase rows *)
Definition check (c : stab * list (list nat * stab) * stab * list stab * (list Q * nat * stab) * (list nat * list (nat * nat) * stab)
                      * list (Q * Q * Q * Q * Z) * list (Q * Q * Q * Q * Q)) : bool :=
  let '(t, sels, cp, reds, (ps, mi, mrow), (names, hdr, unp), wrows, trows) := c in
  forallb (fun s => stab_eqb (select (fst s) t) (snd s)) sels &&
  stab_eqb (tcopy t) cp &&
  forallb (fun r => hdr_meta_eqb (select [0%nat] t) r) reds &&
  rank_ok ps mi && stab_eqb (select [mi] t) mrow &&
  stab_eqb (unpack hdr (st_meta t) (pack names t)) unp &&
  forallb (fun r => let '(k, w, k', w', n) := r in wrapk_row_ok 60 (1 # 1000000000) k w k' w' n) wrows &&
  forallb (fun r => let '(P, M0, phi, tol, o) := r in rclose 60 tol (time_with_phase P M0 phi) o) trows.
"""

NAMES = ["P", "e", "omega", "M0", "s", "K", "v0", "v1", "ln_prior", "ln_likelihood"]
UNITS = {"P": ["d", "yr"], "e": [""], "omega": ["rad", "deg"], "M0": ["rad", "deg"], "s": ["km / s", "m / s"], "K": ["km / s", "m / s"],
         "v0": ["km / s", "m / s"], "v1": ["km / (d s)"], "ln_prior": [""], "ln_likelihood": [""]}
_UID = {}


def uid(us):
    us = us.strip()
    if us in ("dimensionless",):
        us = ""
    return _UID.setdefault(us, len(_UID))


def gen_cases(ctx):
    rng = rng_for(ctx, 17)
    n = 90 if ctx.tier == "quick" else 900
    return load_corpus("C17") + [dict(seed=int(rng.integers(0, 2**31))) for _ in range(n)]


def build(case):
    import astropy.units as u
    from astropy.time import Time
    from thejoker.samples import JokerSamples

    r = np.random.default_rng(case["seed"])
    n = int(r.integers(1, 41))
    poly = int(r.integers(1, 3))
    tref = [None, Time(float(r.integers(50000, 59000)) + 0.5, format="mjd", scale="tcb")][int(r.random() < 0.8)]
    s = JokerSamples(t_ref=tref, poly_trend=poly, n_offsets=0)
    cols = ["P", "e", "omega", "M0", "s", "K", "v0"] + (["v1"] if poly > 1 else []) + (["ln_prior", "ln_likelihood"] if r.random() < 0.5 else [])
    q = lambda x, m: np.round(np.asarray(x, float) * m) / m
    un = {c: UNITS[c][int(r.integers(0, len(UNITS[c])))] for c in cols}
    vals = {}
    vals["P"] = q(10 ** r.uniform(0, 2.5, n), 64) if un["P"] == "d" else q(10 ** r.uniform(-2, 0.5, n), 4096)
    vals["e"] = q(r.uniform(0, 0.9, n), 1024)
    for a in ("omega", "M0"):
        vals[a] = q(r.uniform(-8, 14, n), 256) if un[a] == "rad" else q(r.uniform(-400, 800, n), 16)
    vals["s"] = q(r.uniform(0, 2, n), 64)
    k = q(r.normal(0, 20, n), 64)
    k[k == 0] = 1.0
    if n > 2 and r.random() < 0.2:
        k = np.abs(k)  # nothing to wrap
    vals["K"] = k
    vals["v0"] = q(r.normal(0, 30, n), 64)
    if "v1" in cols:
        vals["v1"] = q(r.normal(0, 0.01, n), 2**20)
    for c in ("ln_prior", "ln_likelihood"):
        if c in cols:
            vals[c] = q(r.normal(-10, 3, n), 16)
    if n > 3 and r.random() < 0.4:
        vals["P"][int(r.integers(0, n))] = vals["P"][int(r.integers(0, n))]  # tied periods
    for c in cols:
        s[c] = vals[c] * u.Unit(un[c])
    return s, r


def table_of(s):
    cols = []
    for c in s.par_names:
        col = s.tbl[c]
        us = col.unit.to_string() if getattr(col, "unit", None) is not None else ""
        cols.append((c, us, np.atleast_1d(np.asarray(getattr(col, "value", col), float)).tolist()))
    tr = s.t_ref
    meta = (None if tr is None else float(tr.tcb.mjd), int(s.poly_trend), int(s.n_offsets))
    return cols, meta


def stab_term(tab):
    cols, meta = tab
    ct = coq_list([f"C {NAMES.index(c)} {uid(us)} {coq_list([coq_Q(x) for x in v])}" for c, us, v in cols])
    tr = "None" if meta[0] is None else f"(Some {coq_Q(meta[0])})"
    return f"(mk_stab {ct} (mk_smeta {tr} {meta[1]}%nat {meta[2]}%nat))"


def nats(l):
    return coq_list([f"{int(i)}%nat" for i in l])


def run_case(case):
    import astropy.units as u

    problems = []
    s, r = build(case)
    n = len(s)
    base = table_of(s)
    bc, bm = base

    def expect_rows(idx):
        return [(c, us, [v[i] for i in idx]) for c, us, v in bc], bm

    def same(tab, exp, what):
        if tab != exp:
            if [x[:2] for x in tab[0]] != [x[:2] for x in exp[0]]:
                problems.append(f"{what}: columns/units changed {[x[:2] for x in tab[0]]} vs {[x[:2] for x in exp[0]]}")
            elif tab[1] != exp[1]:
                problems.append(f"{what}: metadata (t_ref, poly_trend, n_offsets) changed {tab[1]} vs {exp[1]}")
            else:
                problems.append(f"{what}: wrong rows/values")

    # 1. index expressions
    sels = []
    keys = [int(r.integers(0, n)), slice(int(r.integers(0, n)), None), slice(None, None, 2), r.random(n) < 0.5, np.sort(r.choice(n, int(r.integers(1, n + 1)), replace=False)),
            r.integers(0, n, int(r.integers(1, 6))), -1, -int(r.integers(1, n + 1)), slice(-int(r.integers(1, n + 1)), None), 0, n - 1,
            np.zeros(n, dtype=bool), slice(n, None), slice(1, 1)]  # the last three select no row: names, units and metadata are still kept
    for key in keys:
        idx = [key % n] if isinstance(key, int) else np.arange(n)[key].tolist()
        try:
            got = table_of(s[key])
        except Exception as e:
            problems.append(f"samples[{key!r}] raised {type(e).__name__}: {str(e)[:100]}")
            continue
        same(got, expect_rows(idx), f"samples[{type(key).__name__}]")
        sels.append(f"({nats(idx)}, {stab_term(got)})")
    # 2. copy
    cp = s.copy()
    cpt = table_of(cp)
    same(cpt, base, "copy()")
    cp.tbl["K"][0] = cp.tbl["K"][0] + 1 * cp.tbl["K"].unit
    if table_of(s) != base:
        problems.append("copy() shares data with the original")
    # 3. reductions
    reds = []
    for name in ("mean", "std"):
        try:
            red = getattr(s, name)()
            rt = table_of(red)
            if [x[:2] for x in rt[0]] != [x[:2] for x in bc] or rt[1] != bm or len(red) != 1:
                problems.append(f"{name}(): columns/units/metadata not kept: {[x[:2] for x in rt[0]]} {rt[1]}")
            for (c, us, v), (_, _, bv) in zip(rt[0], bc):
                want = getattr(np, name)(np.array(bv))
                if not math.isclose(v[0], want, rel_tol=1e-12, abs_tol=1e-12):
                    problems.append(f"{name}() of column {c} is {v[0]}, expected {want}")
            reds.append(stab_term(rt))
        except Exception as e:
            problems.append(f"{name}() raised {type(e).__name__}: {str(e)[:100]}")
    # 4. median_period
    ps = dict((c, v) for c, _, v in bc)["P"]
    try:
        med = s.median_period()
        mt = table_of(med)
        cand = [i for i in range(n) if expect_rows([i]) == mt]
        if not cand:
            problems.append("median_period() is not a member row (or lost units/metadata)")
            mi = 0
        else:
            mi = cand[0]
            p = ps[mi]
            if not (sum(x < p for x in ps) <= n // 2 < sum(x <= p for x in ps)):
                problems.append(f"median_period() row has period rank outside floor(n/2)={n // 2}")
        med_term = f"({coq_list([coq_Q(x) for x in ps])}, {mi}%nat, {stab_term(mt)})"
    except Exception as e:
        problems.append(f"median_period() raised {type(e).__name__}: {str(e)[:100]}")
        med_term = f"({coq_list([coq_Q(x) for x in ps])}, 0%nat, {stab_term(base)})"
    # 5. pack / unpack in the table's own units
    from thejoker.samples import JokerSamples

    names = [str(c) for c in r.permutation([c for c, _, _ in bc])]
    try:
        units = {c: u.Unit(us) for c, us, _ in bc}
        # first in other, equivalent units (the same object is packed again below: a later pack must not reuse this one's values)
        alt = {c: {u.day: u.yr, u.km / u.s: u.m / u.s, u.rad: u.deg, u.m / u.s: u.km / u.s, u.deg: u.rad}.get(un_, un_) for c, un_ in units.items()}
        packed_a, out_a = s.pack(units=dict(alt), names=names, nonlinear_only=False)
        for j, c in enumerate(names):
            want = np.asarray(s[c].to_value(alt[c]), float)
            if out_a[c] != alt[c] or packed_a.shape != (len(s), len(names)) or not np.allclose(packed_a[:, j], want, rtol=1e-12, atol=0):
                problems.append(f"pack(units={alt[c]}) column {c}: {packed_a[:3, j]} {out_a[c]} but the table holds {want[:3]} {alt[c]}")
                break
        packed, out_units = s.pack(units=dict(units), names=names, nonlinear_only=False)
        un = JokerSamples.unpack(packed, out_units, t_ref=s.t_ref, poly_trend=s.poly_trend, n_offsets=s.n_offsets)
        ut = table_of(un)
        exp = ([next(x for x in bc if x[0] == c) for c in names], bm)
        same(ut, exp, "unpack(pack())")
        hdr = coq_list([f"({NAMES.index(c)}, {uid(next(x[1] for x in bc if x[0] == c))})%nat" for c in names])
        pack_term = f"({nats([NAMES.index(c) for c in names])}, {hdr}, {stab_term(ut)})"
        reorder = True
    except Exception as e:
        problems.append(f"pack/unpack raised {type(e).__name__}: {str(e)[:100]}")
        pack_term = None
    # 6. wrap_K
    w = s.copy()
    times = None
    rv_before = []
    chk_rows = r.choice(n, min(n, 3), replace=False).tolist()
    try:  # prefer rows wrap_K has to move (K < 0)
        neg = [i for i in range(n) if float(np.asarray(s["K"].value).reshape(-1)[i]) < 0]
        chk_rows = (neg[:2] + [i for i in chk_rows if i not in neg[:2]])[: max(1, min(n, 3))]
    except Exception:
        pass
    try:
        if s.t_ref is not None:
            from astropy.time import Time

            times = s.t_ref + np.linspace(0, 40, 9) * u.day
            # orbits are requested from the SAME object before and after wrap_K (anything the object remembers about its
            # orbits must follow the in-place change)
            rv_before = [w.get_orbit(i).radial_velocity(times).to_value(u.km / u.s) for i in chk_rows]
        w.wrap_K()
        wt = table_of(w)
        wd = dict((c, v) for c, _, v in wt[0])
        bd = dict((c, v) for c, _, v in bc)
        if [x[:2] for x in wt[0]] != [x[:2] for x in bc] or wt[1] != bm:
            problems.append("wrap_K changed columns/units/metadata")
        for c in bd:
            if c not in ("K", "omega") and wd[c] != bd[c]:
                problems.append(f"wrap_K modified column {c}")
        om_unit = u.Unit(dict((c, us) for c, us, _ in bc)["omega"])
        wrows = []
        for i in range(n):
            k, k2 = bd["K"][i], wd["K"][i]
            if k2 < 0:
                problems.append(f"wrap_K left K={k2} negative")
            if k >= 0:
                wrows.append(f"({coq_Q(k)}, {coq_Q(bd['omega'][i])}, {coq_Q(k2)}, {coq_Q(wd['omega'][i])}, 0%Z)")
                if k2 != k or wd["omega"][i] != bd["omega"][i]:
                    problems.append(f"wrap_K touched row {i} although K >= 0")
            else:
                wr = float((bd["omega"][i] * om_unit).to_value(u.rad))
                wr2 = float((wd["omega"][i] * om_unit).to_value(u.rad))
                nn = math.floor((wr + math.pi) / (2 * math.pi))
                wrows.append(f"({coq_Q(k)}, {coq_Q(wr)}, {coq_Q(k2)}, {coq_Q(wr2)}, {coq_Z(nn)}%Z)")
                if k2 != -k or not (-1e-9 <= wr2 < 2 * math.pi + 1e-9) or abs(wr + math.pi - 2 * math.pi * nn - wr2) > 1e-9:
                    problems.append(f"wrap_K row {i}: K {k}->{k2}, omega {wr}->{wr2} rad is not omega+pi mod 2pi in [0,2pi)")
        if times is not None:
            for i, before in zip(chk_rows, rv_before):
                after = w.get_orbit(i).radial_velocity(times).to_value(u.km / u.s)
                if not np.allclose(after, before, rtol=1e-9, atol=1e-9):
                    problems.append(f"wrap_K changed the RV curve of row {i}")
                    break
    except Exception as e:
        problems.append(f"wrap_K raised {type(e).__name__}: {str(e)[:100]}")
        wrows = []
    # 7. time with phase
    trows = []
    if s.t_ref is not None:
        try:
            # the requested phase in radians, degrees or arcminutes: the same angle must give the same time
            punit = [u.rad, u.deg, u.arcmin][int(r.integers(0, 3))]
            pval = float(np.round(r.uniform(-7, 7) * 256) / 256) if punit is u.rad else float(np.round(r.uniform(-400, 400) * 4) / 4) * (60 if punit is u.arcmin else 1)
            phi = float((pval * punit).to_value(u.rad))
            tt = s.get_time_with_phase(phase=pval * punit)
            t0 = s.get_t0()
            dts = np.atleast_1d((tt - s.t_ref).to_value(u.day))
            dt0 = np.atleast_1d((t0 - s.t_ref).to_value(u.day))
            Pd = np.atleast_1d(s["P"].to_value(u.day))
            M0r = np.atleast_1d(s["M0"].to_value(u.rad))
            for i in range(min(n, 6)):
                tol = 1e-9 * max(1.0, abs(Pd[i]) * (abs(M0r[i]) + abs(phi) + 1))
                trows.append(f"({coq_Q(Pd[i])}, {coq_Q(M0r[i])}, {coq_Q(phi)}, {coq_Q(tol)}, {coq_Q(dts[i])})")
                trows.append(f"({coq_Q(Pd[i])}, {coq_Q(M0r[i])}, 0, {coq_Q(tol)}, {coq_Q(dt0[i])})")
                M = 2 * math.pi * dts[i] / Pd[i] - M0r[i]
                if abs(M - phi) > 1e-7 * (1 + abs(M0r[i]) + abs(phi)):
                    problems.append(f"get_time_with_phase: mean anomaly at the returned time is {M}, requested {phi}")
                    break
        except Exception as e:
            problems.append(f"get_time_with_phase raised {type(e).__name__}: {str(e)[:100]}")
    else:
        # a table without a reference epoch: the caller supplies one per query -- two queries with different epochs, each answered
        # relative to its own epoch, and the table still has no epoch afterwards (checked below with everything else)
        from astropy.time import Time

        try:
            Pd = np.atleast_1d(s["P"].to_value(u.day))
            M0r = np.atleast_1d(s["M0"].to_value(u.rad))
            for ep, phi in ((55000.0, 1.0), (56000.5, -0.5)):
                tr = Time(ep, format="mjd", scale="tcb")
                dts = np.atleast_1d((s.get_time_with_phase(phase=phi * u.rad, t_ref=tr) - tr).to_value(u.day))
                for i in range(min(n, 4)):
                    M = 2 * math.pi * dts[i] / Pd[i] - M0r[i]
                    if abs(M - phi) > 1e-6 * (1 + abs(M0r[i]) + abs(phi)):
                        problems.append(f"get_time_with_phase(t_ref={ep}): mean anomaly at the returned time is {M}, requested {phi}")
                        break
        except Exception as e:
            problems.append(f"get_time_with_phase with a caller-supplied t_ref raised {type(e).__name__}: {str(e)[:100]}")
    if u.rad.is_equivalent(u.one) or u.deg.is_equivalent(u.one):
        problems.append("after the table operations angles and dimensionless numbers are interchangeable process-wide (a unit equivalency was left enabled)")
    try:
        if table_of(s) != base:
            problems.append("the table (values, units or metadata) was modified by read-only operations on it")
    except Exception as e:
        problems.append(f"the table is unusable after read-only operations: {type(e).__name__}: {str(e)[:100]}")
    if pack_term is None:
        return None, problems
    term = (f"({stab_term(base)}, {coq_list(sels)}, {stab_term(cpt)}, {coq_list(reds)}, {med_term}, {pack_term}, {coq_list(wrows)}, {coq_list(trows)})")
    return term, problems


def run_cases(ctx, cases):
    terms, kept = [], []
    for c in cases:
        try:
            term, problems = run_case(c)
        except Exception as e:  # an operation in the sequence broke the table for the following ones
            import traceback

            tb = traceback.extract_tb(e.__traceback__)
            where = next((f"{os.path.basename(fr.filename)}:{fr.lineno} {fr.line}" for fr in reversed(tb) if "harness" in fr.filename), "")
            term, problems = None, [f"operation sequence on one table raised {type(e).__name__}: {str(e)[:120]} at [{where}] (an earlier operation damaged the table or its metadata)"]
        if problems:
            ctx.fail("predicate", "C17:table", "; ".join(problems[:2]) + f" [seed {c['seed']}]", case=c)
        if term is not None:
            terms.append(term)
            kept.append(c)
    bad = ctx.coq_check_cases("c17", HEADER, terms, "check", shard=10)
    for i in bad:
        ctx.fail("correspondence", "C17:table", f"model (Model/Table.v) and implementation disagree [seed {kept[i]['seed']}]", case=kept[i])
    if kept:
        ctx.samples.append({"input": kept[0], "coq_case": terms[0][:500]})
    return len(cases), len(kept)


def run(ctx):
    ctx.make_overlay(need_kernel=True)
    ctx.regen_all(needed=("py2v_samples.py",))  # Gen/SamplesGen.v: wrap_K, get_time_with_phase, get_t0, median_period as the source has them now
    ok = ctx.build_models(MODELS)
    if ok:
        ctx.build_props()
        ctx.build_props("Props/C17g.vo")  # the generated row functions over the reals: same curve, K >= 0, omega in [0, 2 pi), phase at the returned time
    cases = gen_cases(ctx)
    n_eval = nt = 0
    try:
        if ok:
            n_eval, nt = run_cases(ctx, cases)
    except CoqRunError as e:
        ctx.broken_ties.append("correspondence could not be evaluated: " + str(e)[:500])
        ok = False
    if not ok:
        for c in cases[:60]:
            n_eval += 1
            _, problems = run_case(c)
            if problems:
                ctx.fail("predicate", "C17:table", "; ".join(problems[:2]), case=c)
                break
    ctx.coverage.update(evaluations=n_eval, distinct_nontrivial=nt)
    return ctx.finish(
        rule="random sample tables: 1..40 rows, columns P,e,omega,M0,s,K,v0[,v1][,ln_prior,ln_likelihood] in random units (d/yr, rad/deg, km/s|m/s), "
        "signs of K mixed (sometimes all positive), angles far outside [0,2pi), tied periods, t_ref present/absent, poly_trend 1..2; per table: 6 index "
        "expressions (int, slices, mask, sorted and unsorted index lists), copy, mean/std, median_period, pack/unpack in a permuted column order, "
        "wrap_K (every row certified + RV curves of 3 rows), get_t0 / get_time_with_phase. Every case is non-trivial",
        assumptions=["astropy unit conversion (deg->rad, yr->d) and Time arithmetic are trusted; numeric certificates use tolerance 1e-9",
                     "twobody's KeplerOrbit is used only by the predicate (RV curves before/after wrap_K)"],
        trusted_extra=["Coq-Interval through Base/RealEnc.v (wrap_K and time-of-phase certificates)"],
    )


def replay(ctx, path):
    payload = json.load(open(path))
    ctx.make_overlay(need_kernel=True)
    case = payload.get("case")
    if case is None:
        return run(ctx)
    ctx.regen_all()
    if ctx.build_models(MODELS):
        run_cases(ctx, [case])
    else:
        _, problems = run_case(case)
        for p in problems:
            ctx.fail("predicate", "C17:table", p, case=case)
    for f in ctx.failures:
        print("REPLAY-FAILS:", f.text)
    if not ctx.failures:
        print("REPLAY-PASSES")
    return 1 if ctx.failures else 0
