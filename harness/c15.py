"""C15 -- RVData preserves the observations it is given (thejoker/data.py).

Hand-written model (coq/Model/RVData.v) tied by correspondence: for every generated input the
harness runs RVData, recovers the permutation the implementation applied (rows carry unique
velocity tags) and Coq decides the certificate init_check / init_check_cov / copy_check /
slice_check / tref_check / ivar_check on exact values.  Props/C15.v proves what an accepted
certificate means.  The independent predicate below is the failing-input oracle.
"""
import json
import math
import struct

import numpy as np

from common import CoqRunError, coq_Q, coq_bool, coq_list, coq_xq, load_corpus, rng_for

MODELS = ["Base/Corr.vo", "Base/XQ.vo", "Model/RVData.vo"]

HEADER = """From Coq Require Import QArith List Bool.
From TJ Require Import Base.XQ Base.Corr Model.RVData.
Import ListNotations.
Definition tolT : Q := (1 # 100000000).
Definition tolI : Q := (1 # 1000000000000).
Definition O3 (t rv e : XQ) := mkobs t rv e.
(* diagonal errors: clean, input, tref arg, pi, out, observed tref, ivar; then copy (pi, rows, tref); then slices *)
Definition check_diag (c : bool * list obs * tref_arg * list nat * list obs * option XQ * list XQ
                           * (list nat * list obs * option XQ) * list (list nat * list nat * list obs)) : bool :=
  let '(clean, input, ta, pi, out, otr, ivar, (cpi, cp, cptr), slices) := c in
  init_check clean input pi out && tref_check tolT ta (map o_t out) otr && ivar_check tolI out ivar &&
  copy_check tolT out otr cpi cp cptr &&
  forallb (fun s => let '(sel, spi, sout) := s in slice_check out sel spi sout) slices.
Definition check_cov (c : bool * list XQ * list XQ * list (list XQ) * list nat * list XQ * list XQ * list (list XQ)
                          * list (list Q) * list (list Q)) : bool :=
  let '(clean, t, rv, cov, pi, ot, orv, ocov, qcov, qivar) := c in
  init_check_cov clean t rv cov pi ot orv ocov && inv_check (1 # 100000000) qcov qivar.
Definition check_cov_sel (c : list XQ * list XQ * list (list XQ) * list nat * list XQ * list XQ * list (list XQ)) : bool :=
  let '(t, rv, cov, sel, st, srv, scov) := c in slice_check_cov t rv cov sel st srv scov.
"""


def bits(x):
    x = float(x)
    if math.isnan(x):
        return b"nan"
    return struct.pack("<d", x)


def find_pi(in_rows, out_rows):
    """For each output row find an unused input index with identical values; None if impossible."""
    used = set()
    keys = [tuple(bits(v) for v in r) for r in in_rows]
    pi = []
    for r in out_rows:
        k = tuple(bits(v) for v in r)
        hit = None
        for i, kk in enumerate(keys):
            if i not in used and kk == k:
                hit = i
                break
        if hit is None:
            return None
        used.add(hit)
        pi.append(hit)
    return pi


def obs_list(rows):
    return coq_list([f"O3 {coq_xq(t)} {coq_xq(v)} {coq_xq(e)}" for t, v, e in rows])


def nat_list(l):
    return coq_list([f"{int(i)}%nat" for i in l])


def xq_list(l):
    return coq_list([coq_xq(x) for x in l])


def rows_of(d):
    return list(zip(np.asarray(d._t_bmjd, float).tolist(), np.asarray(d.rv.value, float).tolist(), np.asarray(d.rv_err.value, float).tolist()))


def tref_obs(d):
    if d.t_ref is None:
        return None
    return float(d._t_ref_bmjd)


def tref_term(o):
    return "None" if o is None else f"(Some {coq_xq(o)})"


def gen_cases(ctx):
    rng = rng_for(ctx, 15)
    n_cases = 150 if ctx.tier == "quick" else 1500
    cases = list(load_corpus("C15"))
    for k in range(n_cases):
        n = int(rng.integers(1, 13 if ctx.tier == "quick" else 31))
        base = float(rng.integers(50000, 59000))
        t = base + np.round(rng.uniform(0, 400, n) * 64) / 64  # dyadic, with collisions possible
        if rng.random() < 0.5 and n > 2:  # forced duplicates
            for _ in range(int(rng.integers(1, 3))):
                i, j = rng.integers(0, n, 2)
                t[i] = t[j]
        rv = np.round(rng.normal(0, 30, n) * 256) / 256 + np.arange(n) * 1e-3  # unique tags
        err = np.round(rng.uniform(0.1, 5, n) * 128) / 128 + 1 / 128
        clean = bool(rng.random() < 0.7)
        cov = bool(rng.random() < 0.25)
        if not cov and rng.random() < 0.15:
            # finite but degenerate uncertainties: exactly zero, or so small that the square underflows -- still observations to keep
            for _ in range(int(rng.integers(1, 3))):
                err[int(rng.integers(0, n))] = [0.0, 1e-170][int(rng.integers(0, 2))]
        # non-finite placements
        nf = {"t": [], "rv": [], "err": []}
        if rng.random() < 0.6 and n > 1:
            for _ in range(int(rng.integers(1, 4))):
                arr = ["rv", "err", "t"][int(rng.integers(0, 3 if clean else 2))]
                i = int(rng.integers(0, n))
                val = [float("nan"), float("inf"), float("-inf")][int(rng.integers(0, 3))]
                if arr == "err" and cov:
                    continue
                nf[arr].append((i, val))
        # keep at least one fully finite observation (an empty RVData is outside the statement: the constructor raises)
        keep0 = int(rng.integers(0, n))
        for arr in nf:
            nf[arr] = [(i, v) for (i, v) in nf[arr] if i != keep0]
        unit = ["km/s", "m/s", "pc/Myr"][int(rng.integers(0, 3))]
        tmode = ["float", "time"][int(rng.random() < 0.35)]
        if clean:
            tref = ["default", "false", "given"][int(rng.integers(0, 3))]
        else:
            tref = ["false", "given"][int(rng.integers(0, 2))]
        cases.append(
            dict(n=n, t=t.tolist(), rv=rv.tolist(), err=err.tolist(), clean=clean, cov=cov, nonfinite=nf, unit=unit, tmode=tmode,
                 tref=tref, tref_val=base - 17.25, seed=int(rng.integers(0, 2**31)))
        )
        if rng.random() < 0.3:  # uncertainties handed over in another (equivalent) unit than the velocities
            cases[-1]["err_unit"] = [x for x in ("km/s", "m/s", "pc/Myr") if x != unit][int(rng.integers(0, 2))]
    return cases


def build_inputs(case):
    import astropy.units as u
    from astropy.time import Time

    t = np.array(case["t"], float)
    rv = np.array(case["rv"], float)
    err = np.array(case["err"], float)
    for i, v in case["nonfinite"]["t"]:
        t[i] = v
    for i, v in case["nonfinite"]["rv"]:
        rv[i] = v
    if case["seed"] % 4 == 1 and not case["cov"]:
        # single-precision velocities (survey catalogue columns) with double-precision times that single precision cannot hold (an
        # extra 2^-12 day, 21 s): the times are stored as given.  (The uncertainties stay double: 1/err^2 of a float32 is a float32.)
        rv = rv.astype(np.float32)
        t = t + 2.0**-12
    unit = u.Unit(case["unit"])
    eunit = u.Unit(case.get("err_unit") or case["unit"])  # the uncertainties keep the unit they were given in
    n = len(t)
    if case["cov"]:
        r = np.random.default_rng(case["seed"])
        a = np.round(r.normal(0, 0.2, (n, n)) * 64) / 64
        C = a @ a.T + np.diag(err**2 + 1.0)
        C = (C + C.T) / 2
        errq = C * eunit**2
        errv = C
    else:
        for i, v in case["nonfinite"]["err"]:
            err[i] = v
        errq = err * eunit
        errv = err
    if case["tmode"] == "time":
        tfin = np.where(np.isfinite(t), t, 55000.0)  # Time() of non-finite values is avoided: those rows get NaN velocity instead
        rv = np.where(np.isfinite(t), rv, np.nan)
        t_in = Time(tfin, format="mjd", scale="tcb")
        t_model = np.asarray(t_in.tcb.mjd, float)
    else:
        t_in = t
        t_model = t
    if case["tref"] == "default":
        tref = None
    elif case["tref"] == "false":
        tref = False
    else:
        tref = Time(case["tref_val"], format="mjd", scale="tcb")
    return t_in, t_model, rv, errv, errq, unit, tref, eunit


def predicate_rows(in_rows, out_rows, clean):
    """Independent reading of the property on the implementation's rows."""
    errs = []
    keep = [r for r in in_rows if (not clean) or all(math.isfinite(v) for v in r)]
    key = lambda r: tuple(bits(v) for v in r)
    if sorted(map(key, keep)) != sorted(map(key, out_rows)):
        errs.append(f"stored observations are not exactly the {'finite ' if clean else ''}input observations (pairing/filter broken): kept {len(out_rows)} of {len(in_rows)}")
    ts = [r[0] for r in out_rows]
    if any(not (a <= b) for a, b in zip(ts, ts[1:]) if not (math.isnan(a) or math.isnan(b))):
        errs.append("times not ascending")
    return errs


def run_case(case):
    """Run the implementation; returns (coq term kind, coq term, problems, nontrivial)."""
    from thejoker.data import RVData

    t_in, t_model, rv, errv, errq, unit, tref, eunit = build_inputs(case)
    problems = []
    try:
        d = RVData(t_in, rv * unit, errq, t_ref=tref, clean=case["clean"])
    except Exception as e:
        return None, None, [f"RVData(...) raised {type(e).__name__}: {e}"], False
    if d.rv.unit != unit:
        problems.append(f"velocity unit changed: {unit} -> {d.rv.unit}")
    nontriv = bool(case["nonfinite"]["t"] or case["nonfinite"]["rv"] or case["nonfinite"]["err"]) or any(a > b for a, b in zip(t_model, t_model[1:]))
    if case["cov"]:
        n = len(t_model)
        ot = np.asarray(d._t_bmjd, float)
        orv = np.asarray(d.rv.value, float)
        ocov = np.asarray(d.rv_err.value, float)
        if d.rv_err.unit != eunit**2:
            problems.append("covariance unit changed")
        pi = find_pi(list(zip(t_model, rv)), list(zip(ot, orv)))
        if pi is None:
            return None, None, problems + ["stored (t, rv) rows are not input rows: pairing broken"], nontriv
        exp = np.array(errv)[np.ix_(pi, pi)] if len(pi) else np.zeros((0, 0))
        if ocov.shape != exp.shape or not np.array_equal(ocov, exp, equal_nan=True):
            problems.append("covariance rows/columns not permuted with the observations")
        colfin = np.isfinite(errv).all(axis=0)
        keep = [i for i in range(n) if (not case["clean"]) or (math.isfinite(t_model[i]) and math.isfinite(rv[i]) and colfin[i])]
        if sorted(pi) != keep:
            problems.append("kept set differs from the finite observations")
        try:
            iv = np.asarray(d.ivar.to_value(1 / eunit**2), float)
        except Exception as e:
            problems.append(f"ivar raised {e}")
            iv = np.zeros_like(ocov)
        finite_all = np.isfinite(ocov).all() and np.isfinite(iv).all()
        qc = ocov if finite_all else np.zeros((0, 0))
        qi = iv if finite_all else np.zeros((0, 0))
        if finite_all and len(ocov) and not np.allclose(ocov @ iv, np.eye(len(ocov)), atol=1e-8):
            problems.append("ivar is not the inverse covariance")
        qm = lambda m: coq_list([coq_list([coq_Q(x) for x in row]) for row in np.asarray(m).tolist()])
        xm = lambda m: coq_list([xq_list(row) for row in np.asarray(m).tolist()])
        term = (f"({coq_bool(case['clean'])}, {xq_list(t_model)}, {xq_list(rv)}, {xm(errv)}, {nat_list(pi)}, {xq_list(ot)}, {xq_list(orv)}, "
                f"{xm(ocov)}, {qm(qc)}, {qm(qi)})")
        sel_terms = []
        # selections of covariance data (slice, boolean mask, index array): the sub-matrix of the selected rows AND columns, same units;
        # each is certified as a construction from the parent's rows with the selection as the permutation
        r = np.random.default_rng(case["seed"] + 1)
        m = len(ot)
        if m >= 1:
            a, b = sorted(r.integers(0, m + 1, 2).tolist())
            forms = [slice(a, b), slice(None, None, 2), r.random(m) < 0.6, np.sort(r.choice(m, size=int(r.integers(1, m + 1)), replace=False))]
            for f in forms:
                sel = np.arange(m)[f].tolist()
                if len(sel) == 0:
                    continue
                try:
                    s = d[f]
                    st, srv, scov = np.asarray(s._t_bmjd, float), np.asarray(s.rv.value, float), np.asarray(s.rv_err.value, float)
                except Exception as e:
                    problems.append(f"data[{f!r}] on covariance data raised {type(e).__name__}: {e}")
                    continue
                exp = ocov[np.ix_(sel, sel)]
                if scov.shape != exp.shape or not np.array_equal(scov, exp, equal_nan=True) or s.rv_err.unit != eunit**2:
                    problems.append(f"data[{f!r}] on covariance data: uncertainties of shape {scov.shape} in {s.rv_err.unit}, expected the "
                                    f"{exp.shape} sub-matrix of the selected rows and columns in {eunit**2}")
                    continue
                if not (np.array_equal(st, ot[sel], equal_nan=True) and np.array_equal(srv, orv[sel], equal_nan=True)) or s.rv.unit != unit:
                    problems.append(f"data[{f!r}] on covariance data does not hold the selected observations")
                    continue
                sel_terms.append(f"({xq_list(ot)}, {xq_list(orv)}, {xm(ocov)}, {nat_list(sel)}, {xq_list(st)}, {xq_list(srv)}, {xm(scov)})")
        return "cov", {"cov": [term], "covsel": sel_terms}, problems, nontriv
    in_rows = list(zip(t_model.tolist(), rv.tolist(), np.asarray(errv, float).tolist()))
    out_rows = rows_of(d)
    problems += predicate_rows(in_rows, out_rows, case["clean"])
    pi = find_pi(in_rows, out_rows)
    if pi is None:
        return None, None, problems or ["no pairing permutation"], nontriv
    if d.rv_err.unit != eunit:
        problems.append(f"error unit changed: given in {eunit}, stored in {d.rv_err.unit}")
    otr = tref_obs(d)
    if case["tref"] == "false":
        ta = "TrefFalse"
        if d.t_ref is not None:
            problems.append("t_ref=False but a reference epoch was set")
    elif case["tref"] == "default":
        ta = "TrefDefault"
        if otr is None or abs(otr - min(r[0] for r in out_rows)) > 1e-8:
            problems.append(f"default t_ref {otr} is not the earliest time")
    else:
        ta = f"(TrefGiven {coq_Q(float(tref.tcb.mjd))})"
        if otr is None or abs(otr - float(tref.tcb.mjd)) > 1e-8:
            problems.append("explicit t_ref not stored")
    try:
        iv = np.asarray(d.ivar.to_value(1 / eunit**2), float).tolist()  # per squared unit of the uncertainties as given
    except Exception as e:
        problems.append(f"ivar raised {e}")
        iv = []
    for (tt, vv, ee), w in zip(out_rows, iv):
        if math.isfinite(ee) and math.isfinite(w) and abs(w * ee * ee - 1) > 1e-12:
            problems.append(f"ivar {w} is not 1/err^2 for err {ee}")
            break
    # copy
    try:
        c = d.copy()
        crow = rows_of(c)
        cpi = find_pi(out_rows, crow)
        ctr = tref_obs(c)
        if c.rv.unit != unit:
            problems.append("copy changed the unit")
        if cpi is None or len(crow) != len(out_rows):
            problems.append("copy() does not hold the same observations")
        if (otr is None) != (ctr is None) or (otr is not None and abs(otr - ctr) > 1e-8):
            problems.append(f"copy() changed the reference epoch: {otr} -> {ctr}")
        copy_term = f"({nat_list(cpi or [])}, {obs_list(crow)}, {tref_term(ctr)})"
    except Exception as e:
        problems.append(f"copy() raised {type(e).__name__}: {e}")
        copy_term = "([], [], None)"
    # slices
    r = np.random.default_rng(case["seed"] + 1)
    m = len(out_rows)
    sl_terms = []
    if m >= 1:
        forms = []
        a, b = sorted(r.integers(0, m + 1, 2).tolist())
        forms.append(slice(a, b))
        forms.append(slice(None, None, 2))
        forms.append(slice(int(r.integers(0, m)), None))
        forms.append(r.random(m) < 0.6)
        forms.append(np.sort(r.choice(m, size=int(r.integers(1, m + 1)), replace=False)))
        for f in forms:
            sel = np.arange(m)[f].tolist()
            if len(sel) == 0:
                continue
            try:
                s = d[f]
            except Exception as e:
                problems.append(f"data[{f!r}] raised {type(e).__name__}: {e}")
                continue
            srow = rows_of(s)
            spi = find_pi(out_rows, srow)
            exp = sorted(bits(out_rows[i][1]) for i in sel)
            if spi is None or sorted(bits(x[1]) for x in srow) != exp:
                problems.append(f"data[{f!r}] does not hold the selected observations")
                spi = spi or []
            if s.rv.unit != unit or s.rv_err.unit != eunit:
                problems.append("slice changed a unit")
            sl_terms.append(f"({nat_list(sel)}, {nat_list(spi)}, {obs_list(srow)})")
    term = (f"({coq_bool(case['clean'])}, {obs_list(in_rows)}, {ta}, {nat_list(pi)}, {obs_list(out_rows)}, {tref_term(otr)}, {xq_list(iv)}, "
            f"{copy_term}, {coq_list(sl_terms)})")
    return "diag", term, problems, nontriv


HEADER2 = HEADER


def run_cases(ctx, cases):
    groups = {"diag": [], "cov": [], "covsel": []}
    n_nt = 0
    for c in cases:
        kind, term, problems, nontriv = run_case(c)
        if problems:
            sig = "C15:copy-t_ref" if all("copy() changed the reference epoch" in p for p in problems) else "C15:rvdata"
            ctx.fail("predicate", sig, "RVData: " + "; ".join(problems[:3]), case=c)
        if isinstance(term, dict):
            for k_, ts_ in term.items():
                for t_ in ts_:
                    groups[k_].append((c, t_))
        elif term is not None:
            groups[kind].append((c, term))
        n_nt += bool(nontriv)
    for kind, fn in (("diag", "check_diag"), ("cov", "check_cov"), ("covsel", "check_cov_sel")):
        items = groups[kind]
        if not items:
            continue
        bad = ctx.coq_check_cases("c15_" + kind, HEADER2, [t for _, t in items], fn, shard=60)
        for i in bad:
            ctx.fail("correspondence", "C15:rvdata", f"certificate {fn} rejected: implementation output does not meet the model's specification", case=items[i][0])
        if items:
            ctx.samples.append({"kind": kind, "input": {k: items[0][0][k] for k in ("n", "clean", "cov", "tref", "tmode", "unit", "nonfinite")}, "coq_case": items[0][1][:300]})
    return len(cases), n_nt


def run(ctx):
    ctx.make_overlay(need_kernel=True)
    ctx.regen_all(needed=("py2v_data.py",))  # Gen/DataGen.v: RVData.__init__, ivar, __copy__, __getitem__ as the source has them now
    ok = ctx.build_models(MODELS)
    if ok:
        ctx.build_props()
        ctx.build_props("Props/C15g.vo")  # the generated constructor, for every sorting permutation argsort may return
    cases = gen_cases(ctx)
    n_eval = n_nt = 0
    try:
        if ok:
            n_eval, n_nt = run_cases(ctx, cases)
    except CoqRunError as e:
        ctx.broken_ties.append("correspondence could not be evaluated: " + str(e)[:500])
        ok = False
    if not ok:
        for c in cases:
            _, _, problems, _ = run_case(c)
            n_eval += 1
            if problems:
                ctx.fail("predicate", "C15:rvdata", "RVData: " + "; ".join(problems[:3]), case=c)
                break
    ctx.coverage.update(evaluations=n_eval, distinct_nontrivial=n_nt)
    return ctx.finish(
        rule="random RVData inputs: 1..%d epochs, duplicated/unsorted times (float BMJD or Time), NaN/+-inf in each array, 3 velocity units, "
        "1-D errors or full covariance, uncertainties in the velocity unit or another equivalent one, clean on/off, t_ref default/False/explicit; then copy() and 5 slice forms (4 on covariance data: slice, stride, boolean mask, index array); "
        "non-trivial = unsorted input or at least one non-finite entry" % (12 if ctx.tier == "quick" else 30),
        assumptions=[
            "astropy Time: t.tcb.mjd of a tcb/mjd Time is taken as the input time (the conversion itself is trusted)",
            "numpy argsort = some sorting permutation (witness recovered from unique velocity tags); np.linalg.inv trusted up to the checked product",
        ],
    )


def replay(ctx, path):
    payload = json.load(open(path))
    ctx.make_overlay(need_kernel=True)
    if payload.get("case") is None:
        return run(ctx)
    ctx.regen_all()
    ok = ctx.build_models(MODELS)
    if ok:
        run_cases(ctx, [payload["case"]])
    else:
        _, _, problems, _ = run_case(payload["case"])
        for p in problems:
            ctx.fail("predicate", "C15:rvdata", p, case=payload["case"])
    for f in ctx.failures:
        print("REPLAY-FAILS:", f.text)
    if not ctx.failures:
        print("REPLAY-PASSES")
    return 1 if ctx.failures else 0
