"""C16 -- work partitioning (utils.batch_tasks, multiproc_helpers.run_worker).

Tie: translator (tools/py2v_batch.py -> Gen/BatchTasksGen.v, theorems in Props/C16.v re-checked
against it) validated by exact correspondence: Coq evaluates batch_tasks_gen on the same inputs
and compares with what the running implementation returned.  Predicate: the property statement
read directly on the implementation's output.
"""
import json
import os

import numpy as np

from common import CoqRunError, coq_Z, coq_bool, coq_list, coq_option, load_corpus, rng_for

MODELS = ["Base/Corr.vo", "Model/BatchSpec.vo"]

HEADER = """From Coq Require Import ZArith List Bool.
From TJ Require Import Base.Imp Base.Corr Gen.BatchTasksGen Model.BatchSpec.
Import ListNotations. Open Scope Z_scope.
Definition check (c : Z * Z * Z * bool * option Z * list obs_task) : bool :=
  let '(n_tasks, n_batches, start, none, _, obs) := c in
  Corr.list_eqb obs_eqb (map task_obs (batch_tasks_gen n_tasks n_batches start none)) obs.
(* run_worker: (file_rows, n_prior, idx_len, n_batches, pool_size, observed tasks) *)
Definition check_rw (c : Z * option Z * option Z * option Z * Z * list obs_task) : bool :=
  let '(rows, n_prior, idx_len, nb, psize, obs) := c in
  Corr.list_eqb obs_eqb
    (map task_obs (batch_tasks_gen (rw_n_samples rows n_prior idx_len) (rw_n_batches nb psize) 0
                                   (match idx_len with None => true | Some _ => false end))) obs.
"""


def observe(tasks, args, arr):
    """Canonical observation of the implementation's task list; raises on malformed tasks."""
    obs = []
    problems = []
    for t in tasks:
        if not isinstance(t, (list, tuple)) or len(t) != 2 + len(args):
            problems.append(f"malformed task {t!r}")
            continue
        if list(t[2:]) != list(args):
            problems.append(f"task does not carry args: {t!r}")
        x, ident = t[0], t[1]
        if arr is None:
            if not (isinstance(x, tuple) and len(x) == 2):
                problems.append(f"payload not an index pair: {x!r}")
                continue
            obs.append((True, int(x[0]), int(x[1]), int(ident)))
        else:
            x = np.asarray(x)
            if len(x) == 0:
                obs.append((False, -1, -1, int(ident)))
            else:
                # arr holds distinct values, so a slice reveals its bounds through the positions of its elements in arr;
                # the elements must be arr[lo:hi] exactly (supplied elements, supplied order, contiguous)
                where = {int(v): i for i, v in enumerate(np.asarray(arr).tolist())}
                posn = [where.get(int(v), -1) for v in x.tolist()]
                if -1 in posn:
                    problems.append(f"batch holds elements that are not in the supplied array: {x!r}")
                    posn = [p for p in posn if p >= 0] or [0]
                if posn != list(range(posn[0], posn[0] + len(posn))):
                    problems.append(f"batch is not a contiguous run of the supplied array in the supplied order: positions {posn[:8]}..")
                obs.append((False, int(posn[0]), int(posn[-1]) + 1, int(ident)))
    return obs, problems


def predicate(obs, n_tasks, start, with_arr):
    """The property statement read on the output (independent of the model)."""
    errs = []
    if not obs:
        return ["no batches"]
    cur = start
    for k, (is_idx, lo, hi, ident) in enumerate(obs):
        if is_idx == with_arr:
            errs.append(f"batch {k}: wrong payload kind")
        if lo != cur:
            errs.append(f"batch {k} starts at {lo}, expected {cur} (gap/overlap/order)")
        if hi <= lo:
            errs.append(f"batch {k} empty: [{lo},{hi})")
        if ident != lo:
            errs.append(f"batch {k} carries id {ident}, its start is {lo}")
        cur = hi
    if cur != start + n_tasks:
        errs.append(f"batches end at {cur}, expected {start + n_tasks}")
    return errs


def obs_term(obs):
    return coq_list([f"({coq_bool(a)}, {coq_Z(b)}, {coq_Z(c)}, {coq_Z(d)})" for a, b, c, d in obs])


def run_bt_case(bt, case):
    n_tasks, n_batches, start, with_arr = case["n_tasks"], case["n_batches"], case["start"], case["with_arr"]
    args = ("A", 3)
    arr = np.arange(start + n_tasks + 5) if with_arr else None
    try:
        tasks = bt(n_tasks, n_batches, arr=arr, args=args, start_idx=start)
    except Exception as e:  # the code has no raise on this domain
        return None, [f"raised {type(e).__name__}: {e}"]
    obs, problems = observe(tasks, args, arr)
    problems += predicate(obs, n_tasks, start, with_arr)
    return obs, problems


def gen_cases(ctx):
    cases = [c for c in load_corpus("C16") if c.get("family") == "bt"]
    if ctx.tier == "quick":
        NT, NB, starts = 24, 28, [0, 7]
    else:
        NT, NB, starts = 60, 70, [0, 1, 7, 1103]
    for with_arr in (False, True):
        for start in starts:
            for n_tasks in range(1, NT + 1):
                for n_batches in range(1, NB + 1):
                    cases.append(dict(family="bt", n_tasks=n_tasks, n_batches=n_batches, start=start, with_arr=with_arr))
    # the same (n_tasks, n_batches) again and again, back to back, with changing start indices: a call must not depend on the calls before it
    for n_tasks, n_batches in ((10, 3), (7, 7), (24, 5), (3, 8), (100, 16)):
        for start in (20, 0, 20, 5, 5, 0):
            for with_arr in (False, True):
                cases.append(dict(family="bt", n_tasks=n_tasks, n_batches=n_batches, start=start, with_arr=with_arr))
    rng = rng_for(ctx, 16)
    n_big = 200 if ctx.tier == "quick" else 3000
    for _ in range(n_big):
        nb = int(rng.integers(1, 90))
        kind = rng.integers(0, 4)
        if kind == 0:
            nt = int(rng.integers(1, 10**12))
        elif kind == 1:
            nt = nb * int(rng.integers(1, 10**6)) + int(rng.integers(0, nb))
        elif kind == 2:
            nt = nb + int(rng.integers(-3, 4))
            nt = max(nt, 1)
        else:
            nt = int(rng.integers(1, 3000))
        cases.append(dict(family="bt", n_tasks=nt, n_batches=nb, start=int(rng.integers(0, 10**9)), with_arr=False))
    return cases


def run_worker_cases(ctx):
    """run_worker's choice of n_samples / n_batches, observed through a recording pool."""
    import astropy.units as u
    from thejoker.samples import JokerSamples
    import thejoker.multiproc_helpers as mh

    rng = rng_for(ctx, 17)
    rows = 37
    s = JokerSamples()
    s["P"] = rng.uniform(1, 10, rows) * u.day
    s["e"] = rng.uniform(0, 0.5, rows)
    s["omega"] = rng.uniform(0, 6, rows) * u.rad
    s["M0"] = rng.uniform(0, 6, rows) * u.rad
    s["s"] = np.zeros(rows) * u.km / u.s
    path = os.path.join(ctx.scratch, "rw_prior.hdf5")
    s.write(path, overwrite=True)

    class RecPool:
        def __init__(self, size):
            self.size = size
            self.seen = None

        def map(self, worker, tasks):
            self.seen = list(tasks)
            return [0 for _ in tasks]

    out = []
    combos = []
    for psize in (0, 1, 3):
        for nb in (None, 1, 2, 5, 36, 37, 38, 50):
            for mode in ("all", "nprior", "idx"):
                combos.append((psize, nb, mode))
    for psize, nb, mode in combos:
        pool = RecPool(psize)
        kw = dict(task_args=("F", "H"), n_batches=nb)
        n_prior = idx_len = None
        arr = None
        if mode == "nprior":
            n_prior = int(rng.integers(1, rows + 1))
            kw["n_prior_samples"] = n_prior
        elif mode == "idx":
            idx_len = int(rng.integers(1, rows + 1)) if len(out) % 4 else rows + int(rng.integers(1, 16))
            # a shuffled selection of distinct rows (what randomize_prior_order hands over); every third one the identity; every fourth
            # one LONGER than the cache file has rows (a resample with repeats would be): the batches cover the supplied array, whatever
            # the file holds
            arr = np.arange(idx_len) if len(out) % 3 == 0 else rng.permutation(max(rows, idx_len))[:idx_len]
            kw["samples_idx"] = arr
        with_rng = len(out) % 2 == 1  # every second call hands over a generator: each task then carries a child generator as its last element
        if with_rng:
            kw["rng"] = np.random.default_rng(5)
        case = dict(family="rw", rows=rows, n_prior=n_prior, idx_len=idx_len, n_batches=nb, pool_size=psize, with_rng=with_rng)
        try:
            mh.run_worker(lambda t: 0, pool, path, **kw)
            seen = pool.seen
            extra = []
            if with_rng:
                if not all(isinstance(t, (list, tuple)) and len(t) == 5 and isinstance(t[-1], np.random.Generator) for t in seen):
                    extra.append("with rng, a task does not end in its own numpy Generator")
                elif len({id(t[-1]) for t in seen}) != len(seen):
                    extra.append("with rng, two tasks share one Generator object")
                seen = [tuple(t[:4]) for t in seen]
            obs, problems = observe(seen, ("F", "H"), arr)
            problems = extra + problems
            n_tasks = idx_len if idx_len is not None else (n_prior if n_prior is not None else rows)
            problems += predicate(obs, n_tasks, 0, arr is not None)
        except Exception as e:
            obs, problems = None, [f"raised {type(e).__name__}: {e}"]
        out.append((case, obs, problems))
    return out


def case_term(case, obs):
    return (
        f"({coq_Z(case['n_tasks'])}, {coq_Z(case['n_batches'])}, {coq_Z(case['start'])}, "
        f"{coq_bool(not case['with_arr'])}, @None Z, {obs_term(obs)})"
    )


def rw_term(case, obs):
    o = lambda v: coq_option(v, coq_Z)
    return (
        f"({coq_Z(case['rows'])}, {o(case['n_prior'])}, {o(case['idx_len'])}, {o(case['n_batches'])}, "
        f"{coq_Z(case['pool_size'])}, {obs_term(obs)})"
    )


def run_cases(ctx, cases):
    from thejoker.utils import batch_tasks

    terms, kept = [], []
    nontrivial = set()
    for c in cases:
        obs, problems = run_bt_case(batch_tasks, c)
        if problems:
            ctx.fail("predicate", "C16:batch_tasks", f"batch_tasks({c['n_tasks']}, {c['n_batches']}, start_idx={c['start']}, arr={'given' if c['with_arr'] else None}): " + "; ".join(problems[:3]), case=c, extra={"observed": obs})
        if obs is not None:
            terms.append(case_term(c, obs))
            kept.append(c)
            if c["n_tasks"] % c["n_batches"] != 0 or c["n_batches"] > c["n_tasks"]:
                nontrivial.add((c["n_tasks"], c["n_batches"], c["start"], c["with_arr"]))
    bad = ctx.coq_check_cases("c16_bt", HEADER, terms, "check", shard=350)
    for i in bad:
        c = kept[i]
        ctx.fail("correspondence", "C16:batch_tasks", f"model (generated from source) and implementation disagree on batch_tasks({c['n_tasks']}, {c['n_batches']}, start_idx={c['start']}, arr={'given' if c['with_arr'] else None})", case=c)
    ctx.samples.extend([{"input": kept[i], "coq_case": terms[i][:200]} for i in (0, len(kept) // 2, len(kept) - 1) if kept])
    return len(cases), len(nontrivial)


def run(ctx):
    ctx.make_overlay(need_kernel=True)
    ctx.regen_all(needed=("py2v_batch.py", "py2v_runworker.py"))
    ok_t = ctx.translator_ok["py2v_batch.py"]
    if ok_t:
        ok_t = ctx.build_models(MODELS)
    if ok_t:
        ctx.build_props()
        ctx.build_props("Props/C16g.vo")  # run_worker as generated from the source = the hand model over the generated batch_tasks
    else:
        ctx.obligations += 1
    n_eval = n_nt = 0
    cases = gen_cases(ctx)
    if ok_t:
        try:
            n_eval, n_nt = run_cases(ctx, cases)
        except CoqRunError as e:
            ctx.broken_ties.append("correspondence could not be evaluated: " + str(e)[:500])
            ok_t = False
    if not ok_t:
        # model not available: still search the implementation for a failing input with the predicate
        from thejoker.utils import batch_tasks

        for c in cases:
            obs, problems = run_bt_case(batch_tasks, c)
            n_eval += 1
            if problems:
                ctx.fail("predicate", "C16:batch_tasks", f"batch_tasks({c['n_tasks']}, {c['n_batches']}, start_idx={c['start']}): " + "; ".join(problems[:3]), case=c)
                break
    # run_worker family
    rw = run_worker_cases(ctx)
    terms, kept = [], []
    for case, obs, problems in rw:
        n_eval += 1
        if problems:
            ctx.fail("predicate", "C16:run_worker", f"run_worker {case}: " + "; ".join(problems[:3]), case=case)
        if obs is not None:
            terms.append(rw_term(case, obs))
            kept.append(case)
            n_nt += 1
    if ok_t and terms:
        try:
            for i in ctx.coq_check_cases("c16_rw", HEADER, terms, "check_rw"):
                ctx.fail("correspondence", "C16:run_worker", f"model and implementation disagree on run_worker {kept[i]}", case=kept[i])
        except CoqRunError as e:
            ctx.broken_ties.append("run_worker correspondence could not be evaluated: " + str(e)[:500])
    ctx.coverage.update(evaluations=n_eval, distinct_nontrivial=n_nt)
    return ctx.finish(
        rule="exhaustive grid n_tasks<=%d x n_batches<=%d x start x {index pairs, explicit array} plus random large n_tasks (to 1e12) "
        "and run_worker option combinations; non-trivial = remainder non-zero or n_batches>n_tasks (bt), every run_worker combination"
        % ((24, 28) if ctx.tier == "quick" else (60, 70)),
        assumptions=[
            "Python int arithmetic = Z; list slicing arr[a:b] = firstn (b-a) (skipn a arr) for 0<=a",
            "translator tools/py2v_batch.py + tools/imp2v.py (fail-closed), validated by this run's correspondence",
            "translator tools/py2v_runworker.py (run_worker's statement sequence; fail-closed), validated by the recorded task lists",
        ],
        exhaustive=True,
    )


def replay(ctx, path):
    payload = json.load(open(path))
    case = payload["case"]
    ctx.make_overlay(need_kernel=True)
    if case is None:
        print("replay file has no input (broken obligation only): re-running the full quick check")
        return run(ctx)
    if case.get("family") == "rw":
        return run(ctx)
    ok_t = ctx.regen_all(needed=("py2v_batch.py",))
    ok_t = ok_t and ctx.build_models(MODELS)
    if ok_t:
        run_cases(ctx, [case])
    else:
        from thejoker.utils import batch_tasks

        obs, problems = run_bt_case(batch_tasks, case)
        if problems:
            ctx.fail("predicate", "C16:batch_tasks", "; ".join(problems[:3]), case=case)
    for f in ctx.failures:
        print("REPLAY-FAILS:", f.text)
    if not ctx.failures:
        print("REPLAY-PASSES")
    return 1 if ctx.failures else 0
