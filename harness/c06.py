"""C06 -- reported ln_prior / ln_likelihood stay attached to their own sample.

Same model and drivers as C02 (Model/Reject.v, harness/c02.py) with return_logprobs=True: the
library's ln_prior column is an injective function of the row number and the stub's likelihood
profile is known per row, so attachment is decidable from the output alone.  The iterative sampler
is covered through harness/c14.py's driver (same columns, Model/Iterative.v).
"""
import json

import numpy as np

from common import CoqRunError, load_corpus
import c02
import sampling as S

MODELS = c02.MODELS


def extra_pred(case, obs):
    errs = []
    rows = obs["rows"]
    for name in ("ln_prior", "ln_likelihood"):
        if name not in obs["cols"]:
            errs.append(f"return_logprobs=True but no {name} column")
            continue
        fl = S.col_as_floats(obs["cols"][name])
        if fl is None:
            arr = np.asarray(getattr(obs["cols"][name], "value", obs["cols"][name]))
            errs.append(f"{name} is not a column of plain floats (dtype {arr.dtype}, shape {arr.shape})")
            continue
        if len(fl) != len(rows):
            errs.append(f"{name} has {len(fl)} entries for {len(rows)} rows")
            continue
        if name == "ln_prior":
            want = S.lnprior_of_row(np.asarray(rows, int)).tolist() if rows else []
            if fl != want:
                errs.append(f"ln_prior values {fl[:6]} are not those stored with the rows' prior samples {want[:6]}")
        elif obs["stub"] is not None:
            want = obs["stub"].profile[np.asarray(rows, int)].tolist() if rows else []
            if not np.array_equal(np.array(fl), np.array(want), equal_nan=True):
                errs.append(f"ln_likelihood values {fl[:6]} are not the likelihoods of the rows' own parameters {want[:6]}")
    return errs


def classify(case, msg):
    return "C06:logprobs"


def pool_cases():
    """The real kernel behind a multi-process pool (tasks, helper and data are pickled to the workers), data with an explicit
    reference epoch before the first observation, several batches, shuffled order: every returned row's reported ln_likelihood is
    the marginal likelihood of that row's own parameters, as a serial in-memory sampler computes it for the same data."""
    import warnings

    import astropy.units as u
    import schwimmbad
    import sampling as S
    from astropy.time import Time
    from thejoker.data import RVData
    from thejoker.samples import JokerSamples
    from thejoker.thejoker import TheJoker

    out = []
    r = np.random.default_rng(606)
    t = 55000 + np.sort(np.round(r.uniform(0, 60, 9) * 64) / 64)
    rv = np.round((6 * np.cos(2 * np.pi * t / 3.4375) + r.normal(0, 4, 9)) * 64) / 64
    data = RVData(t, rv * u.km / u.s, np.full(9, 12.0) * u.km / u.s, t_ref=Time(float(t.min()) - 7.25, format="mjd", scale="tcb"))
    lib = S.make_library(48, seed=6, with_lnprior=True, alt_units=True)
    case = dict(family="pool")
    with warnings.catch_warnings():
        warnings.simplefilter("ignore")
        try:
            with schwimmbad.MultiPool(processes=2) as pool:
                res = TheJoker(c02.real_prior(), rng=np.random.default_rng(11), pool=pool).rejection_sample(
                    data, lib, return_logprobs=True, n_linear_samples=1, n_batches=4, randomize_prior_order=True)
            if len(res) < 4:
                return [(case, f"only {len(res)} rows returned: the scenario does not exercise several rows")]
            serial = TheJoker(c02.real_prior(), rng=np.random.default_rng(0))
            for i in range(min(len(res), 12)):
                sub = JokerSamples()
                for nm in ("P", "e", "omega", "M0", "s"):
                    sub[nm] = res[nm][i: i + 1]
                ll_own = float(np.asarray(serial.marginal_ln_likelihood(data, sub, in_memory=True))[0])
                ll_rep = float(np.asarray(res["ln_likelihood"])[i])
                if not abs(ll_own - ll_rep) <= 1e-9 * (1 + abs(ll_own)):
                    out.append((case, f"2-process pool, explicit reference epoch, 4 batches: row {i} reports ln_likelihood {ll_rep!r} but its own nonlinear "
                                f"parameters give {ll_own!r} for these data"))
                    break
        except Exception as e:
            out.append((case, f"2-process pool: raised {type(e).__name__}: {str(e)[:200]}"))
    return out


def run(ctx):
    ctx.make_overlay(need_kernel=True)
    ctx.regen_all(needed=("py2v_reject.py", "py2v_entry.py"))  # Gen/RejectSites.v: the four rejection sites as the source has them now
    ok = ctx.build_models(MODELS + ["Model/Iterative.vo", "Gen/ConstsGen.vo"])
    if ok:
        ctx.build_props()
        ctx.build_props("Props/C06g.vo")  # the generated entry-point routing: ln_prior from the library's own column, cut at the same row as the library
        ctx.build_props("Props/C02g.vo")  # the generated rejection sites (rule, truncation, index spaces, columns) are the model
    cases = load_corpus("C06") + c02.gen_cases(ctx, return_logprobs=True, n_cases=90 if ctx.tier == "quick" else 900)
    n_eval = nt = 0
    try:
        if ok:
            n_eval, nt = c02.run_cases(ctx, cases, prop="C06", extra_pred=extra_pred, classify_fn=classify)
            import c14

            it_cases = c14.gen_cases(ctx, return_logprobs=True, n_cases=40 if ctx.tier == "quick" else 400)
            a, b = c14.run_cases(ctx, it_cases, prop="C06", classify_fn=classify)
            n_eval += a
            nt += b
    except CoqRunError as e:
        ctx.broken_ties.append("correspondence could not be evaluated: " + str(e)[:500])
        ok = False
    if not ok:
        for c in cases[:60]:
            n_eval += 1
            try:
                obs = c02.run_impl(ctx, c)
                errs = c02.predicate(c, obs) + extra_pred(c, obs)
            except Exception as e:
                errs = [f"raised {type(e).__name__}: {e}"]
            if errs:
                ctx.fail("predicate", "C06:logprobs", errs[0], case=c)
                break
    for case, msg in pool_cases():
        ctx.fail("predicate", "C06:pool", msg, case=case)
    n_eval += 1
    ctx.coverage.update(evaluations=n_eval, distinct_nontrivial=nt)
    return ctx.finish(
        rule="as C02 with return_logprobs=True and return_all_logprobs=True (all option combinations x profiles x paths), plus the iterative "
        "sampler with return_logprobs=True; ln_prior of library row i is -3 - i/8 (injective), stub likelihoods known per row. "
        "One real-kernel call behind a 2-process pool (explicit reference epoch, 4 batches, shuffled order) whose reported ln_likelihood is recomputed per row by a serial sampler. Non-trivial = at least one sample accepted and one rejected",
        assumptions=["as C02", "column identity is decided on exact float values"],
        trusted_extra=["Coq-Interval through Base/RealEnc.v (acceptance decisions)", "translator tools/py2v_reject.py (the four rejection sites; fail-closed)"],
    )


def replay(ctx, path):
    payload = json.load(open(path))
    ctx.make_overlay(need_kernel=True)
    case = payload.get("case")
    if case is None or case.get("family") == "pool":
        return run(ctx)
    ctx.regen_all()
    ctx.build_models(MODELS + ["Model/Iterative.vo", "Gen/ConstsGen.vo"])
    if case.get("family") == "iterative":
        import c14

        c14.run_cases(ctx, [case], prop="C06", classify_fn=classify)
    else:
        c02.run_cases(ctx, [case], prop="C06", extra_pred=extra_pred, classify_fn=classify)
    for f in ctx.failures:
        print("REPLAY-FAILS:", f.text)
    if not ctx.failures:
        print("REPLAY-PASSES")
    return 1 if ctx.failures else 0
