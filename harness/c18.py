"""C18 -- only priors and data that satisfy the sampler's assumptions are accepted.

Model: coq/Model/Validate.v (the validators' decision procedure), theorems Props/C18.v (accept set =
well-formed set).  Tie: exact correspondence on a SYSTEMATIC grid: every single perturbation of a
valid configuration (omit / strip unit / wrong dimension / each non-Normal family, for each
parameter, poly_trend 1..3, 0..2 offsets), sampled double perturbations, every data/prior count
pair, covariance data, non-RVData sources, bad TheJoker arguments.
"""
import json
import re
import warnings

import numpy as np

from common import CoqRunError, coq_bool, coq_list, load_corpus, rng_for

MODELS = ["Base/Corr.vo", "Model/Validate.vo"]

HEADER = """From Coq Require Import List Bool Arith.
From TJ Require Import Base.Corr Model.Validate.
Import ListNotations.
Definition D (n : nat) (u : bool) (d : dim) (k : kind) := mk_decl n u d k.
Definition check (c : list decl * nat * nat * vres) : bool :=
  let '(decls, poly, noff, obs) := c in vres_matches (validate_prior decls poly noff) obs.
Definition check_data (c : data_in * nat * dres) : bool :=
  let '(d, noff, obs) := c in dres_eqb (validate_data d noff) obs.
"""


def name_num(n):
    base = {"P": 0, "e": 1, "omega": 2, "M0": 3, "s": 4, "K": 5}
    if n in base:
        return base[n]
    if re.fullmatch(r"v\d+", n):
        return 10 + int(n[1:])
    m = re.fullmatch(r"dv0_(\d+)", n)
    if m:
        return 100 + int(m.group(1))
    return 999


def req_dim(n):
    if n == "P":
        return "time"
    if n == "e":
        return "one"
    if n in ("omega", "M0"):
        return "angle"
    if re.fullmatch(r"v\d+", n):
        return f"vel/t{int(n[1:])}"
    return "vel"


def par_list(poly, noff):
    return ["P", "e", "omega", "M0", "s", "K"] + [f"v{i}" for i in range(poly)] + [f"dv0_{i}" for i in range(1, noff + 1)]


def is_linear(n):
    return n == "K" or re.fullmatch(r"v\d+", n) or n.startswith("dv0_")


def unit_for(dim, variant=0):
    import astropy.units as u

    tbl = {"time": [u.day, u.yr, u.hour], "one": [u.one], "angle": [u.rad, u.deg], "vel": [u.km / u.s, u.m / u.s, u.pc / u.Myr],
           "other": [u.kg], "velrad": [u.km / u.s * u.rad, u.m / u.s * u.deg]}
    if dim.startswith("vel/t"):
        i = int(dim[5:])
        return [u.km / u.s / u.day**i, u.m / u.s / u.yr**i][variant % 2] if i > 0 else tbl["vel"][variant % 3]
    return tbl[dim][variant % len(tbl[dim])]


def wrong_dim(dim):
    return {"time": "vel", "one": "time", "angle": "time", "vel": "time"}.get(dim, "vel" if dim != "vel/t0" else "time")


def wrong_dim2(dim):
    """a second wrong dimension, differing from the required one only by an angle factor (angles are not plain numbers here:
    an eccentricity in degrees or an argument of pericentre without unit does not convert to the canonical unit)"""
    return {"time": "other", "one": "angle", "angle": "one"}.get(dim, "velrad")


def dim_term(dim):
    if dim.startswith("vel/t"):
        return f"(DVelPerTime {int(dim[5:])})"
    return {"time": "DTime", "one": "DOne", "angle": "DAngle", "vel": "DVel", "other": "DOtherDim", "velrad": "DOtherDim"}[dim]


NO_OWNER = ("constant", "shared")  # tensors that are not the output of any op: not random variables at all
FAMILY_KIND = {"constant": "KNotRandom", "shared": "KNotRandom", "normal": "KNormal", "fcm": "KFixedCompanionMass", "uniform": "KOtherRandom", "halfnormal": "KOtherRandom", "studentt": "KOtherRandom",
               "beta": "KOtherRandom", "uniformlog": "KOtherRandom", "deterministic": "KNotRandom"}


def default_family(n):
    return {"P": "uniformlog", "e": "beta", "omega": "uniform", "M0": "uniform", "s": "deterministic", "K": "fcm"}.get(n, "normal")


def valid_config(poly, noff, variant=0):
    cfg = {}
    for k, n in enumerate(par_list(poly, noff)):
        cfg[n] = dict(present=True, has_unit=True, dim=req_dim(n), family=default_family(n), uvar=variant + k)
    return cfg


def build_prior(cfg, poly, noff):
    """Construct the pymc variables of a configuration and call JokerPrior; returns observed verdict."""
    import astropy.units as u
    import pymc as pm
    import pytensor.tensor as pt
    import thejoker.units as xu
    from thejoker.distributions import FixedCompanionMass, UniformLog
    from thejoker.prior import JokerPrior

    with warnings.catch_warnings():
        warnings.simplefilter("ignore")
        with pm.Model():
            made = {}
            order = [n for n in cfg if n != "K"] + (["K"] if "K" in cfg else [])
            for n in order:
                c = cfg[n]
                if not c["present"]:
                    continue
                fam = c["family"]
                if fam == "fcm" and not ("P" in made and "e" in made):
                    fam = "normal"
                    c["family"] = "normal"
                if fam == "normal":
                    v = pm.Normal(n, 0.5, 3.0)
                elif fam == "fcm":
                    try:
                        v = FixedCompanionMass(n, P=made["P"], e=made["e"], sigma_K0=30 * u.km / u.s, P0=1 * u.yr)
                    except Exception:
                        # the default K prior cannot even be built on a malformed P (e.g. P declared in km/s): use a plain Normal
                        c["family"] = "normal"
                        v = pm.Normal(n, 0.5, 3.0)
                elif fam == "uniform":
                    v = pm.Uniform(n, 0.0, 6.0)
                elif fam == "halfnormal":
                    v = pm.HalfNormal(n, 4.0)
                elif fam == "studentt":
                    v = pm.StudentT(n, nu=3, mu=0, sigma=2)
                elif fam == "beta":
                    v = pm.Beta(n, 1.0, 3.0)
                elif fam == "uniformlog":
                    v = UniformLog(n, 1.0, 100.0)
                elif fam == "deterministic":
                    v = pm.Deterministic(n, pt.constant(0.25))
                elif fam == "constant":
                    v = pt.constant(5.0, name=n)
                elif fam == "shared":
                    import pytensor

                    v = pytensor.shared(0.25, name=n)
                else:
                    raise ValueError(fam)
                if c["has_unit"]:
                    v = xu.with_unit(v, unit_for(c["dim"], c["uvar"]))
                made[n] = v
            pars = {n: v for n, v in made.items() if not n.startswith("dv0_")}
            offs = [made[n] for n in made if n.startswith("dv0_")]
            try:
                # offsets whose prior was omitted are simply not passed: n_offsets (the prior's own count) follows the list
                pr = JokerPrior(pars=pars, poly_trend=poly, v0_offsets=offs)
                return ("ok", list(pr.par_names), pr.n_offsets)
            except Exception as e:
                return ("err", type(e).__name__, str(e))


def map_exc(tname, msg):
    m = re.search(r"Missing prior for parameter '([^']+)'", msg)
    if m:
        return f"(VErr (EMissing {name_num(m.group(1))}))"
    m = re.search(r"Parameter '([^']+)' does not have associated units", msg)
    if m:
        return f"(VErr (ENoUnit {name_num(m.group(1))}))"
    m = re.search(r"Parameter '([^']+)' has an invalid unit", msg)
    if m:
        return f"(VErr (EBadUnit {name_num(m.group(1))}))"
    m = re.search(r"must be independent Normal distributions.*\(for\s+([A-Za-z0-9_]+)\)", msg, flags=re.S)
    if m:
        return f"(VErr (ENotNormal {name_num(m.group(1))}))"
    if tname == "AttributeError" and "_print_name" in msg:
        return "(VErr (ENotNormal 999))"
    m = re.search(r"Invalid type for prior on linear parameter ([A-Za-z0-9_]+)", msg)
    if m:
        return f"(VErr (ENotNormal {name_num(m.group(1))}))"
    return None


def gen_configs(ctx):
    rng = rng_for(ctx, 18)
    cfgs = []
    polys = (1, 2, 3)
    for poly in polys:
        for noff in (0, 1, 2):
            names = par_list(poly, noff)
            cfgs.append((valid_config(poly, noff, 0), poly, noff, "valid"))
            cfgs.append((valid_config(poly, noff, 1), poly, noff, "valid-other-units"))
            perts = []
            for n in names:
                perts.append((n, "omit"))
                perts.append((n, "nounit"))
                perts.append((n, "wrongdim"))
                perts.append((n, "wrongdim2"))
                if is_linear(n):
                    for fam in ("uniform", "halfnormal", "studentt", "deterministic", "constant", "shared"):
                        perts.append((n, "fam:" + fam))
                    if n != "K":
                        pass
                else:
                    perts.append((n, "fam:normal"))  # any family is fine for a nonlinear parameter
            for p in perts:
                cfgs.append((apply_perts(valid_config(poly, noff, int(rng.integers(0, 6))), [p]), poly, noff, f"{p[0]}:{p[1]}"))
            n_double = 12 if ctx.tier == "quick" else 120
            for _ in range(n_double):
                i, j = rng.choice(len(perts), 2, replace=False)
                if perts[i][0] == perts[j][0]:
                    continue
                cfgs.append((apply_perts(valid_config(poly, noff, int(rng.integers(0, 6))), [perts[i], perts[j]]), poly, noff,
                             f"{perts[i][0]}:{perts[i][1]}+{perts[j][0]}:{perts[j][1]}"))
    return cfgs


def apply_perts(cfg, perts):
    for n, what in perts:
        c = cfg[n]
        if what == "omit":
            c["present"] = False
        elif what == "nounit":
            c["has_unit"] = False
        elif what == "wrongdim":
            c["dim"] = wrong_dim(c["dim"])
        elif what == "wrongdim2":
            c["dim"] = wrong_dim2(c["dim"])
        elif what.startswith("fam:"):
            c["family"] = what[4:]
    return cfg


def cfg_term(cfg, poly, noff_effective):
    ds = []
    for n, c in cfg.items():
        if c["present"]:
            ds.append(f"D {name_num(n)} {coq_bool(c['has_unit'])} {dim_term(c['dim'])} {FAMILY_KIND[c['family']]}")
    return coq_list(ds)


def run_prior_cases(ctx, cfgs):
    terms, kept = [], []
    nt = 0
    for cfg, poly, noff, label in cfgs:
        res = build_prior(cfg, poly, noff)
        # the prior's own offset count is the number of offset variables actually passed
        noff_eff = sum(1 for n, c in cfg.items() if n.startswith("dv0_") and c["present"])
        case = dict(family="prior", poly=poly, noff=noff, label=label)
        wellformed = all(c["present"] and c["has_unit"] and c["dim"] == req_dim(n) and (not is_linear(n) or c["family"] in ("normal", "fcm"))
                         for n, c in cfg.items() if not (n.startswith("dv0_") and not c["present"]))
        # an omitted offset with a later one present leaves a gap in the names dv0_1..dv0_k
        present_offs = sorted(int(n[4:]) for n, c in cfg.items() if n.startswith("dv0_") and c["present"])
        if present_offs != list(range(1, len(present_offs) + 1)):
            wellformed = False
        if res[0] == "ok":
            obs = "VOk"
            if not wellformed:
                ctx.fail("predicate", "C18:prior", f"malformed prior accepted ({label}, poly_trend={poly}, offsets={noff})", case=case)
            exp_names = par_list(poly, noff_eff)
            if res[1] != exp_names:
                ctx.fail("predicate", "C18:prior", f"par_names {res[1]} not in the order nonlinear, linear, offsets {exp_names}", case=case)
        elif any(c["present"] and c["family"] in NO_OWNER for c in cfg.values()):
            # a bare constant / shared variable in place of a prior is refused while the prior is inspected (the pinned code fails on the
            # missing owner before it can name the parameter): the rejection itself is what the property asks for; no model term
            nt += 1
            continue
        else:
            obs = map_exc(res[1], res[2])
            if wellformed:
                ctx.fail("predicate", "C18:prior", f"well-formed prior rejected ({label}): {res[1]}: {res[2][:120]}", case=case)
            if obs is None:
                ctx.fail("predicate", "C18:prior", f"unrecognised rejection {res[1]}: {res[2][:120]} ({label})", case=case)
                continue
        terms.append(f"({cfg_term(cfg, poly, noff_eff)}, {poly}, {noff_eff}, {obs})")
        kept.append(case)
        nt += label != "valid"
    return terms, kept, nt


def data_cases(ctx):
    """TheJoker(prior).marginal_ln_likelihood on every (sources, offsets) combination."""
    import astropy.units as u
    import sampling as S
    from thejoker.data import RVData
    from thejoker.thejoker import TheJoker

    lib = S.make_library(3, seed=1, with_lnprior=False)
    mk = lambda o: RVData(np.array([55000.0, 55010.5, 55031.25]) + 100 * o, np.array([1.0, -2.0, 0.5]) * u.km / u.s, np.array([0.5, 0.25, 0.5]) * u.km / u.s)
    cov = RVData(np.array([56000.0, 56010.5]), np.array([1.0, -2.0]) * u.km / u.s, np.array([[0.5, 0.1], [0.1, 0.25]]) * (u.km / u.s) ** 2)
    out = []
    priors = {}
    for noff in (0, 1, 2):
        res = build_prior(valid_config(1, noff, 0), 1, noff)
        assert res[0] == "ok"
    import pymc as pm
    import thejoker.units as xu
    from thejoker.prior import JokerPrior

    for noff in (0, 1, 2):
        with warnings.catch_warnings():
            warnings.simplefilter("ignore")
            with pm.Model():
                offs = [xu.with_unit(pm.Normal(f"dv0_{i}", 0, 5), u.km / u.s) for i in range(1, noff + 1)]
                priors[noff] = JokerPrior.default(P_min=1 * u.day, P_max=100 * u.day, sigma_K0=30 * u.km / u.s, sigma_v=50 * u.km / u.s, v0_offsets=offs)
                # the caller goes on using its own list: the prior that was validated keeps the offsets it was validated with
                offs.append(xu.with_unit(pm.Normal(f"dv0_{noff + 1}", 0, 5), u.km / u.s))
        names_now = [nm for nm in priors[noff].par_names if nm.startswith("dv0_")]
        if priors[noff].n_offsets != noff or len(names_now) != noff:
            ctx.fail("predicate", "C18:data", f"after the caller appended to its own list of offset variables, the prior validated with {noff} offsets "
                     f"reports n_offsets={priors[noff].n_offsets} (offset names {names_now})", case=dict(family="data", noff=noff, aliased=True))
    shapes = []
    shapes.append(("Single (SrcRV false)", lambda: mk(0)))
    shapes.append(("Single (SrcRV true)", lambda: cov))
    shapes.append(("Single SrcOther", lambda: 12.5))
    for k in (1, 2, 3):
        shapes.append((f"Many {coq_list(['SrcRV false'] * k)}", lambda k=k: [mk(i) for i in range(k)]))
        shapes.append((f"Many {coq_list(['SrcRV false'] * k)}", lambda k=k: {f"s{i}": mk(i) for i in range(k)}))
        if k > 1:
            # string keys of different lengths where one is a prefix of a later one (sources must stay distinct)
            shapes.append((f"Many {coq_list(['SrcRV false'] * k)}", lambda k=k: {["s2", "s21", "s212"][i]: mk(i) for i in range(k)}))
            shapes.append((f"Many {coq_list(['SrcRV false'] * k)}", lambda k=k: {["apogee", "apogee-dr17", "ap"][i]: mk(i) for i in range(k)}))
    shapes.append(("Many [SrcRV false; SrcRV true]", lambda: [mk(0), cov]))
    shapes.append(("Many [SrcRV true; SrcRV false]", lambda: [cov, mk(0)]))
    shapes.append(("Many [SrcRV false; SrcOther]", lambda: [mk(0), "not data"]))
    shapes.append(("Many [SrcOther; SrcRV false; SrcRV false]", lambda: [3, mk(0), mk(1)]))
    # every (shape, offsets) combination on a fresh sampler, and -- for list / dict shapes -- on a sampler that has just processed a
    # valid call with the SAME container object, which is then changed in place into the shape: validation happens at every call
    runs = []
    for dterm, make in shapes:
        for noff in (0, 1, 2):
            runs.append((dterm, make, noff, False))
            if noff >= 1 and isinstance(make(), (list, dict)):
                runs.append((dterm, make, noff, True))
    for dterm, make, noff, warm in runs:
        if True:
            joker = TheJoker(priors[noff], rng=np.random.default_rng(0))
            case = dict(family="data", data=dterm, noff=noff, after_valid_call_with_same_container=warm)
            target = make()
            if warm:
                valid = [mk(i) for i in range(noff + 1)]
                box = list(valid) if isinstance(target, list) else {f"v{i}": d_ for i, d_ in enumerate(valid)}
                with warnings.catch_warnings():
                    warnings.simplefilter("ignore")
                    joker.marginal_ln_likelihood(box, lib, in_memory=True)
                if isinstance(box, list):
                    box[:] = target
                else:
                    box.clear()
                    box.update(target)
                target = box
            try:
                with warnings.catch_warnings():
                    warnings.simplefilter("ignore")
                    ll = joker.marginal_ln_likelihood(target, lib, in_memory=True)
                obs = "DOk"
                if not np.all(np.isfinite(ll)):
                    ctx.fail("predicate", "C18:data", f"accepted data gave non-finite likelihoods ({dterm}, offsets={noff})", case=case)
            except NotImplementedError:
                obs = "(DErr DCovUnsupported)"
            except TypeError as e:
                obs = "(DErr DNotRVData)"
            except ValueError as e:
                m = str(e)
                obs = ("(DErr DNeedMultiple)" if "must pass in multiple data sources" in m else "(DErr DCountMismatch)" if "Number of data IDs" in m
                       else "(DErr DCovUnsupported)" if "Buffer has wrong number of dimensions" in m else f"ERR ValueError {m[:80]}")
            except Exception as e:
                obs = f"ERR {type(e).__name__} {str(e)[:80]}"
            if obs.startswith("ERR"):
                ctx.fail("predicate", "C18:data", f"unexpected failure for {dterm} with {noff} offsets: {obs}", case=case)
                continue
            out.append((f"({dterm}, {noff}, {obs})", case))
    # TheJoker argument checks
    for label, kw, exc in (("pool without map/close", dict(pool=object()), TypeError), ("rng not a Generator", dict(rng=np.random.RandomState(1)), TypeError),
                           ("prior not a JokerPrior", None, TypeError)):
        try:
            if kw is None:
                TheJoker({"P": 1})
            else:
                TheJoker(priors[0], **kw)
            ctx.fail("predicate", "C18:init", f"TheJoker accepted {label}", case=dict(family="init", what=label))
        except exc:
            pass
        except Exception as e:
            ctx.fail("predicate", "C18:init", f"TheJoker({label}) raised {type(e).__name__} instead of {exc.__name__}", case=dict(family="init", what=label))
    return out


def history_prelude():
    """What a session does before it builds another prior: the public, read-only operations on a samples table (time of phase,
    t0, wrap_K, pack, selections, reductions).  Which priors are accepted afterwards must not depend on it."""
    import warnings

    import astropy.units as u
    from astropy.time import Time
    from thejoker.samples import JokerSamples

    with warnings.catch_warnings():
        warnings.simplefilter("ignore")
        s = JokerSamples(t_ref=Time(55000.0, format="mjd", scale="tcb"))
        s["P"] = np.array([3.5, 7.25, 11.0]) * u.day
        s["e"] = np.array([0.1, 0.2, 0.3]) * u.one
        s["omega"] = np.array([10.0, 200.0, 300.0]) * u.deg
        s["M0"] = np.array([0.5, 1.5, 2.5]) * u.rad
        s["K"] = np.array([1.0, -2.0, 3.0]) * u.km / u.s
        s["v0"] = np.array([0.0, 1.0, 2.0]) * u.km / u.s
        try:
            s.get_t0()
            s.get_time_with_phase(phase=90 * u.deg)
            s.copy().wrap_K()
            s.pack()
            s[1:].mean()
            s.median_period()
        except Exception:
            pass  # their own behaviour is C17's subject


def run(ctx):
    ctx.make_overlay(need_kernel=True)
    ctx.regen_all(needed=("py2v_prior.py",))  # Gen/PriorGen.v: JokerPrior.__init__'s validation loops and par_names as the source has them now
    ok = ctx.build_models(MODELS)
    if ok:
        ctx.build_props()
        ctx.build_props("Props/C18g.vo")  # the generated loops are the model: exact accept set, parameter order
    history_prelude()
    cfgs = gen_configs(ctx)
    terms, kept, nt = run_prior_cases(ctx, cfgs)
    dc = data_cases(ctx)
    if ok:
        try:
            for i in ctx.coq_check_cases("c18", HEADER, terms, "check", shard=300):
                ctx.fail("correspondence", "C18:prior", f"model (validate_prior) and JokerPrior disagree on {kept[i]}: {terms[i][:300]}", case=kept[i])
            for i in ctx.coq_check_cases("c18d", HEADER, [t for t, _ in dc], "check_data", shard=300):
                ctx.fail("correspondence", "C18:data", f"model (validate_data) and the sampler disagree on {dc[i][1]}: {dc[i][0]}", case=dc[i][1])
        except CoqRunError as e:
            ctx.broken_ties.append("correspondence could not be evaluated: " + str(e)[:500])
    ctx.samples.append({"input": kept[5], "coq_case": terms[5]})
    ctx.samples.append({"input": dc[4][1], "coq_case": dc[4][0]})
    ctx.coverage.update(evaluations=len(cfgs) + len(dc) + 3, distinct_nontrivial=nt + len(dc))
    return ctx.finish(
        rule="systematic grid: poly_trend 1..3 x offsets 0..2 x {valid (two unit systems), every single perturbation (omit / strip unit / wrong dimension for "
        "each parameter; Uniform, HalfNormal, StudentT, Deterministic for each linear and offset parameter; Normal on each nonlinear parameter = still "
        "valid), sampled double perturbations}; data: single / list / dict of 1..3 sources, covariance source first or second, non-RVData entries, x "
        "offsets 0..2 through TheJoker.marginal_ln_likelihood; TheJoker argument checks. Non-trivial = any perturbed configuration",
        assumptions=["exceptions are mapped to (check class, parameter named in the message); an AttributeError on a non-random linear prior counts as "
                     "'not Normal' without a name", "pymc/pytensor construct the distributions as declared"],
        exhaustive=True,
    )


def replay(ctx, path):
    return run(ctx)
