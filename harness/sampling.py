"""Shared drivers for the sampling properties (C02, C06, C14, C05, C10, C13).

* RecGen -- a numpy Generator subclass that records uniform / choice / multivariate_normal calls
  (the public API accepts any Generator instance).
* make_library -- a prior-sample library whose period column identifies the row (P_i = 2 + i/256 d,
  exact) and whose ln_prior column is an injective function of the row number.
* StubHelper -- a duck-typed stand-in for CJokerHelper returning a *prescribed* likelihood per
  library row: the only way to reach exact ties, flat profiles, single spikes, -inf / NaN entries on
  demand.  Lives here, nothing in /repo changes; the sampler functions are called exactly as
  TheJoker calls them.
"""
import numpy as np


class RecGen(np.random.Generator):
    """Generator that records the draws the sampler takes from it."""

    def __init__(self, seed):
        super().__init__(np.random.PCG64(seed))
        self.log = []

    def uniform(self, *a, **k):
        r = super().uniform(*a, **k)
        self.log.append(("uniform", {"size": k.get("size", a[2] if len(a) > 2 else None)}, np.array(r, copy=True)))
        return r

    def choice(self, a, size=None, replace=True, p=None, **k):
        r = super().choice(a, size=size, replace=replace, p=p, **k)
        self.log.append(("choice", {"a": a if np.isscalar(a) else len(a), "size": size, "replace": replace}, np.array(r, copy=True)))
        return r

    def multivariate_normal(self, mean, cov, size=None, **k):
        r = super().multivariate_normal(mean, cov, size=size, **k)
        self.log.append(("mvn", {"mean": np.array(mean, copy=True), "cov": np.array(cov, copy=True), "size": size}, np.array(r, copy=True)))
        return r

    def calls(self, kind):
        return [(meta, val) for k, meta, val in self.log if k == kind]


def row_P(i):
    return 2.0 + np.asarray(i, dtype=float) / 256.0


def P_row(P):
    return np.rint((np.asarray(P, dtype=float) - 2.0) * 256.0).astype(int)


def lnprior_of_row(i):
    return -3.0 - np.asarray(i, dtype=float) / 8.0


def make_library(n, seed=0, with_lnprior=True, s_value=0.0, alt_units=False):
    """alt_units: jitter non-zero and in m/s, angles in degrees (none of them the kernel's internal unit):
    the values returned must still be the library's values as physical quantities."""
    import astropy.units as u
    from thejoker.samples import JokerSamples

    r = np.random.default_rng(seed)
    lib = JokerSamples()
    lib["P"] = row_P(np.arange(n)) * u.day
    lib["e"] = np.round(r.uniform(0, 0.6, n) * 1024) / 1024 * u.one
    if alt_units:
        lib["omega"] = np.round(r.uniform(0, 350, n) * 16) / 16 * u.deg
        lib["M0"] = np.round(r.uniform(0, 350, n) * 16) / 16 * u.deg
        lib["s"] = np.round(r.uniform(1, 900, n) * 4) / 4 * u.m / u.s
    else:
        lib["omega"] = np.round(r.uniform(0, 6, n) * 1024) / 1024 * u.rad
        lib["M0"] = np.round(r.uniform(0, 6, n) * 1024) / 1024 * u.rad
        lib["s"] = np.full(n, s_value) * u.km / u.s
    if with_lnprior:
        lib["ln_prior"] = lnprior_of_row(np.arange(n))
    return lib


class _Obj:
    pass


class StubHelper:
    """Duck-typed CJokerHelper with a prescribed likelihood profile (by library row)."""

    def __init__(self, profile):
        import astropy.units as u
        from astropy.time import Time

        self.profile = np.asarray(profile, dtype=float)
        self.packed_order = ["P", "e", "omega", "M0", "s"]
        self.internal_units = {"P": u.day, "e": u.one, "omega": u.rad, "M0": u.rad, "s": u.km / u.s, "K": u.km / u.s, "v0": u.km / u.s}
        self.data = _Obj()
        self.data.t_ref = Time(55000.0, format="mjd", scale="tcb")
        self.prior = _Obj()
        self.prior.poly_trend = 1
        self.prior.n_offsets = 0
        self.evaluated = []  # library rows in the order their likelihood was requested
        self.posterior_rows = []

    def batch_marginal_ln_likelihood(self, batch):
        idx = P_row(np.asarray(batch)[:, 0])
        self.evaluated.extend(idx.tolist())
        return self.profile[idx]

    def batch_get_posterior_samples(self, batch, n_linear, rng):
        batch = np.asarray(batch)
        idx = P_row(batch[:, 0]) if len(batch) else np.zeros(0, int)
        self.posterior_rows.extend(idx.tolist())
        out = np.zeros((len(batch) * n_linear, 7))
        ll = np.zeros(len(batch) * n_linear)
        for n in range(len(batch)):
            lin = rng.multivariate_normal(np.array([float(idx[n]), 0.0]), np.eye(2), size=n_linear)
            for j in range(n_linear):
                out[n * n_linear + j, :5] = batch[n, :5]
                out[n * n_linear + j, 5:] = lin[j]
                ll[n * n_linear + j] = self.profile[idx[n]]
        return out, ll


def profile(kind, n, rng):
    """Likelihood profiles the property quantifies over (values are dyadic, so differences are exact)."""
    q = lambda x: np.round(np.asarray(x, float) * 64) / 64
    if kind == "flat":
        return np.full(n, float(q(rng.normal(-20, 5))))
    if kind == "spike":
        p = np.full(n, -1000.0)
        p[int(rng.integers(0, n))] = -3.5
        return p
    if kind == "ties":
        p = q(rng.normal(-30, 4, n))
        m = p.max() + 1.0
        for i in rng.choice(n, size=min(n, int(rng.integers(2, 5))), replace=False):
            p[i] = m
        return p
    if kind == "ninf":
        p = q(rng.normal(-10, 2, n))
        k = int(rng.integers(1, max(2, n)))
        for i in rng.choice(n, size=min(n - 1, k), replace=False) if n > 1 else []:
            p[i] = -np.inf
        return p
    if kind == "wide":
        return q(rng.normal(-50, 30, n))
    if kind == "narrow":
        return q(rng.normal(-5, 0.7, n))
    if kind == "deep":  # many epochs / an unfavourable velocity unit: every ln-likelihood far below the exp() range of a double
        return q(rng.normal(-5000, 2, n))
    if kind == "high":  # ... or far above it
        return q(rng.normal(2000, 2, n))
    raise ValueError(kind)


def observe_rows(samples):
    """library row of every returned row (from its period), plus the optional log-prob columns as raw python objects"""
    import astropy.units as u

    rows = P_row(samples["P"].to_value(u.day)).tolist() if len(samples) else []
    cols = {}
    for name in ("ln_prior", "ln_likelihood"):
        if name in samples.par_names:
            cols[name] = samples[name]
    return rows, cols


def col_as_floats(col):
    """A log-probability column as plain float64 scalars, or None if it is not (e.g. structured rows)."""
    arr = np.asarray(getattr(col, "value", col))
    if arr.dtype.kind != "f" or arr.ndim != 1:
        return None
    return arr.astype(float).tolist()
