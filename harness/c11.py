"""C11 -- MCMC continuation targets the same model and posterior as the sampler.

Ties: theorems Props/C11.v (mean anomaly of the orbit object = the sampler's convention whatever its internal reference
anomaly, RV form = the kernel's, stored ln_prior is the prior part iff ln_likelihood is the data term, jitter = added
variance, median sample is a member); correspondence (Model/KernelRun.v check_mcmc, evaluated by Coq on exact inputs):
the pymc model that setup_mcmc assembles is evaluated at the returned initial point and at a second parameter point:
  bit 0  model_rv = the sampler's design-matrix model M x (K column from twobody at the sampler's phase / reference-epoch
         convention, trend_M with offsets and polynomial terms)
  bit 1  the ln_likelihood deterministic = sum ln N(y | M x, sigma^2 + s^2)
  bit 2  the log-density term of the observed variable `obs` (what model.logp adds to the priors) = that same data term
Predicate (python): the same three, plus mcmc_init = the chosen sample (median-period one when several) in prior units.
"""
import json
import math
import warnings

import numpy as np

from common import CoqRunError, coq_Q, coq_list, load_corpus, rng_for
import kernelcase as K
from c01 import HEADER, kernel_setup
from c03 import lin_names

SIG = "C11:mcmc"


def gen_cases(ctx, n=None):
    rng = rng_for(ctx, 11)
    n = n or (8 if ctx.tier == "quick" else 40)
    out = []
    for k in range(n):
        spec = K.gen_spec(rng, n_max=6, tier=ctx.tier, full_frac=0.0)
        spec["s_prior"] = ["const", "sampled", None][k % 3]
        if spec["s_prior"] is None:
            spec["theta"]["s"] = 0.0
        elif spec["theta"]["s"] == 0.0:
            spec["theta"]["s"] = 0.75 * (1.0 if spec["data_unit"] == "km/s" else 1000.0)
        if k % 2 == 0:  # uncertainties handed over in another unit than the velocities
            spec["err_unit"] = "m/s" if spec["data_unit"] == "km/s" else "km/s"
        if k % 4 == 1:
            # the default K prior declared in m/s, wide enough that the unconverted cap (500 km/s) would matter if it were read in m/s
            spec["kprior"] = "default"
            spec["lin"][0]["mu"] = 0.0
            sk = spec["sigma_K0"]
            if sk[1] == "km/s":
                spec["sigma_K0"] = (sk[0] * 1000.0, "m/s")
        if k % 4 == 3 and spec["n_off"] == 0:
            # an explicit reference epoch inside the time span: the orbit's phase and the trend count time from it, not from the first epoch
            spec["t_ref"] = float(min(spec["surveys"][0]["t"]) + 17.25)
            spec.pop("t_ref_scale", None)
        spec["n_samples"] = [1, 4, 5][int(rng.integers(0, 3))]
        spec["pt_seed"] = int(rng.integers(0, 2**31))
        out.append(spec)
    return out


def prior_unit(prior, name):
    import thejoker.units as xu

    return getattr(prior.pars[name], xu.UNIT_ATTR_NAME)


def observe(spec):
    import astropy.units as u
    from thejoker.samples import JokerSamples
    from thejoker.data_helpers import validate_prepare_data
    from thejoker.thejoker import TheJoker

    data, prior, _ = K.build_problem(spec)
    if isinstance(data, list) and spec.get("pt_seed", 0) % 3 != 0:
        # multi-survey data handed over as a dict (named surveys, or integer labels that are not 0..n): same surveys, same order
        keys = (["alpha", "beta", "gamma", "delta"] if spec["pt_seed"] % 3 == 1 else [10, 20, 30, 40])[: len(data)]
        data = dict(zip(keys, data))
    du = u.Unit(spec["data_unit"])
    r = np.random.default_rng(spec["pt_seed"])
    names = lin_names(spec)
    all_data, ids, trend_M = validate_prepare_data(data, prior.poly_trend, prior.n_offsets)
    # hand-built posterior-like samples, in kernel units (day, rad, data unit)
    m = spec["n_samples"]
    smp = JokerSamples(poly_trend=spec["n_poly"], n_offsets=spec["n_off"], t_ref=all_data.t_ref)
    Ps = np.round(np.exp(r.uniform(np.log(2), np.log(300), m)) * 256) / 256
    if m > 1:
        Ps[1] = Ps[0]  # a tie in period
    smp["P"] = Ps * u.day
    smp["e"] = np.round(r.uniform(0.02, 0.8, m) * 256) / 256 * u.one
    smp["omega"] = np.round(r.uniform(0.1, 6, m) * 256) / 256 * u.rad
    smp["M0"] = np.round(r.uniform(0.1, 6, m) * 256) / 256 * u.rad
    smp["s"] = np.full(m, spec["theta"]["s"]) * du
    sc = 1.0 if spec["data_unit"] == "km/s" else 1000.0
    for nm in names:
        pw = K.lin_power(nm)
        smp[nm] = np.round(r.normal(0, 8 if pw == 0 else 0.05, m) * 256) / 256 * sc * du / u.day**pw
    joker = TheJoker(prior, rng=np.random.default_rng(1))
    model = prior.model
    with warnings.catch_warnings():
        warnings.simplefilter("ignore")
        init = joker.setup_mcmc(data, smp, model=model)
        p = prior.pars
        import pymc as pm
        import pytensor

        # everything is evaluated as a function of the model's random variables themselves (physical values in the prior's units):
        # the model_rv and ln_likelihood deterministics, and the observed variable's own log-density term of the model
        y_obs = np.asarray(all_data.rv.value, float)
        rv_names = [v.name for v in model.free_RVs]
        outs = [model["model_rv"], model["ln_likelihood"], pm.logp(model["obs"], y_obs).sum()]
        fn = pytensor.function([p[nm] for nm in rv_names], outs, on_unused_input="ignore")
        # the prior the MCMC model puts on K, as a function of (K; P, e): must be the one the sampler marginalised against
        k_logp_fn = None
        if spec["kprior"] == "default" and "K" in rv_names:
            import pytensor.tensor as pt_

            kv = pt_.dscalar("kv")
            k_logp_fn = pytensor.function([kv, p["P"], p["e"]], pm.logp(p["K"], kv), on_unused_input="ignore")
        # the prior the MCMC model puts on P: the declared log-uniform density on [1 d, 20000 d] (in the prior's unit), nothing outside
        p_logp = None
        if "P" in rv_names:
            import pytensor.tensor as pt_

            pv = pt_.dscalar("pv")
            p_logp_fn = pytensor.function([pv], pm.logp(p["P"], pv), on_unused_input="ignore")
            Pu_ = prior_unit(prior, "P")
            lo_, hi_ = (1 * u.day).to_value(Pu_), (20000 * u.day).to_value(Pu_)
            p_logp = []
            for x_ in (lo_ * 4.0, math.sqrt(lo_ * hi_), hi_ * 0.5, lo_ * (1 - 2.0**-10), hi_ * (1 + 2.0**-10), hi_ * 8.0, lo_ / 8.0):
                inside = lo_ <= x_ <= hi_
                p_logp.append((x_, float(p_logp_fn(np.float64(x_))), (-math.log(x_) - math.log(math.log(hi_ / lo_))) if inside else -math.inf))
    # which input row the initial point is
    P_init = float((np.asarray(init["P"]) * prior_unit(prior, "P")).to_value(u.day))
    # the input row the initial point was built from: periods may tie, so the row is identified by period AND eccentricity
    e_init = float(np.asarray(init["e"]))
    e_all = np.asarray(smp["e"].value, float)
    row = int(np.argmin(np.abs(Ps - P_init) / Ps + np.abs(e_all - e_init)))
    obs = dict(init={k: float(v) for k, v in init.items()}, row=row, Ps=Ps.tolist(), points=[], prior=prior, smp=smp, p_logp=p_logp)
    # two parameter points: the initial point, and a perturbed one; physical values in kernel units
    for which in ("init", "other"):
        phys = {}
        if which == "init":
            for nm in ["P", "e", "omega", "M0", "s"] + names:
                phys[nm] = smp[nm][row]
        else:
            phys = dict(P=float(np.round(r.uniform(3, 200) * 64) / 64) * u.day, e=float(np.round(r.uniform(0.05, 0.7) * 256) / 256) * u.one,
                        omega=float(np.round(r.uniform(0.2, 6) * 256) / 256) * u.rad, M0=float(np.round(r.uniform(0.2, 6) * 256) / 256) * u.rad,
                        s=(spec["theta"]["s"] if spec["s_prior"] != "sampled" else float(np.round(r.uniform(0.2, 2) * 64) / 64) * sc) * du)
            for nm in names:
                pw = K.lin_power(nm)
                phys[nm] = float(np.round(r.normal(0, 6 if pw == 0 else 0.03) * 256) / 256) * sc * du / u.day**pw
        # the model's free variables live in the prior's units
        val = {nm: float(phys[nm].to_value(prior_unit(prior, nm))) for nm in phys}
        with warnings.catch_warnings():
            warnings.simplefilter("ignore")
            model_rv, lnlike, data_term = fn(*[np.float64(val[nm]) for nm in rv_names])
        theta = dict(P=float(phys["P"].to_value(u.day)), e=float(phys["e"].value), omega=float(phys["omega"].to_value(u.rad)), M0=float(phys["M0"].to_value(u.rad)),
                     s=float(phys["s"].to_value(du)))
        x = [float(phys[nm].to_value(du / u.day ** K.lin_power(nm))) for nm in names]
        pt_rec = dict(which=which, theta=theta, x=x, model_rv=np.asarray(model_rv, float), lnlike=float(lnlike), data_term=float(data_term), val=val)
        if k_logp_fn is not None:
            with warnings.catch_warnings():
                warnings.simplefilter("ignore")
                pt_rec["K_logp"] = float(k_logp_fn(np.float64(val["K"]), np.float64(val["P"]), np.float64(val["e"])))
            # the sampler's rule (C01/C09), in the unit the K prior is declared in
            Ku = prior_unit(prior, "K")
            sk = (spec["sigma_K0"][0] * u.Unit(spec["sigma_K0"][1])).to_value(Ku)
            mk = ((spec["max_K"] * u.Unit(spec.get("max_K_unit", "km/s"))) if spec["max_K"] is not None else 500.0 * u.km / u.s).to_value(Ku)
            P0d = float((spec["P0"][0] * u.Unit(spec["P0"][1])).to_value(u.day))
            sig = min(sk * (theta["P"] / P0d) ** (-1 / 3) / math.sqrt(1 - theta["e"] ** 2), mk)
            pt_rec["K_logp_expected"] = -0.5 * (val["K"] / sig) ** 2 - math.log(sig) - 0.5 * math.log(2 * math.pi)
        obs["points"].append(pt_rec)
    obs["expected_init"] = {nm: float(smp[nm][row].to_value(prior_unit(prior, nm))) for nm in prior.par_names}
    return obs


def predicate(spec, obs, outs):
    errs = []
    for pt in obs["points"]:
        if "K_logp" in pt and abs(pt["K_logp"] - pt["K_logp_expected"]) > 2e-6 * max(1.0, abs(pt["K_logp_expected"])):
            errs.append(f"{pt['which']} point: the MCMC model's prior log-density of K is {pt['K_logp']!r}, the sampler's K prior "
                        f"Normal(0, min(sigma_K0 (P/P0)^(-1/3)/sqrt(1-e^2), max_K)) gives {pt['K_logp_expected']!r} "
                        f"[sigma_K0 {spec['sigma_K0']}, max_K {spec['max_K']} {spec.get('max_K_unit', 'km/s')}, P={pt['theta']['P']}, e={pt['theta']['e']}]")
    for x_, got, want in obs.get("p_logp") or []:
        if not (got == want if math.isinf(want) else abs(got - want) <= 1e-6 * max(1.0, abs(want))):
            errs.append(f"the MCMC model's prior log-density of P at {x_!r} (prior unit) is {got!r}, the declared log-uniform prior on [1 d, 20000 d] gives {want!r}")
            break
    m = len(obs["Ps"])
    Ps = np.array(obs["Ps"])
    Pi = Ps[obs["row"]]
    if not (np.sum(Ps < Pi) <= m // 2 < np.sum(Ps <= Pi)):
        errs.append(f"mcmc_init is built from the sample with P={Pi}, which is not the median-period sample of {sorted(Ps.tolist())}")
    for nm, v in obs["expected_init"].items():
        if nm in obs["init"] and not math.isclose(obs["init"][nm], v, rel_tol=1e-12, abs_tol=1e-12):
            errs.append(f"mcmc_init[{nm}] = {obs['init'][nm]!r}, the chosen sample has {v!r} in the prior's unit")
    for pt, out in zip(obs["points"], outs):
        import astropy.units as u

        du = u.Unit(spec["data_unit"])
        y = np.asarray(out["all_data"].rv.to_value(du), float)
        var = np.asarray(out["all_data"].rv_err.to_value(du), float) ** 2 + pt["theta"]["s"] ** 2
        M = np.hstack([out["kcol"][:, None], out["trend_M"]])
        rv = M @ np.array(pt["x"])
        if not np.allclose(pt["model_rv"], rv, rtol=1e-8, atol=1e-8 * max(1.0, np.abs(rv).max())):
            errs.append(f"{pt['which']} point: model_rv = {pt['model_rv'][:3]}.. but the sampler's model gives {rv[:3]}.. "
                        f"[prior units: P in {spec['P_unit']}, K in {spec['lin'][0]['unit']}, data in {spec['data_unit']}]")
            continue
        term = float(np.sum(-0.5 * ((y - rv) ** 2 / var + np.log(2 * np.pi * var))))
        if abs(pt["lnlike"] - term) > 1e-8 * max(1, abs(term)):
            errs.append(f"{pt['which']} point: stored ln_likelihood = {pt['lnlike']!r}, sum ln N(y | rv, sigma^2+s^2) = {term!r} (s={pt['theta']['s']})")
        if abs(pt["data_term"] - term) > 1e-7 * max(1, abs(term)):
            errs.append(f"{pt['which']} point: the observed variable's log-density term = {pt['data_term']!r}, Gaussian data term with sigma^2+s^2 = {term!r}")
    return errs


def mobs_term(pt):
    return f"(mk_mobs {K.qlist(pt['x'])} {K.qlist(pt['model_rv'])} {coq_Q(pt['lnlike'])} {coq_Q(pt['data_term'])})"


BITS = {1: "model_rv is not the sampler's design-matrix model M x (phase / reference-epoch / offset / trend / unit conventions)",
        2: "the stored ln_likelihood is not sum ln N(y | M x, sigma^2 + s^2)",
        4: "the observed variable's log-density term of the model is not the Gaussian data term with sigma^2 + s^2"}


def run_cases(ctx, specs):
    terms, kept, nt = [], [], 0
    stats = dict(models=0, sampled_jitter=0, const_jitter=0, with_offsets=0, poly_gt1=0, other_units=0, several_samples=0)
    for spec in specs:
        try:
            obs = observe(spec)
            outs = [K.run_impl(dict(spec, theta=pt["theta"])) for pt in obs["points"]]
        except Exception as e:
            ctx.fail("predicate", SIG, f"implementation raised {type(e).__name__}: {str(e)[:300]}", case=spec)
            continue
        for e in predicate(spec, obs, outs)[:2]:
            ctx.fail("predicate", SIG, e, case=spec)
        for pt, out in zip(obs["points"], outs):
            if np.isfinite(pt["model_rv"]).all() and math.isfinite(pt["lnlike"]) and math.isfinite(pt["data_term"]):
                terms.append(f"({K.kcase_term(dict(spec, theta=pt['theta']), out)}, {mobs_term(pt)})")
                kept.append((spec, pt["which"]))
        stats["models"] += 1
        stats["sampled_jitter"] += spec["s_prior"] == "sampled"
        stats["const_jitter"] += spec["s_prior"] == "const"
        stats["with_offsets"] += spec["n_off"] > 0
        stats["poly_gt1"] += spec["n_poly"] > 1
        stats["other_units"] += spec["P_unit"] != "d" or any(p["unit"].split(" /")[0] != spec["data_unit"] for p in spec["lin"])
        stats["several_samples"] += spec["n_samples"] > 1
        nt += 1
    codes = ctx.coq_check_codes("c11_m", HEADER, terms, "fun c => check_mcmc (fst c) (snd c)", shard=6, timeout=1500)
    for i, code in enumerate(codes):
        spec, which = kept[i]
        tag = f" [{which} point; P prior in {spec['P_unit']}, K prior in {spec['lin'][0]['unit']}, data in {spec['data_unit']}, jitter prior {spec['s_prior']}, offsets {spec['n_off']}, poly {spec['n_poly']}]"
        for bit, msg in BITS.items():
            if code & bit:
                ctx.fail("correspondence", SIG, msg + tag, case=spec)
    if kept:
        ctx.samples.append({"input": {k: kept[0][0][k] for k in ("n_poly", "n_off", "data_unit", "kprior", "P_unit", "s_prior", "n_samples")}, "coq_case": terms[0][-300:]})
    ctx.coverage["distribution"] = stats
    return len(specs), nt


def run(ctx):
    ok = kernel_setup(ctx, needed=(), soft=("py2v_mcmc.py",))  # Gen/McmcGen.v: setup_mcmc and KeplerianOrbit as the source has them now
    if ok:
        ctx.build_props()
        ctx.build_props("Props/C11g.vo")  # the generated model: the sampler's mean anomaly, Keplerian term + trend in design-matrix order, jitter-inflated data term
    else:
        ctx.obligations += 1
    specs = load_corpus("C11") + gen_cases(ctx)
    n_eval = nt = 0
    try:
        if ok:
            n_eval, nt = run_cases(ctx, specs)
    except CoqRunError as e:
        ctx.broken_ties.append("correspondence could not be evaluated: " + str(e)[:500])
        ok = False
    if not ok:
        for spec in specs[:3]:
            n_eval += 1
            try:
                obs = observe(spec)
                errs = predicate(spec, obs, [K.run_impl(dict(spec, theta=pt["theta"])) for pt in obs["points"]])
            except Exception as e:
                errs = [f"raised {type(e).__name__}: {e}"]
            if errs:
                ctx.fail("predicate", SIG, errs[0], case=spec)
                break
    ctx.coverage.update(evaluations=n_eval, distinct_nontrivial=nt)
    return ctx.finish(
        rule="problems as for C01 (poly_trend 1..3, 0..2 offsets, default / custom K prior, prior units varied: P in d or yr, velocity scales in "
        "km/s or m/s, trend terms per d) with the jitter carried by the prior as a constant, as a sampled Lognormal, or absent; 1, 4 or 5 "
        "hand-built input samples (with a tie in period); the assembled pymc model evaluated at the returned initial point and at a second "
        "random point; non-trivial = a model that was built and evaluated (pytensor compilation dominates: 5 models quick, 40 thorough)",
        assumptions=["pymc: model.logp() is the sum of the declared log-densities (with the Jacobians of its own transforms) of the free variables "
                     "and of the observed variable `obs`, whose term is what is evaluated here",
                     "exoplanet_core's Kepler solver returns the true anomaly of the mean anomaly it is given; the K column of the sampler's "
                     "model comes from twobody at the sampler's convention",
                     "IEEE rounding: model_rv 1e-8, log-densities 1e-8 / 1e-7 relative"],
        trusted_extra=["Coq-Interval through Base/RealEnc.v (log terms)"],
    )


def replay(ctx, path):
    payload = json.load(open(path))
    spec = payload.get("case")
    if spec is None:
        return run(ctx)
    ok = kernel_setup(ctx, needed=())
    if ok:
        run_cases(ctx, [spec])
    for f in ctx.failures:
        print("REPLAY-FAILS:", f.text)
    if not ctx.failures:
        print("REPLAY-PASSES")
    return 1 if ctx.failures else 0
