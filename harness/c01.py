"""C01 -- the marginal log-likelihood equals the analytic Gaussian marginal.

Ties: (1) translator tools/pyx2v.py regenerates the kernel model from the .pyx (the source can never
be compiled here), the characterisation theorems and the matrix identities (Props/C01.v) are
re-proved against it; (2) pyx/C sync check; (3) correspondence: the generated model, run by Coq on
exact inputs (lazy exact reals, exact Gauss-Jordan), is compared with the binary REBUILT from the
current generated C -- ll through the public API, a and Ainv through the public buffers;
(4) model_vs_spec: the generated model computes the hand-written specification exactly (chi^2,
|det B|, B, B^-1, a, Ainv) on every generated input.  Predicate: numpy closed form.
"""
import json
import math

import numpy as np

from common import CoqRunError, load_corpus, rng_for
import kernelcase as K

MODELS = ["Base/Corr.vo", "Base/RealEnc.vo", "Base/Fops.vo", "Base/QMat.vo", "Base/SymReal.vo", "Gen/KernelPyx.vo", "Model/KernelRun.vo"]

HEADER = """From Coq Require Import QArith ZArith List Bool.
From Bignums Require Import BigQ.
From TJ Require Import Base.Corr Base.RealEnc Base.Fops Base.QMat Base.SymReal Gen.KernelPyx Model.KernelRun.
Import ListNotations. Close Scope Z_scope. Open Scope Q_scope.


"""


def gen_cases(ctx, n=None, stream=1, **kw):
    rng = rng_for(ctx, stream)
    n = n or (60 if ctx.tier == "quick" else 600)
    n_max = 8 if ctx.tier == "quick" else 14
    return [K.gen_spec(rng, n_max=n_max, tier=ctx.tier, **kw) for _ in range(n)]


def classify(spec, out, ll_cf):
    """signature of a failing case (the listed defects of the pinned kernel are recognised by their trigger)"""
    return "C01:kernel"


def predicate(spec, out):
    errs = []
    ll_cf, a_cf, Ainv_cf = K.closed_form(spec, out["all_data"], out["trend_M"], out["kcol"])
    if not math.isfinite(out["ll"]):
        errs.append(f"marginal_ln_likelihood is not finite: {out['ll']}")
    elif abs(out["ll"] - ll_cf) > 1e-7 * max(1.0, abs(ll_cf)):
        errs.append(f"marginal_ln_likelihood = {out['ll']!r} but ln N(y | M mu, C + s^2 I + M Lambda M^T) = {ll_cf!r} "
                    f"(s={spec['theta']['s']}, K prior {spec['kprior']}, offsets {spec['n_off']}, poly_trend {spec['n_poly']}, P prior in {spec['P_unit']}, P0 {spec['P0']})")
    if "t0_impl" in out and abs(out["t0_impl"] - out["t0"]) > 1e-8:
        errs.append(f"the kernel counts time from {out['t0_impl']!r} but the data's reference epoch is {out['t0']!r} (TCB MJD; given on scale {spec.get('t_ref_scale', 'tcb')})")
    for v in out.get("ll_in_batch", ()):
        if not (v == out["ll"] or (math.isnan(v) and math.isnan(out["ll"]))):
            errs.append(f"marginal_ln_likelihood of the same sample is {out['ll']!r} alone but {v!r} as the last row of a batch (in memory: earlier rows with other jitter / a capped K variance; cache file: five rows in 2 and in 3 batches) "
                        f"(s={spec['theta']['s']}, K prior {spec['kprior']})")
    return errs, ll_cf


def run_cases(ctx, specs, prop="C01", sig="C01:kernel", do_spec=True):
    terms, kept, nt = [], [], 0
    for spec in specs:
        try:
            out = K.run_impl(spec)
        except Exception as e:
            ctx.fail("predicate", sig, f"implementation raised {type(e).__name__}: {str(e)[:200]}", case=spec)
            continue
        errs, _ = predicate(spec, out)
        if not (np.isfinite(out["a"]).all() and np.isfinite(out["Ainv"]).all() and math.isfinite(out["ll"])):
            errs.append(f"non-finite kernel output (ll={out['ll']}, a={out['a'][:3]}) for finite valid input [K prior {spec['kprior']}, offsets {spec['n_off']}]")
            for e in errs[:1]:
                ctx.fail("predicate", sig, e, case=spec)
            continue
        for e in errs[:1]:
            ctx.fail("predicate", sig, e, case=spec)
        terms.append(f"({K.kcase_term(spec, out)}, {K.kobs_term(out)})")
        kept.append(spec)
        nt += spec["theta"]["s"] > 0 or spec["n_off"] > 0 or spec["n_poly"] > 1 or any(p["mu"] != 0 for p in spec["lin"])
    codes = ctx.coq_check_codes(prop.lower() + "_k", HEADER, terms, "fun c => check_code (fst c) (snd c)", shard=4, timeout=1500)
    for i, code in enumerate(codes):
        tagtxt = (f"[s={kept[i]['theta']['s']}, K prior {kept[i]['kprior']}, offsets {kept[i]['n_off']}, poly {kept[i]['n_poly']}, "
                  f"P prior in {kept[i]['P_unit']}, P0 {kept[i]['P0']}, data in {kept[i]['data_unit']}]")
        if code & 1:
            ctx.fail("correspondence", sig, "generated kernel model (Gen/KernelPyx.v, from the .pyx) and the rebuilt binary disagree (ll / a / Ainv) " + tagtxt, case=kept[i])
        if do_spec and code & 2:
            ctx.fail("correspondence", sig, "generated kernel model does not compute the specification (chi^2, |det B|, B, B^-1, a, Ainv, ll) on this input " + tagtxt,
                     case=kept[i])
    if kept:
        ctx.samples.append({"input": {k: kept[0][k] for k in ("n_poly", "n_off", "data_unit", "kprior", "P_unit", "P0", "theta")}, "coq_case": terms[0][:500]})
    return len(specs), nt


def big_cases(ctx):
    """Realistic sizes (60..300 epochs, tight and loose errors, km/s and m/s): the exact Coq evaluation is out of reach there, so these
    are predicate-only -- the implementation against the numpy closed form (slogdet), finite for every finite valid input."""
    rng = rng_for(ctx, 101)
    out = []
    shapes = [(80, "m/s", 60.0), (160, "km/s", 0.02), (120, "km/s", 1.0), (250, "m/s", 900.0), (60, "km/s", 0.05)]
    if ctx.tier == "thorough":
        shapes += [(200, "m/s", 25.0), (240, "km/s", 5.0), (100, "m/s", 3.0)]
    # precise data in a large unit: 3 cm/s and 6 cm/s uncertainties on velocities given in km/s (variances ~1e-9 in the data's unit).
    # Perfectly valid input: the value must be finite; the comparison with numpy's direct solve is loosened to what double precision
    # can deliver at this conditioning (`finite_only`)
    shapes += [(12, "km/s", 2.0**-15), (30, "km/s", 2.0**-14)]
    for n, unit, err in shapes:
        spec = K.gen_spec(rng, n_max=4, tier="quick", full_frac=0.0, allow_offsets=False)
        scale = 1.0 if unit == "km/s" else 1000.0
        t = np.sort(np.round(rng.uniform(0, 900, n) * 64) / 64) + np.arange(n) / 64 + 55000.0
        rv = np.round(rng.normal(0, 12, n) * 256) / 256 * scale
        e = np.full(n, err) * (1.0 + 0.25 * (np.arange(n) % 3))
        spec.update(data_unit=unit, surveys=[dict(t=t.tolist(), rv=rv.tolist(), err=e.tolist())], err_unit=None, big=True, finite_only=bool(err < 1e-3))
        spec.pop("smp_units", None)
        spec.pop("t_ref", None)
        spec.pop("t_ref_scale", None)
        # no trend terms: over a 900-day baseline dt^2 ~ 1e6 next to tight errors makes the problem ill-conditioned in double precision
        # for the implementation's Woodbury form and for numpy's direct solve alike (disagreements of 1e-4 that are nobody's defect)
        spec["n_poly"], spec["lin"] = 1, spec["lin"][:2]
        spec["theta"]["s"] = float(spec["theta"]["s"] != 0) * err / 2  # jitter comparable to the errors, or zero
        for p_ in spec["lin"]:  # priors in the data's unit
            f_old = 1.0 if p_["unit"].startswith("km/s") else 1000.0
            p_["mu"], p_["std"] = p_["mu"] / f_old * scale, p_["std"] / f_old * scale
            p_["unit"] = p_["unit"].replace("km/s", "@@").replace("m/s", unit).replace("@@", unit)
        if spec.get("sigma_K0"):
            sk = spec["sigma_K0"]
            spec["sigma_K0"] = (sk[0] / (1.0 if sk[1] == "km/s" else 1000.0) * scale, unit)
        if spec.get("max_K"):
            mk = spec["max_K"]
            spec["max_K"] = (mk[0] / (1.0 if mk[1] == "km/s" else 1000.0) * scale, unit) if isinstance(mk, (list, tuple)) else mk
        out.append(spec)
    return out


def run_light(spec):
    """marginal_ln_likelihood of the case's row through the public entry point, plus what the closed form needs"""
    import warnings

    from thejoker.data_helpers import validate_prepare_data
    from thejoker.thejoker import TheJoker

    data, prior, smp = K.build_problem(spec)
    with warnings.catch_warnings():
        warnings.simplefilter("ignore")
        ll = float(TheJoker(prior, rng=np.random.default_rng(0)).marginal_ln_likelihood(data, smp, in_memory=True)[0])
        all_data, ids, trend_M = validate_prepare_data(data, prior.poly_trend, prior.n_offsets)
    th = spec["theta"]
    kcol = K.kepler_column(all_data._t_bmjd, float(all_data._t_ref_bmjd), dict(P=th["P"], e=th["e"], omega=th["omega"], M0=th["M0"]))
    return dict(ll=ll, all_data=all_data, trend_M=np.asarray(trend_M, float), kcol=kcol)


BIG_TOL = 1e-5  # Woodbury cancellation at hundreds of epochs with tight errors (and numpy's own solve) leave about 1e-6


def run_big(ctx):
    n = 0
    for spec in big_cases(ctx):
        n += 1
        try:
            o = run_light(spec)
            ll_cf, _, _ = K.closed_form(spec, o["all_data"], o["trend_M"], o["kcol"])
        except Exception as e:
            ctx.fail("predicate", "C01:kernel", f"{len(spec['surveys'][0]['t'])} epochs: raised {type(e).__name__}: {str(e)[:200]}", case=spec)
            continue
        ne = len(spec["surveys"][0]["t"])
        if not math.isfinite(o["ll"]):
            ctx.fail("predicate", "C01:kernel", f"marginal_ln_likelihood = {o['ll']} for a finite valid input with {ne} epochs in {spec['data_unit']} "
                     f"(closed form {ll_cf!r})", case=spec)
        elif abs(o["ll"] - ll_cf) > (1e-3 if spec.get("finite_only") else BIG_TOL) * max(1.0, abs(ll_cf)):
            ctx.fail("predicate", "C01:kernel", f"{ne} epochs in {spec['data_unit']}: marginal_ln_likelihood = {o['ll']!r} but ln N(y | M mu, C + s^2 I + M Lambda M^T) = {ll_cf!r}", case=spec)
    return n


def kernel_setup(ctx, needed=("pyx2v.py",), soft=()):
    """`needed`: translators without which the model cannot be built; `soft`: translators whose failure is a broken tie of this
    property but leaves the executable model (and so the correspondence and the search for a failing input) intact."""
    ctx.make_overlay(need_kernel=True)
    ctx.regen_all(needed=tuple(needed) + tuple(soft))
    ok = all(ctx.translator_ok.get(s, False) for s in needed)
    ok = ok and ctx.build_models(MODELS)
    return ok


def run(ctx):
    ok = kernel_setup(ctx)
    if ok:
        ctx.build_props()
        ctx.build_props("Props/C01r.vo")  # C01 over the reals: value = ln N(y | M mu, B) (Base/Rstruct.v: MathComp field structure on R)
    else:
        ctx.obligations += 1
    specs = load_corpus("C01") + gen_cases(ctx)
    n_eval = nt = 0
    try:
        if ok:
            n_eval, nt = run_cases(ctx, specs)
    except CoqRunError as e:
        ctx.broken_ties.append("correspondence could not be evaluated: " + str(e)[:500])
        ok = False
    if not ok:
        for spec in specs:
            n_eval += 1
            try:
                errs, _ = predicate(spec, K.run_impl(spec))
            except Exception as e:
                errs = [f"raised {type(e).__name__}: {e}"]
            if errs:
                ctx.fail("predicate", "C01:kernel", errs[0], case=spec)
                break
    n_big = run_big(ctx)
    n_eval += n_big
    ctx.coverage["large_problems_predicate_only"] = n_big
    ctx.coverage.update(evaluations=n_eval, distinct_nontrivial=nt)
    return ctx.finish(
        rule="5 (thorough 8) large problems of 60..300 epochs with tight and loose errors in km/s and m/s, predicate only (numpy closed form, 1e-5); "
        "random problems: 1..8 epochs (14 thorough) in 1..3 time-disjoint surveys, RV unit km/s or m/s, poly_trend 1..3, 0..2 offsets, default "
        "(FixedCompanionMass, P0 in yr/d/h, optional max_K) or custom Normal K prior, non-zero prior means, prior widths and units varied per "
        "parameter, P prior in d or yr, jitter s in {0, small, comparable to the errors, large}; periods chosen as P0 (a/2^k)^3 so the K-variance "
        "rule is an exact rational; e in [0,0.9]. Non-trivial = s>0 or offsets or poly_trend>1 or non-zero means",
        assumptions=["IEEE rounding, LAPACK and libm are outside the model: ll is compared to 1e-7 relative, buffers to 1e-7",
                     "the Kepler solver (twobody C) is an oracle: its values for the specified convention M = 2 pi (t - t_ref)/P - M0 are table inputs",
                     "astropy unit factors and pytensor's evaluation of the declared means/widths are trusted",
                     "the generated C is the translation of the .pyx when the embedded source lines agree (tools/pyx_c_sync.py); gcc compiles it"],
        trusted_extra=["Coq-Interval through Base/RealEnc.v (final log step)", "translator tools/pyx2v.py + tools/imp2v.py (fail-closed)"],
    )


def replay(ctx, path):
    payload = json.load(open(path))
    spec = payload.get("case")
    if spec is None:
        return run(ctx)
    ok = kernel_setup(ctx)
    if spec.get("big"):  # large problems are predicate-only
        o = run_light(spec)
        ll_cf, _, _ = K.closed_form(spec, o["all_data"], o["trend_M"], o["kcol"])
        if not math.isfinite(o["ll"]) or abs(o["ll"] - ll_cf) > BIG_TOL * max(1.0, abs(ll_cf)):
            ctx.fail("predicate", "C01:kernel", f"marginal_ln_likelihood = {o['ll']!r}, closed form {ll_cf!r}", case=spec)
    elif ok:
        run_cases(ctx, [spec])
    else:
        errs, _ = predicate(spec, K.run_impl(spec))
        for e in errs:
            ctx.fail("predicate", "C01:kernel", e, case=spec)
    for f in ctx.failures:
        print("REPLAY-FAILS:", f.text)
    if not ctx.failures:
        print("REPLAY-PASSES")
    return 1 if ctx.failures else 0
