"""C01 -- the marginal log-likelihood equals the analytic Gaussian marginal.

Ties: (1) translator tools/pyx2v.py regenerates the kernel model from the .pyx (the source can never
be compiled here), the characterisation theorems and the matrix identities (Props/C01.v) are
re-proved against it; (2) pyx/C sync check; (3) correspondence: the generated model, run by Coq on
exact inputs (lazy exact reals, exact Gauss-Jordan), is compared with the binary REBUILT from the
current generated C -- ll through the public API, a and Ainv through the public buffers;
(4) model_vs_spec: the generated model computes the hand-written specification exactly (chi^2,
|det B|, B, B^-1, a, Ainv) on every generated input.  Predicate: numpy closed form.
"""
import json
import math

import numpy as np

from common import CoqRunError, load_corpus, rng_for
import kernelcase as K

MODELS = ["Base/Corr.vo", "Base/RealEnc.vo", "Base/Fops.vo", "Base/QMat.vo", "Base/SymReal.vo", "Gen/KernelPyx.vo", "Model/KernelRun.vo"]

HEADER = """From Coq Require Import QArith ZArith List Bool.
From Bignums Require Import BigQ.
From TJ Require Import Base.Corr Base.RealEnc Base.Fops Base.QMat Base.SymReal Gen.KernelPyx Model.KernelRun.
Import ListNotations. Close Scope Z_scope. Open Scope Q_scope.


"""


def gen_cases(ctx, n=None, stream=1, **kw):
    rng = rng_for(ctx, stream)
    n = n or (60 if ctx.tier == "quick" else 600)
    n_max = 8 if ctx.tier == "quick" else 14
    return [K.gen_spec(rng, n_max=n_max, tier=ctx.tier, **kw) for _ in range(n)]


def classify(spec, out, ll_cf):
    """signature of a failing case (the listed defects of the pinned kernel are recognised by their trigger)"""
    return "C01:kernel"


def predicate(spec, out):
    errs = []
    ll_cf, a_cf, Ainv_cf = K.closed_form(spec, out["all_data"], out["trend_M"], out["kcol"])
    if not math.isfinite(out["ll"]):
        errs.append(f"marginal_ln_likelihood is not finite: {out['ll']}")
    elif abs(out["ll"] - ll_cf) > 1e-7 * max(1.0, abs(ll_cf)):
        errs.append(f"marginal_ln_likelihood = {out['ll']!r} but ln N(y | M mu, C + s^2 I + M Lambda M^T) = {ll_cf!r} "
                    f"(s={spec['theta']['s']}, K prior {spec['kprior']}, offsets {spec['n_off']}, poly_trend {spec['n_poly']}, P prior in {spec['P_unit']}, P0 {spec['P0']})")
    for v in out.get("ll_in_batch", ()):
        if not (v == out["ll"] or (math.isnan(v) and math.isnan(out["ll"]))):
            errs.append(f"marginal_ln_likelihood of the same sample is {out['ll']!r} alone but {v!r} as the last row of a batch (in memory: earlier rows with other jitter / a capped K variance; cache file: five rows in 2 and in 3 batches) "
                        f"(s={spec['theta']['s']}, K prior {spec['kprior']})")
    return errs, ll_cf


def run_cases(ctx, specs, prop="C01", sig="C01:kernel", do_spec=True):
    terms, kept, nt = [], [], 0
    for spec in specs:
        try:
            out = K.run_impl(spec)
        except Exception as e:
            ctx.fail("predicate", sig, f"implementation raised {type(e).__name__}: {str(e)[:200]}", case=spec)
            continue
        errs, _ = predicate(spec, out)
        if not (np.isfinite(out["a"]).all() and np.isfinite(out["Ainv"]).all() and math.isfinite(out["ll"])):
            errs.append(f"non-finite kernel output (ll={out['ll']}, a={out['a'][:3]}) for finite valid input [K prior {spec['kprior']}, offsets {spec['n_off']}]")
            for e in errs[:1]:
                ctx.fail("predicate", sig, e, case=spec)
            continue
        for e in errs[:1]:
            ctx.fail("predicate", sig, e, case=spec)
        terms.append(f"({K.kcase_term(spec, out)}, {K.kobs_term(out)})")
        kept.append(spec)
        nt += spec["theta"]["s"] > 0 or spec["n_off"] > 0 or spec["n_poly"] > 1 or any(p["mu"] != 0 for p in spec["lin"])
    codes = ctx.coq_check_codes(prop.lower() + "_k", HEADER, terms, "fun c => check_code (fst c) (snd c)", shard=4, timeout=1500)
    for i, code in enumerate(codes):
        tagtxt = (f"[s={kept[i]['theta']['s']}, K prior {kept[i]['kprior']}, offsets {kept[i]['n_off']}, poly {kept[i]['n_poly']}, "
                  f"P prior in {kept[i]['P_unit']}, P0 {kept[i]['P0']}, data in {kept[i]['data_unit']}]")
        if code & 1:
            ctx.fail("correspondence", sig, "generated kernel model (Gen/KernelPyx.v, from the .pyx) and the rebuilt binary disagree (ll / a / Ainv) " + tagtxt, case=kept[i])
        if do_spec and code & 2:
            ctx.fail("correspondence", sig, "generated kernel model does not compute the specification (chi^2, |det B|, B, B^-1, a, Ainv, ll) on this input " + tagtxt,
                     case=kept[i])
    if kept:
        ctx.samples.append({"input": {k: kept[0][k] for k in ("n_poly", "n_off", "data_unit", "kprior", "P_unit", "P0", "theta")}, "coq_case": terms[0][:500]})
    return len(specs), nt


def kernel_setup(ctx, needed=("pyx2v.py",)):
    ctx.make_overlay(need_kernel=True)
    ok = ctx.regen_all(needed=needed)
    ok = ok and ctx.build_models(MODELS)
    return ok


def run(ctx):
    ok = kernel_setup(ctx)
    if ok:
        ctx.build_props()
        ctx.build_props("Props/C01r.vo")  # C01 over the reals: value = ln N(y | M mu, B) (Base/Rstruct.v: MathComp field structure on R)
    else:
        ctx.obligations += 1
    specs = load_corpus("C01") + gen_cases(ctx)
    n_eval = nt = 0
    try:
        if ok:
            n_eval, nt = run_cases(ctx, specs)
    except CoqRunError as e:
        ctx.broken_ties.append("correspondence could not be evaluated: " + str(e)[:500])
        ok = False
    if not ok:
        for spec in specs:
            n_eval += 1
            try:
                errs, _ = predicate(spec, K.run_impl(spec))
            except Exception as e:
                errs = [f"raised {type(e).__name__}: {e}"]
            if errs:
                ctx.fail("predicate", "C01:kernel", errs[0], case=spec)
                break
    ctx.coverage.update(evaluations=n_eval, distinct_nontrivial=nt)
    return ctx.finish(
        rule="random problems: 1..8 epochs (14 thorough) in 1..3 time-disjoint surveys, RV unit km/s or m/s, poly_trend 1..3, 0..2 offsets, default "
        "(FixedCompanionMass, P0 in yr/d/h, optional max_K) or custom Normal K prior, non-zero prior means, prior widths and units varied per "
        "parameter, P prior in d or yr, jitter s in {0, small, comparable to the errors, large}; periods chosen as P0 (a/2^k)^3 so the K-variance "
        "rule is an exact rational; e in [0,0.9]. Non-trivial = s>0 or offsets or poly_trend>1 or non-zero means",
        assumptions=["IEEE rounding, LAPACK and libm are outside the model: ll is compared to 1e-7 relative, buffers to 1e-7",
                     "the Kepler solver (twobody C) is an oracle: its values for the specified convention M = 2 pi (t - t_ref)/P - M0 are table inputs",
                     "astropy unit factors and pytensor's evaluation of the declared means/widths are trusted",
                     "the generated C is the translation of the .pyx when the embedded source lines agree (tools/pyx_c_sync.py); gcc compiles it"],
        trusted_extra=["Coq-Interval through Base/RealEnc.v (final log step)", "translator tools/pyx2v.py + tools/imp2v.py (fail-closed)"],
    )


def replay(ctx, path):
    payload = json.load(open(path))
    spec = payload.get("case")
    if spec is None:
        return run(ctx)
    ok = kernel_setup(ctx)
    if ok:
        run_cases(ctx, [spec])
    else:
        errs, _ = predicate(spec, K.run_impl(spec))
        for e in errs:
            ctx.fail("predicate", "C01:kernel", e, case=spec)
    for f in ctx.failures:
        print("REPLAY-FAILS:", f.text)
    if not ctx.failures:
        print("REPLAY-PASSES")
    return 1 if ctx.failures else 0
