"""C04 -- a sample row denotes one RV curve everywhere (Bayes identity holds).

Ties: theorems Props/C04.v (curve identity for any poly_trend / offsets, completing the square for EVERY x, determinant
lemma, Bayes identity over the reals); correspondence (Model/KernelRun.v check_bayes, evaluated by Coq on exact inputs):
for posterior draws returned by rejection_sample and for hand-built rows,
  bit 0  samples.get_orbit(i).radial_velocity(t) (+ the observation's own survey offset) = design-matrix row . x
  bit 1  samples.ln_unmarginalized_likelihood = the Gaussian data term with sigma^2 + s^2
  bit 2  marginal_ln_likelihood = ln_unmarginalized_likelihood + ln p(x|theta) - ln N(x|a,A)  (implementation's two numbers)
  bit 3  the exact rational identities behind it on this input
  bit 4  trend_M rows = (1, survey indicators, dt, dt^2, ..).
Predicate: the same identity and curve equality in numpy.
"""
import json
import warnings

import numpy as np

from common import CoqRunError, coq_Q, coq_list, load_corpus, rng_for
import kernelcase as K
from sampling import RecGen
from c01 import HEADER, kernel_setup
from c03 import lin_names

SIG = "C04:bayes"


def gen_cases(ctx, n=None):
    rng = rng_for(ctx, 4)
    n = n or (36 if ctx.tier == "quick" else 360)
    n_max = 7 if ctx.tier == "quick" else 12
    out = []
    for _ in range(n):
        spec = K.gen_spec(rng, n_max=n_max, tier=ctx.tier, allow_offsets=bool(rng.random() < 0.6))
        if spec["n_off"] == 0 and rng.random() < 0.7:  # reference epoch that is not the first observation
            tmin = min(spec["surveys"][0]["t"])
            spec["t_ref"] = float(tmin + np.round(rng.uniform(-40, 60) * 8) / 8)
            if rng.random() < 0.5:  # the same instant handed over in another time scale
                spec["t_ref_scale"] = ["utc", "tt", "tai"][int(rng.integers(0, 3))]
        spec["hand"] = [float(np.round(rng.normal(0, 1) * 64) / 64) for _ in range(1 + spec["n_poly"] + spec["n_off"])]
        out.append(spec)
    return out


def observe(spec):
    """Implementation side: one posterior draw and one hand-built row; everything check_bayes needs."""
    import astropy.units as u
    from thejoker.data import RVData
    from thejoker.thejoker import TheJoker

    out = K.run_impl(spec)
    prior, data, smp = out["prior"], out["data"], out["smp"]
    du = u.Unit(spec["data_unit"])
    joker = TheJoker(prior, rng=RecGen(21))
    with warnings.catch_warnings():
        warnings.simplefilter("ignore")
        res = joker.rejection_sample(data, smp, n_linear_samples=1, in_memory=True)
    names = lin_names(spec)
    all_data = out["all_data"]
    trend_M = out["trend_M"]
    # survey number of each merged epoch: the offset column that is set (0 = none)
    sid = [int(np.argmax(trend_M[n, 1 : 1 + spec["n_off"]]) + 1) if spec["n_off"] and trend_M[n, 1 : 1 + spec["n_off"]].any() else 0 for n in range(len(all_data))]
    dt = np.asarray(all_data._t_bmjd, float) - float(all_data._t_ref_bmjd)
    rows = []
    for kind in ("draw", "hand", "units"):
        tab = res.copy() if kind == "hand" else res
        if kind == "units":
            # the same posterior row with its columns re-expressed in other (equivalent) units
            other = u.Unit("m/s") if spec["data_unit"] == "km/s" else u.Unit("km/s")
            tab = res[:1]
            tab["s"] = tab["s"].to(other)
            tab["K"] = tab["K"].to(other)
            tab["v0"] = tab["v0"].to(other)
            tab["P"] = tab["P"].to(u.yr)
            tab["omega"] = tab["omega"].to(u.deg)
            tab["M0"] = tab["M0"].to(u.deg)
        if kind == "hand":
            # a hand-built row: every linear parameter moved by an arbitrary amount (in its own unit)
            tab = res[:1]
            for k, nm in enumerate(names):
                un = du / u.day ** K.lin_power(nm)
                sc = 3.0 if K.lin_power(nm) == 0 else 0.01
                tab[nm] = tab[nm] + spec["hand"][k] * sc * (1.0 if spec["data_unit"] == "km/s" else 1000.0) * un
        x = [float(tab[nm].to_value(du / u.day ** K.lin_power(nm))[0]) for nm in names]
        with warnings.catch_warnings():
            warnings.simplefilter("ignore")
            orb = tab.get_orbit(0)
            orbit_rv = np.asarray(orb.radial_velocity(all_data.t).to_value(du), float)
            # unmarginalised likelihood, survey by survey; survey k's velocities are brought to the reference frame by its own offset
            ll_un = 0.0
            srcs = data if isinstance(data, list) else [data]
            for k, d in enumerate(srcs):
                off = 0.0 * du if k == 0 else tab[f"dv0_{k}"][0]
                dk = d if k == 0 else RVData(d.t, d.rv - off, d.rv_err, t_ref=all_data.t_ref)
                ll_un += float(tab.ln_unmarginalized_likelihood(dk)[0])
        rows.append(dict(kind=kind, x=x, ll_unmarg=ll_un, orbit_rv=orbit_rv, t_ref_samples=float(tab.t_ref.tcb.mjd) if tab.t_ref is not None else None))
    out.update(rows=rows, sid=sid, dt=dt)
    return out


def predicate(spec, out):
    errs = []
    ll_cf, a_cf, Ainv_cf = K.closed_form(spec, out["all_data"], out["trend_M"], out["kcol"])
    import astropy.units as u

    du = u.Unit(spec["data_unit"])
    y = np.asarray(out["all_data"].rv.to_value(du), float)
    var = np.asarray(out["all_data"].rv_err.to_value(du), float) ** 2 + spec["theta"]["s"] ** 2
    M = np.hstack([out["kcol"][:, None], out["trend_M"]])
    # prior (mu, Lambda) in kernel units and design-matrix order, from the closed form's own conversion
    A_cf = np.linalg.inv(Ainv_cf)
    for r in out["rows"]:
        x = np.array(r["x"])
        if r["t_ref_samples"] is None or abs(r["t_ref_samples"] - out["t0"]) > 1e-9:
            errs.append(f"samples.t_ref = {r['t_ref_samples']} but the data's reference epoch is {out['t0']}")
        offs = np.array([0.0] + list(x[2 : 2 + spec["n_off"]]))
        model = M @ x - offs[out["sid"]]
        if not np.allclose(r["orbit_rv"], model, rtol=1e-9, atol=1e-9 * max(1.0, np.abs(model).max())):
            errs.append(f"{r['kind']} row: get_orbit(0).radial_velocity(t) differs from the sampler's model by up to "
                        f"{np.abs(r['orbit_rv'] - model).max():.3g} {spec['data_unit']} (t_ref={spec.get('t_ref')}, poly_trend {spec['n_poly']}, offsets {spec['n_off']})")
        ll_lik = -0.5 * np.sum((y - M @ x) ** 2 / var + np.log(2 * np.pi * var))
        if abs(r["ll_unmarg"] - ll_lik) > 1e-7 * max(1.0, abs(ll_lik)):
            errs.append(f"{r['kind']} row: ln_unmarginalized_likelihood = {r['ll_unmarg']!r}, Gaussian data term with sigma^2+s^2 = {ll_lik!r} (s={spec['theta']['s']})")
        d = x - a_cf
        lnpost = -0.5 * (d @ Ainv_cf @ d + len(x) * np.log(2 * np.pi) - np.linalg.slogdet(Ainv_cf)[1])
        # ln p(x | theta) from the identity's other three members must be a normal log-density value: checked through the residual in Coq;
        # here: marg - unmarg + lnpost must equal the linear prior's log-density computed from the declared priors
        mu, Lam = prior_mu_Lambda(spec, out)
        lnprior = -0.5 * np.sum((x - mu) ** 2 / Lam + np.log(2 * np.pi * Lam))
        resid = out["ll"] - (r["ll_unmarg"] + lnprior - lnpost)
        if not abs(resid) < 1e-6 * (1 + abs(out["ll"])):
            errs.append(f"{r['kind']} row: marginal ll {out['ll']!r} != unmarginalised {r['ll_unmarg']!r} + ln prior {lnprior!r} - ln N(x|a,A) {lnpost!r} (residual {resid:.3g})")
    return errs


def prior_mu_Lambda(spec, out):
    """(mu, Lambda) in kernel units and design-matrix order (numpy reading of the declared priors)."""
    import astropy.units as u

    du = u.Unit(spec["data_unit"])
    conv = lambda p: ((p["mu"] * u.Unit(p["unit"])).to_value(du / u.day ** K.lin_power(p["name"])), (p["std"] * u.Unit(p["unit"])).to_value(du / u.day ** K.lin_power(p["name"])))
    if spec["kprior"] == "custom":
        muK, sdK = conv(spec["lin"][0])
        varK = sdK**2
    else:
        muK = 0.0
        sk = (spec["sigma_K0"][0] * u.Unit(spec["sigma_K0"][1])).to_value(du)
        P0d = (spec["P0"][0] * u.Unit(spec["P0"][1])).to_value(u.day)
        mk = ((spec["max_K"] if spec["max_K"] is not None else 500.0) * u.km / u.s).to_value(du)
        varK = min(sk**2 * (spec["theta"]["P"] / P0d) ** (-2 / 3) / (1 - spec["theta"]["e"] ** 2), mk**2)
    rest = [conv(p) for p in spec["lin"][1:]]
    offs = [conv(o) for o in spec["offs"]]
    order = [(muK, varK)] + [(rest[0][0], rest[0][1] ** 2)] + [(m, s**2) for m, s in offs] + [(m, s**2) for m, s in rest[1:]]
    return np.array([m for m, _ in order]), np.array([v for _, v in order])


def bobs_term(out, r):
    sid = coq_list([f"{s}%nat" for s in out["sid"]])
    return (f"(mk_bobs {K.qlist(r['x'])} {coq_Q(out['ll'])} {coq_Q(r['ll_unmarg'])} {K.qlist(r['orbit_rv'])} {sid} {K.qlist(out['dt'])})")


BITS = {1: "get_orbit(i).radial_velocity(t) (+ own survey offset) is not the sampler's design-matrix model M x",
        2: "ln_unmarginalized_likelihood is not -1/2 sum[(y - M x)^2/(sigma^2+s^2) + ln(2 pi (sigma^2+s^2))]",
        4: "Bayes identity fails on the implementation's numbers: marginal != unmarginalised + ln p(x|theta) - ln N(x|a,A)",
        8: "the exact chi^2 / determinant identities fail for the model on this input (specification inconsistent)",
        16: "trend_M rows are not (1, survey indicators, dt, dt^2, ..) with dt = t - t_ref"}


def run_cases(ctx, specs):
    terms, kept, nt = [], [], 0
    stats = dict(t_ref_not_first=0, t_ref_other_scale=0, with_offsets=0, poly_gt1=0, jitter=0, hand_rows=0, unit_rows=0)
    for spec in specs:
        try:
            out = observe(spec)
        except Exception as e:
            ctx.fail("predicate", SIG, f"implementation raised {type(e).__name__}: {str(e)[:200]}", case=spec)
            continue
        for e in predicate(spec, out)[:1]:
            ctx.fail("predicate", SIG, e, case=spec)
        kc = K.kcase_term(spec, out)
        for r in out["rows"]:
            if not (np.isfinite(r["x"]).all() and np.isfinite(r["ll_unmarg"]) and np.isfinite(r["orbit_rv"]).all() and np.isfinite(out["ll"])):
                continue
            terms.append(f"({kc}, {bobs_term(out, r)})")
            kept.append((spec, r["kind"]))
            stats["hand_rows"] += r["kind"] == "hand"
            stats["unit_rows"] += r["kind"] == "units"
        stats["t_ref_not_first"] += spec.get("t_ref") is not None
        stats["t_ref_other_scale"] += spec.get("t_ref_scale") is not None
        stats["with_offsets"] += spec["n_off"] > 0
        stats["poly_gt1"] += spec["n_poly"] > 1
        stats["jitter"] += spec["theta"]["s"] > 0
        nt += 1
    codes = ctx.coq_check_codes("c04_b", HEADER, terms, "fun c => check_bayes (fst c) (snd c)", shard=6, timeout=1500)
    for i, code in enumerate(codes):
        spec, kind = kept[i]
        tag = f" [{kind} row; t_ref={spec.get('t_ref')}, poly {spec['n_poly']}, offsets {spec['n_off']}, s={spec['theta']['s']}, K prior {spec['kprior']}]"
        for bit, msg in BITS.items():
            if code & bit:
                ctx.fail("correspondence", SIG, msg + tag, case=spec)
    if kept:
        ctx.samples.append({"input": {k: kept[0][0][k] for k in ("n_poly", "n_off", "data_unit", "kprior", "theta", "hand")} | {"t_ref": kept[0][0].get("t_ref")},
                            "coq_case": terms[0][-400:]})
    ctx.coverage["distribution"] = stats
    return len(specs), nt


def reported_cases():
    """Several rows at once: the marginal ln-likelihood REPORTED with a returned row (return_logprobs) is the marginal likelihood
    of that row's own nonlinear parameters, and the row's orbit gives a finite unmarginalised likelihood -- on the in-memory path
    and through the cache file with a shuffled evaluation order and several batches."""
    import astropy.units as u
    import sampling as S
    from c02 import real_prior
    from thejoker.data import RVData
    from thejoker.samples import JokerSamples
    from thejoker.thejoker import TheJoker

    out = []
    r = np.random.default_rng(404)
    t = 55000 + np.sort(np.round(r.uniform(0, 60, 9) * 64) / 64)
    rv = np.round((6 * np.cos(2 * np.pi * t / 3.4375) + r.normal(0, 4, 9)) * 64) / 64
    data = RVData(t, rv * u.km / u.s, np.full(9, 12.0) * u.km / u.s)  # wide errors: many rows are accepted
    lib = S.make_library(48, seed=5, with_lnprior=True, alt_units=True)
    for path in ("inmem", "file"):
        case = dict(family="reported", path=path)
        with warnings.catch_warnings():
            warnings.simplefilter("ignore")
            try:
                joker = TheJoker(real_prior(), rng=np.random.default_rng(11))
                kw = dict(in_memory=True) if path == "inmem" else dict(in_memory=False, randomize_prior_order=True, n_batches=3)
                res = joker.rejection_sample(data, lib, return_logprobs=True, n_linear_samples=2, **kw)
                if len(res) < 4:
                    out.append((case, f"only {len(res)} rows returned: the scenario does not exercise several rows"))
                    continue
                bad = None
                for i in range(min(len(res), 16)):
                    sub = JokerSamples()
                    for nm in ("P", "e", "omega", "M0", "s"):
                        sub[nm] = res[nm][i: i + 1]
                    ll_own = float(np.asarray(joker.marginal_ln_likelihood(data, sub, in_memory=True))[0])
                    ll_rep = float(np.asarray(res["ln_likelihood"])[i])
                    ll_un = float(np.asarray(res[i: i + 1].ln_unmarginalized_likelihood(data))[0])
                    if not abs(ll_own - ll_rep) <= 1e-9 * (1 + abs(ll_own)):
                        bad = f"row {i}: reported marginal ln-likelihood {ll_rep!r} but its own nonlinear parameters give {ll_own!r}"
                        break
                    if not np.isfinite(ll_un):
                        bad = f"row {i}: ln_unmarginalized_likelihood of the reconstructed orbit is {ll_un!r}"
                        break
                if bad:
                    out.append((case, f"{path} path, {len(res)} rows: {bad}"))
            except Exception as e:
                out.append((case, f"{path} path: raised {type(e).__name__}: {str(e)[:200]}"))
    return out


def run(ctx):
    ok = kernel_setup(ctx, needed=(), soft=("py2v_design.py",))  # Gen/DesignGen.v: the column order of the design matrix as the source has it now
    if ok:
        ctx.build_props()
        ctx.build_props("Props/C08g.vo")  # generated design-matrix builders = model: [1 | offset indicators | dt, dt^2, ..]
        ctx.build_props("Props/C04r.vo")  # the Bayes identity over the reals, no algebraic premise (Base/Rstruct.v: MathComp field structure on R)
    else:
        ctx.obligations += 1
    specs = load_corpus("C04") + gen_cases(ctx)
    n_eval = nt = 0
    try:
        if ok:
            n_eval, nt = run_cases(ctx, specs)
    except CoqRunError as e:
        ctx.broken_ties.append("correspondence could not be evaluated: " + str(e)[:500])
        ok = False
    if not ok:
        for spec in specs:
            n_eval += 1
            try:
                errs = predicate(spec, observe(spec))
            except Exception as e:
                errs = [f"raised {type(e).__name__}: {e}"]
            if errs:
                ctx.fail("predicate", SIG, errs[0], case=spec)
                break
    for case, msg in reported_cases():
        ctx.fail("predicate", "C04:reported", msg, case=case)
    n_eval += 2
    ctx.coverage.update(evaluations=n_eval, distinct_nontrivial=nt)
    return ctx.finish(
        rule="random problems as for C01 (poly_trend 1..3, 0..2 offsets in time-disjoint surveys, jitter, default/custom K prior, units varied), "
        "single-source problems with an explicit reference epoch before / inside / after the observations; per problem one posterior draw returned "
        "by rejection_sample and one hand-built row (every linear parameter moved); two many-row calls (in memory; cache file with shuffled order and 3 batches) whose reported ln_likelihood is recomputed from each row's own parameters; non-trivial = a problem whose rows were compared",
        assumptions=["twobody's KeplerOrbit / PolynomialRVTrend evaluate the orbit they are given (the unit Keplerian g is abstract in the theorem; "
                     "its values at the data epochs are table inputs of the model)",
                     "for survey k >= 1 the harness subtracts the row's own dv0_k from that survey's velocities before calling "
                     "ln_unmarginalized_likelihood (the orbit is the reference-survey curve)",
                     "IEEE rounding outside the model: curve 1e-9, log-likelihoods 1e-8 relative, identity residual 1e-6 (1+|ll|)"],
        trusted_extra=["Coq-Interval through Base/RealEnc.v (log terms)", "exact Gauss-Jordan (Base/QMat.v)"],
    )


def replay(ctx, path):
    payload = json.load(open(path))
    spec = payload.get("case")
    if spec is None or spec.get("family") == "reported":
        return run(ctx)
    ok = kernel_setup(ctx, needed=())
    if ok:
        run_cases(ctx, [spec])
    else:
        for e in predicate(spec, observe(spec)):
            ctx.fail("predicate", SIG, e, case=spec)
    for f in ctx.failures:
        print("REPLAY-FAILS:", f.text)
    if not ctx.failures:
        print("REPLAY-PASSES")
    return 1 if ctx.failures else 0
