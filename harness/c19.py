"""C19 -- time-sampling diagnostics (thejoker/samples_analysis.py, RVData.phase).

Hand-written model over exact rationals (coq/Model/Diagnostics.v), tolerance correspondence decided
by Coq; bin-edge / wrap margins enforced by the generator with exact arithmetic.  Predicate:
independent numpy reading of the definitions + the symmetries the property states (order
independence, time reversal).
"""
import json
from fractions import Fraction

import numpy as np

from common import CoqRunError, coq_Q, coq_list, coq_xq, frac, load_corpus, rng_for

MODELS = ["Base/Corr.vo", "Base/XQ.vo", "Model/Diagnostics.vo"]

HEADER = """From Coq Require Import QArith ZArith List Bool.
From TJ Require Import Base.Corr Base.XQ Model.Diagnostics.
Import ListNotations. Open Scope Q_scope.
Definition close (tol m o : Q) : bool := Qle_bool (Corr.Qabs' (m - o)) tol.
(* tref, P, times, n_bins, observed mpg, coverage, span, tolerance for span *)
Definition check (c : Q * Q * list Q * nat * Q * Q * Q * Q) : bool :=
  let '(tref, P, ts, nb, o_mpg, o_cov, o_span, tol_span) := c in
  close (1 # 1000000000) (max_phase_gap tref P ts) o_mpg &&
  close (1 # 1000000000) (phase_coverage tref P nb ts) o_cov &&
  close tol_span (periods_spanned P ts) o_span.
Definition check_map (c : list XQ * list XQ * nat) : bool :=
  let '(lp, ll, o) := c in Nat.eqb (map_index lp ll) o.
"""


def exact_phase(t, tref, P):
    q = (frac(t) - frac(tref)) / frac(P)
    return q - (q.numerator // q.denominator)


def gen_cases(ctx):
    rng = rng_for(ctx, 19)
    cases = list(load_corpus("C19"))
    n_cases = 150 if ctx.tier == "quick" else 1500
    tries = 0
    while len(cases) < n_cases and tries < 50 * n_cases:
        tries += 1
        n = int(rng.integers(1, 31))
        P = float(np.round(10 ** rng.uniform(-1, 3) * 1024) / 1024)
        tref_mode = ["default", "given"][int(rng.random() < 0.3)]
        base = float(rng.integers(50000, 59000))
        layout = int(rng.integers(0, 4))
        if layout == 0:  # random phases anywhere
            ph = rng.uniform(0, 1, n)
        elif layout == 1:  # clustered: largest empty arc crosses the wrap
            lo = rng.uniform(0.2, 0.5)
            ph = rng.uniform(lo, lo + rng.uniform(0.05, 0.4), n)
        elif layout == 2:  # clustered around 0: wrap arc small, interior gap large
            ph = np.concatenate([rng.uniform(0.0, 0.1, n // 2 + 1), rng.uniform(0.9, 1.0, n)])[:n]
        else:
            ph = np.round(rng.uniform(0, 1, n) * 8) / 8 + rng.uniform(0.01, 0.05)
        cyc = rng.integers(0, 6, n)
        t = base + (cyc + ph) * P
        if rng.random() < 0.3 and n > 1:
            t[int(rng.integers(0, n))] = t[int(rng.integers(0, n))]  # duplicate epoch
        t = np.round(t * 2**20) / 2**20
        tref = float(t.min()) if tref_mode == "default" else float(base - np.round(rng.uniform(-50, 50) * 64) / 64)
        nb = int(rng.integers(1, 51))
        # margins (exact): phases away from bin edges, distinct phases separated, so round-off cannot flip a decision
        eph = sorted(exact_phase(x, tref, P) for x in t)
        ok = True
        for p in eph:
            k = p * nb
            d = min(k - (k.numerator // k.denominator), 1 - (k - (k.numerator // k.denominator)))
            if p != 0 and d < Fraction(1, 10**6) * nb:
                ok = False
        if not ok:
            continue
        cases.append(dict(t=t.tolist(), P=P, tref_mode=tref_mode, tref=tref, n_bins=nb, perm_seed=int(rng.integers(0, 2**31)),
                          P_unit=["d", "h"][int(rng.random() < 0.2)], layout=layout))
    return cases


def np_mpg(t, tref, P):
    ph = np.sort(((t - tref) / P) % 1.0)
    g = np.concatenate((np.diff(ph), [1 + ph[0] - ph[-1]]))
    return float(g.max())


def run_impl(case, t=None):
    import astropy.units as u
    from astropy.time import Time
    from thejoker.data import RVData
    from thejoker.samples import JokerSamples
    from thejoker.samples_analysis import max_phase_gap, periods_spanned, phase_coverage

    t = np.array(case["t"] if t is None else t, float)
    n = len(t)
    f32 = case.get("perm_seed", 0) % 4 == 1  # a quarter of the cases: single-precision velocities next to the double-precision times
    rv = np.arange(n, dtype=np.float32 if f32 else float) * u.km / u.s
    err = np.ones(n, dtype=np.float32 if f32 else float) * u.km / u.s
    tref = None if case["tref_mode"] == "default" else Time(case["tref"], format="mjd", scale="tcb")
    data = RVData(t, rv, err, t_ref=tref, clean=case.get("perm_seed", 0) % 3 != 0)  # a third of the cases without cleaning: same finite observations
    s = JokerSamples()
    P = case["P"]
    if case["P_unit"] == "h":
        s["P"] = np.array([P * 24.0, P * 48.0]) * u.hour
    else:
        s["P"] = np.array([P, 2 * P]) * u.day
    mpg = float(np.squeeze(u.Quantity(max_phase_gap(s[0], data)).value))
    cov = float(np.squeeze(phase_coverage(s[0], data, n_bins=case["n_bins"])))
    span = float(np.squeeze(periods_spanned(s[0], data)))
    return mpg, cov, span


def run_case(case):
    problems = []
    try:
        mpg, cov, span = run_impl(case)
    except Exception as e:
        return None, [f"raised {type(e).__name__}: {e}"]
    t = np.array(case["t"], float)
    tref, P = case["tref"], case["P"]
    # definitions, read independently
    exp = np_mpg(t, tref, P)
    if abs(mpg - exp) > 1e-8:
        problems.append(f"max_phase_gap={mpg!r} but the largest empty arc on the phase circle is {exp!r}")
    ph = ((t - tref) / P) % 1.0
    occ = len(set(np.minimum((ph * case["n_bins"]).astype(int), case["n_bins"] - 1).tolist()))
    if abs(cov - occ / case["n_bins"]) > 1e-9:
        problems.append(f"phase_coverage={cov!r}, occupied bins {occ}/{case['n_bins']}")
    if abs(span - (t.max() - t.min()) / P) > 1e-7 / P + 1e-9 * abs(span):
        problems.append(f"periods_spanned={span!r}, baseline/P={(t.max() - t.min()) / P!r}")
    # symmetries: order independence and time reversal
    r = np.random.default_rng(case["perm_seed"])
    tp = t[r.permutation(len(t))]
    try:
        m2, c2, s2 = run_impl(case, tp)
        if abs(m2 - mpg) > 1e-9 or abs(c2 - cov) > 1e-12 or abs(s2 - span) > 1e-9 * max(1, abs(span)):
            problems.append("diagnostics depend on the order of the observations")
        if case["tref_mode"] == "default":
            trev = t.max() + t.min() - t
            m3, _, s3 = run_impl(case, trev)
            if abs(m3 - mpg) > 1e-8:
                problems.append(f"max_phase_gap changes under time reversal: {mpg!r} vs {m3!r}")
    except Exception as e:
        problems.append(f"twin run raised {type(e).__name__}: {e}")
    tol_span = 1e-7 / P + 1e-9 * abs(span)
    term = (f"({coq_Q(tref)}, {coq_Q(P)}, {coq_list([coq_Q(x) for x in t])}, {case['n_bins']}%nat, {coq_Q(mpg)}, {coq_Q(cov)}, "
            f"{coq_Q(span)}, {coq_Q(tol_span)})")
    return term, problems


def map_cases(ctx):
    """MAP_sample on tables with dyadic log-probabilities (sums exact), including exact ties."""
    from thejoker.samples import JokerSamples
    from thejoker.samples_analysis import MAP_sample

    rng = rng_for(ctx, 191)
    out = []
    for k in range(60 if ctx.tier == "quick" else 600):
        n = int(rng.integers(1, 25))
        lp = np.round(rng.normal(0, 3, n) * 16) / 16
        ll = np.round(rng.normal(-20, 6, n) * 16) / 16
        if n > 2 and rng.random() < 0.5:  # exact tie for the maximum
            i, j = rng.choice(n, 2, replace=False)
            tot = lp + ll
            m = tot.max() + 1
            lp[i] = m - ll[i]
            lp[j] = m - ll[j]
        if n > 1 and rng.random() < 0.5:  # samples outside the prior support / impossible data: -inf entries
            for _ in range(int(rng.integers(1, 4))):
                (lp if rng.random() < 0.6 else ll)[int(rng.integers(0, n))] = -np.inf
            if not np.isfinite(lp + ll).any():
                lp[0], ll[0] = 0.0, 0.0
        s = JokerSamples()
        s["ln_prior"] = lp
        s["ln_likelihood"] = ll
        case = dict(family="map", ln_prior=lp.tolist(), ln_likelihood=ll.tolist())
        if k % 3 == 0:
            # tables built from an MCMC run also carry the optional ln_posterior column (the sampler's own logp, on the transformed
            # space): MAP_sample is defined by ln_prior + ln_likelihood whatever that column holds
            s["ln_posterior"] = np.round(rng.normal(0, 5, n) * 16) / 16
            case["ln_posterior"] = np.asarray(s["ln_posterior"]).tolist()
        try:
            row, idx = MAP_sample(s, return_index=True)
            idx = int(idx)
            problems = []
            tot = lp + ll
            if tot[idx] != tot.max():
                problems.append(f"MAP_sample returned row {idx} with ln_post {tot[idx]} < max {tot.max()}")
            if float(row["ln_prior"][0]) != lp[idx] or float(row["ln_likelihood"][0]) != ll[idx]:
                problems.append("returned row is not the row at the returned index")
            if n > 1 and k % 2 == 0:
                # the same table object after its ln_likelihood column was replaced so that the maximum moves: asked again, the row
                # maximising the CURRENT columns is returned
                ll2 = ll.copy()
                ll2[idx] = (ll2[idx] if np.isfinite(ll2[idx]) else 0.0) - 1024.0
                s["ln_likelihood"] = ll2
                with np.errstate(all="ignore"):
                    tot2 = lp + ll2
                    want2 = int(np.argmax(tot2))
                _, idx2 = MAP_sample(s, return_index=True)
                if int(idx2) != want2 and not (tot2[int(idx2)] == tot2[want2]):
                    problems.append(f"after the ln_likelihood column of the same table was replaced MAP_sample returns row {int(idx2)} (ln_post {tot2[int(idx2)]}), the maximum is at row {want2} ({tot2[want2]})")
        except Exception as e:
            idx, problems = None, [f"raised {type(e).__name__}: {e}"]
        out.append((case, idx, problems))
    return out


def run_cases(ctx, cases):
    terms, kept, nt = [], [], 0
    for c in cases:
        term, problems = run_case(c)
        if problems:
            wrap = all(("largest empty arc" in p or "time reversal" in p) for p in problems)
            ctx.fail("predicate", "C19:wrap-arc" if wrap else "C19:diagnostics", "; ".join(problems[:3]), case=c)
        if term is not None:
            terms.append(term)
            kept.append(c)
            nt += c["layout"] in (1, 2, 3) or len(c["t"]) > 1
    bad = ctx.coq_check_cases("c19", HEADER, terms, "check", shard=80)
    for i in bad:
        ctx.fail("correspondence", "C19:diagnostics", "model value and implementation value differ by more than the tolerance", case=kept[i])
    if kept:
        ctx.samples.append({"input": kept[0], "coq_case": terms[0][:300]})
    return len(cases), nt


def run(ctx):
    ctx.make_overlay(need_kernel=True)
    ctx.regen_all(needed=("py2v_diag.py", "py2v_data.py"))  # Gen/DiagGen.v: phase, max_phase_gap, phase_coverage, periods_spanned, MAP index as the source has them now
    ok = ctx.build_models(MODELS)
    if ok:
        ctx.build_props()
        ctx.build_props("Props/C19g.vo")  # the generated diagnostics are the model
    cases = gen_cases(ctx)
    n_eval = nt = 0
    try:
        if ok:
            n_eval, nt = run_cases(ctx, cases)
            mc = map_cases(ctx)
            terms, kept = [], []
            for case, idx, problems in mc:
                n_eval += 1
                if problems:
                    ctx.fail("predicate", "C19:MAP", "; ".join(problems), case=case)
                if idx is not None:
                    terms.append(f"({coq_list([coq_xq(x) for x in case['ln_prior']])}, {coq_list([coq_xq(x) for x in case['ln_likelihood']])}, {idx}%nat)")
                    kept.append(case)
                    nt += 1
            for i in ctx.coq_check_cases("c19_map", HEADER, terms, "check_map", shard=100):
                ctx.fail("correspondence", "C19:MAP", "MAP_sample index differs from the model's first argmax", case=kept[i])
    except CoqRunError as e:
        ctx.broken_ties.append("correspondence could not be evaluated: " + str(e)[:500])
        ok = False
    if not ok:
        for c in cases:
            _, problems = run_case(c)
            n_eval += 1
            if problems:
                ctx.fail("predicate", "C19:diagnostics", "; ".join(problems[:3]), case=c)
                break
    ctx.coverage.update(evaluations=n_eval, distinct_nontrivial=nt)
    return ctx.finish(
        rule="random observation sets: 1..30 epochs over 0..5 cycles, duplicates, periods 0.1..1000 d (days or hours), 4 phase layouts "
        "(uniform, clustered away from 0 = largest arc across the wrap, clustered around 0, near-grid), bins 1..50, default or explicit t_ref; "
        "permuted and time-reversed twins; MAP tables with exact ties and -inf entries. Non-trivial = more than one epoch",
        assumptions=[
            "astropy Time/TimeDelta arithmetic agrees with exact arithmetic to 1e-9 in phase (generator keeps phases >=1e-6 from bin edges)",
            "numpy sort/histogram/argmax are the textbook functions",
        ],
    )


def replay(ctx, path):
    payload = json.load(open(path))
    ctx.make_overlay(need_kernel=True)
    case = payload.get("case")
    if case is None or case.get("family") == "map":
        return run(ctx)
    ctx.regen_all()
    if ctx.build_models(MODELS):
        run_cases(ctx, [case])
    else:
        _, problems = run_case(case)
        for p in problems:
            ctx.fail("predicate", "C19:diagnostics", p, case=case)
    for f in ctx.failures:
        print("REPLAY-FAILS:", f.text)
    if not ctx.failures:
        print("REPLAY-PASSES")
    return 1 if ctx.failures else 0
