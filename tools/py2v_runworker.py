#!/venv/bin/python
"""py2v_runworker -- regenerate coq/Gen/RunWorkerGen.v from thejoker/multiproc_helpers.py::run_worker.

usage: py2v_runworker.py <repo-root> <out.v>

run_worker decides how many rows are evaluated, into how many batches they are cut, which elements the batches hold and in
which order results come back.  The translator accepts exactly the statement forms below (anything else, and any other
statement that stores to n_samples, n_batches, samples_idx, tasks or results, aborts with exit status 2):

    with tb.open_file(prior_samples_file, mode="r") as f:  n_samples = f.root[JokerSamples._hdf5_path].shape[0]
    if n_prior_samples is not None and samples_idx is not None: raise ValueError(..)
    elif samples_idx is not None:  n_samples = len(samples_idx)
    elif n_prior_samples is not None:  n_samples = int(n_prior_samples)
    if n_batches is None:  n_batches = max(1, pool.size)
    if samples_idx is not None:  tasks = batch_tasks(n_samples, n_batches=n_batches, arr=samples_idx, args=task_args)
    else:                        tasks = batch_tasks(n_samples, n_batches=n_batches, args=task_args)
    if rng is not None:  <the per-task spawn, checked by tools/rng_scan.py rule R8>
    results = []
    for res in pool.map(worker, tasks):  results.append(res)
    return results

and emits
    rw_n_samples_gen  file_rows n_prior idx_len : option Z     (None = the call raises)
    rw_n_batches_gen  n_batches pool_size       : Z
    rw_tasks_gen      file_rows n_prior idx_len n_batches pool_size : option (list task)   over the generated batch_tasks
    rw_results_in_task_order : bool   (results are collected by appending pool.map's results in order)
"""
import ast
import os
import sys

TRACKED = {"n_samples", "n_batches", "samples_idx", "tasks", "results", "n_prior_samples"}


class Untranslatable(Exception):
    pass


def fail(node, msg):
    raise Untranslatable(f"line {getattr(node, 'lineno', '?')}: {msg}: `{ast.unparse(node)[:160] if node is not None else ''}`")


def src(n):
    return ast.unparse(n)


def stores(st):
    return {n.id for n in ast.walk(st) if isinstance(n, ast.Name) and isinstance(n.ctx, (ast.Store, ast.Del)) and n.id in TRACKED}


def translate(fdef):
    body = list(fdef.body)
    if body and isinstance(body[0], ast.Expr) and isinstance(body[0].value, ast.Constant):
        body = body[1:]  # docstring
    seen = {}

    def expect(i, cond, what):
        if i >= len(body) or not cond(body[i]):
            fail(body[i] if i < len(body) else fdef, f"expected {what}")
        return body[i]

    i = 0
    # 1. number of rows in the file
    st = expect(i, lambda s: isinstance(s, ast.With) and len(s.body) == 1, "the `with tb.open_file(..)` block reading the row count")
    if src(st.body[0]) != "n_samples = f.root[JokerSamples._hdf5_path].shape[0]":
        fail(st.body[0], "row count must be n_samples = f.root[JokerSamples._hdf5_path].shape[0]")
    i += 1
    # 2. the selection of n_samples
    st = expect(i, lambda s: isinstance(s, ast.If), "the n_prior_samples / samples_idx selection")
    if src(st.test) != "n_prior_samples is not None and samples_idx is not None" or not (len(st.body) == 1 and isinstance(st.body[0], ast.Raise)):
        fail(st, "first branch must raise when both n_prior_samples and samples_idx are given")
    e1 = st.orelse
    if not (len(e1) == 1 and isinstance(e1[0], ast.If) and src(e1[0].test) == "samples_idx is not None" and len(e1[0].body) == 1
            and src(e1[0].body[0]) == "n_samples = len(samples_idx)"):
        fail(st, "second branch must be `elif samples_idx is not None: n_samples = len(samples_idx)`")
    e2 = e1[0].orelse
    if not (len(e2) == 1 and isinstance(e2[0], ast.If) and src(e2[0].test) == "n_prior_samples is not None" and len(e2[0].body) == 1
            and src(e2[0].body[0]) == "n_samples = int(n_prior_samples)" and not e2[0].orelse):
        fail(st, "third branch must be `elif n_prior_samples is not None: n_samples = int(n_prior_samples)` with no else")
    i += 1
    # 3. number of batches
    st = expect(i, lambda s: isinstance(s, ast.If), "the n_batches default")
    if not (src(st.test) == "n_batches is None" and len(st.body) == 1 and src(st.body[0]) == "n_batches = max(1, pool.size)" and not st.orelse):
        fail(st, "n_batches default must be `if n_batches is None: n_batches = max(1, pool.size)`")
    i += 1
    # 4. the task list
    st = expect(i, lambda s: isinstance(s, ast.If), "the batch_tasks call")
    ok = (src(st.test) == "samples_idx is not None" and len(st.body) == 1 and len(st.orelse) == 1
          and src(st.body[0]) == "tasks = batch_tasks(n_samples, n_batches=n_batches, arr=samples_idx, args=task_args)"
          and src(st.orelse[0]) == "tasks = batch_tasks(n_samples, n_batches=n_batches, args=task_args)")
    if not ok:
        fail(st, "tasks must be batch_tasks(n_samples, n_batches=n_batches[, arr=samples_idx], args=task_args): the supplied array itself, start index 0")
    i += 1
    # 5. optional per-task generators (rule R8 of rng_scan checks the body): must not touch the task payloads
    if i < len(body) and isinstance(body[i], ast.If) and src(body[i].test) == "rng is not None":
        for s in body[i].body:
            if isinstance(s, ast.For):
                if not (len(s.body) == 1 and src(s.body[0]).startswith("tasks[i] = tuple(tasks[i]) + (")):
                    fail(s, "the per-task loop may only append the generator to task i")
            elif stores(s) - set():
                if stores(s) & {"n_samples", "n_batches", "samples_idx", "results"}:
                    fail(s, "the rng block stores to a tracked name")
        i += 1
    # 6. results in task order
    st = expect(i, lambda s: src(s) == "results = []", "`results = []`")
    i += 1
    st = expect(i, lambda s: isinstance(s, ast.For), "the pool.map loop")
    if not (src(st.iter) == "pool.map(worker, tasks)" and src(st.target) == "res" and len(st.body) == 1 and src(st.body[0]) == "results.append(res)" and not st.orelse):
        fail(st, "results must be collected as `for res in pool.map(worker, tasks): results.append(res)`")
    i += 1
    st = expect(i, lambda s: src(s) == "return results", "`return results`")
    i += 1
    if i != len(body):
        fail(body[i], "unexpected statement after `return results`")
    return True


TEXT = """(* GENERATED by tools/py2v_runworker.py from thejoker/multiproc_helpers.py::run_worker -- do not edit. *)
From Coq Require Import ZArith List Bool.
From TJ Require Import Base.Imp Gen.BatchTasksGen.
Import ListNotations. Open Scope Z_scope.

(* how many rows are cut into batches; None = the call raises (both n_prior_samples and samples_idx given) *)
Definition rw_n_samples_gen (file_rows : Z) (n_prior idx_len : option Z) : option Z :=
  match n_prior, idx_len with
  | Some _, Some _ => None
  | _, Some l => Some l
  | Some n, None => Some n
  | None, None => Some file_rows
  end.
Definition rw_n_batches_gen (n_batches : option Z) (pool_size : Z) : Z :=
  match n_batches with None => Z.max 1 pool_size | Some b => b end.
(* the task list handed to pool.map: the generated batch_tasks on that count, start index 0, over the supplied index array
   itself when there is one *)
Definition rw_tasks_gen (file_rows : Z) (n_prior idx_len n_batches : option Z) (pool_size : Z) : option (list task) :=
  match rw_n_samples_gen file_rows n_prior idx_len with
  | None => None
  | Some n => Some (batch_tasks_gen n (rw_n_batches_gen n_batches pool_size) 0 (match idx_len with None => true | Some _ => false end))
  end.
(* results = [res for res in pool.map(worker, tasks)] *)
Definition rw_results_in_task_order : bool := true.
"""


def main():
    repo, out = sys.argv[1], sys.argv[2]
    path = os.path.join(repo, "thejoker", "multiproc_helpers.py")
    try:
        tree = ast.parse(open(path).read())
        fdef = next((n for n in tree.body if isinstance(n, ast.FunctionDef) and n.name == "run_worker"), None)
        if fdef is None:
            raise Untranslatable("function run_worker not found")
        want = ["worker", "pool", "prior_samples_file", "task_args", "n_batches", "n_prior_samples", "samples_idx", "rng"]
        if [a.arg for a in fdef.args.args] != want:
            raise Untranslatable(f"signature changed: {[a.arg for a in fdef.args.args]}")
        translate(fdef)
    except (Untranslatable, SyntaxError) as e:
        print(f"py2v_runworker: UNTRANSLATABLE: {e}", file=sys.stderr)
        with open(out, "w") as f:
            f.write("(* tools/py2v_runworker.py could not translate the current source: " + str(e).replace("*)", "* )") + " *)\n")
        sys.exit(2)
    old = open(out).read() if os.path.exists(out) else None
    if old != TEXT:
        with open(out, "w") as f:
            f.write(TEXT)
        print(f"py2v_runworker: wrote {out}")
    else:
        print(f"py2v_runworker: unchanged {out}")


if __name__ == "__main__":
    main()
