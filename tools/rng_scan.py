#!/venv/bin/python
"""rng_scan -- fail-closed static check that the code matches the effect discipline of Model/Rng.v:
all randomness flows through the Generator handed to TheJoker / prior.sample.

usage: rng_scan.py <repo-root>      prints one line per finding, exit 1 if any.

Rules (every non-test module under thejoker/, the .pyx by text):
 R1  no use of numpy.random module-level functions (np.random.seed / rand / uniform / ...) -- only the names in ALLOWED
 R2  np.random.default_rng() may only appear as the `if rng is None:` fallback
 R3  no use of Python's `random` module
 R4  every call of a drawing method (uniform, choice, multivariate_normal, normal, integers, random, shuffle,
     permutation, standard_normal) has `rng` or `self.rng` as receiver
 R5  every call of `<...>.prior.sample(...)` inside thejoker.py passes rng=
 R6  pm.draw(...) passes random_seed=rng
 R7  utils.rng_context (which swaps numpy's GLOBAL bit generator) has no call site
 R8  run_worker spawns one child per task from the parent's seed sequence: sg = rng.bit_generator._seed_seq.spawn(len(tasks))
     and builds task i's generator from sg[i]
 R9  the samplers hand rng=self.rng to the helper functions
 R10 no generator is built anywhere else: Generator(..) / PCG64(..) / SeedSequence(..) calls and reads of `_seed_seq` occur only
     in run_worker's spawn (R8) -- a generator rebuilt from the parent's seed sequence restarts the parent's own stream
     (Model/Rng.v: child keys are fresh, the parent stream is read in disjoint segments)
"""
import ast
import os
import re
import sys

ALLOWED_NP_RANDOM = {"Generator", "PCG64", "default_rng", "SeedSequence", "get_bit_generator", "set_bit_generator", "BitGenerator"}
DRAW_METHODS = {"uniform", "choice", "multivariate_normal", "normal", "integers", "random", "shuffle", "permutation", "standard_normal"}


def scan(repo):
    findings = []
    root = os.path.join(repo, "thejoker")
    files = []
    for d, _, fs in os.walk(root):
        if "tests" in d.split(os.sep):
            continue
        for f in fs:
            if f.endswith(".py"):
                files.append(os.path.join(d, f))
    rng_context_calls = 0
    for path in sorted(files):
        rel = os.path.relpath(path, repo)
        src = open(path).read()
        try:
            tree = ast.parse(src)
        except SyntaxError as e:
            findings.append(f"{rel}: cannot parse ({e})")
            continue
        parents = {}
        for node in ast.walk(tree):
            for ch in ast.iter_child_nodes(node):
                parents[ch] = node
        for node in ast.walk(tree):
            # R3
            if isinstance(node, ast.Import) and any(a.name == "random" for a in node.names):
                findings.append(f"{rel}:{node.lineno} R3 imports Python's random module")
            if isinstance(node, ast.ImportFrom) and node.module == "random":
                findings.append(f"{rel}:{node.lineno} R3 imports from Python's random module")
            if isinstance(node, ast.ImportFrom) and node.module in ("numpy.random",):
                for a in node.names:
                    if a.name not in ALLOWED_NP_RANDOM:
                        findings.append(f"{rel}:{node.lineno} R1 imports numpy.random.{a.name}")
            # R1 / R2
            if isinstance(node, ast.Attribute) and isinstance(node.value, ast.Attribute) and node.value.attr == "random" \
                    and isinstance(node.value.value, ast.Name) and node.value.value.id in ("np", "numpy"):
                if node.attr not in ALLOWED_NP_RANDOM:
                    findings.append(f"{rel}:{node.lineno} R1 uses numpy's global random state: np.random.{node.attr}")
                if node.attr == "default_rng":
                    call = parents.get(node)
                    ok = False
                    if isinstance(call, ast.Call) and not call.args and not call.keywords:
                        # must be `rng = np.random.default_rng()` directly inside `if rng is None:`
                        asg = parents.get(call)
                        iff = parents.get(asg)
                        if isinstance(asg, ast.Assign) and ast.unparse(asg.targets[0]) == "rng" and isinstance(iff, ast.If) and ast.unparse(iff.test) == "rng is None":
                            ok = True
                    if not ok:
                        findings.append(f"{rel}:{node.lineno} R2 np.random.default_rng outside the `if rng is None` fallback")
            if isinstance(node, ast.Call):
                fn = node.func
                # R4
                if isinstance(fn, ast.Attribute) and fn.attr in DRAW_METHODS:
                    recv = ast.unparse(fn.value)
                    if recv not in ("rng", "self.rng"):
                        # drawing-method names also exist on unrelated objects (e.g. pm.Uniform is a class, not .uniform): only lower-case methods are listed
                        if not recv.startswith(("pm.", "pt.", "u.", "np.linalg")):
                            findings.append(f"{rel}:{node.lineno} R4 draw `{ast.unparse(node)[:70]}` does not use the sampler's generator (receiver `{recv}`)")
                # R5
                if isinstance(fn, ast.Attribute) and fn.attr == "sample" and ast.unparse(fn.value).endswith("prior") and rel.endswith("thejoker.py"):
                    kws = {k.arg: ast.unparse(k.value) for k in node.keywords}
                    if kws.get("rng") != "self.rng":
                        findings.append(f"{rel}:{node.lineno} R5 prior.sample(...) called without rng=self.rng")
                # R6
                if ast.unparse(fn) == "pm.draw":
                    kws = {k.arg: ast.unparse(k.value) for k in node.keywords}
                    if kws.get("random_seed") != "rng":
                        findings.append(f"{rel}:{node.lineno} R6 pm.draw(...) without random_seed=rng")
                # R7
                if ast.unparse(fn).endswith("rng_context"):
                    rng_context_calls += 1
                    findings.append(f"{rel}:{node.lineno} R7 rng_context (swaps numpy's global bit generator) is used")
                # R10
                ctor = ast.unparse(fn).split(".")[-1]
                if ctor in ("Generator", "PCG64", "SeedSequence", "MT19937", "Philox", "SFC64", "RandomState"):
                    encl = node
                    while encl in parents and not isinstance(encl, ast.FunctionDef):
                        encl = parents[encl]
                    if not (rel.endswith("multiproc_helpers.py") and isinstance(encl, ast.FunctionDef) and encl.name == "run_worker"):
                        findings.append(f"{rel}:{node.lineno} R10 a generator is constructed outside run_worker's per-task spawn: `{ast.unparse(node)[:70]}`")
                # R9
                if rel.endswith("thejoker.py") and isinstance(fn, ast.Name) and fn.id in ("rejection_sample_inmem", "rejection_sample_helper", "iterative_rejection_inmem", "iterative_rejection_helper"):
                    kws = {k.arg: ast.unparse(k.value) for k in node.keywords}
                    if kws.get("rng") != "self.rng":
                        findings.append(f"{rel}:{node.lineno} R9 {fn.id}(...) not given rng=self.rng")
        # R10 (reads of the seed sequence)
        for node in ast.walk(tree):
            if isinstance(node, ast.Attribute) and node.attr in ("_seed_seq", "seed_seq"):
                encl = node
                while encl in parents and not isinstance(encl, ast.FunctionDef):
                    encl = parents[encl]
                if not (rel.endswith("multiproc_helpers.py") and isinstance(encl, ast.FunctionDef) and encl.name == "run_worker"):
                    findings.append(f"{rel}:{node.lineno} R10 the generator's seed sequence is read outside run_worker's per-task spawn")
        # R8
        if rel.endswith("multiproc_helpers.py"):
            rw = next((n for n in tree.body if isinstance(n, ast.FunctionDef) and n.name == "run_worker"), None)
            body = ast.unparse(rw) if rw else ""
            if "sg = rng.bit_generator._seed_seq.spawn(len(tasks))" not in body:
                findings.append(f"{rel} R8 run_worker does not spawn one child seed per task from the parent's seed sequence")
            if not re.search(r"for i in range\(len\(tasks\)\):\s+tasks\[i\] = tuple\(tasks\[i\]\) \+ \(Generator\(PCG64\(sg\[i\]\)\),\)", body):
                findings.append(f"{rel} R8 run_worker does not build task i's generator from its own child seed sg[i]")
            for fn_name, kwname in (("make_full_samples", "rng"),):
                pass
    # .pyx by text
    pyx = os.path.join(root, "src", "fast_likelihood.pyx")
    if os.path.exists(pyx):
        for ln, line in enumerate(open(pyx), 1):
            code = line.split("#")[0]
            if re.search(r"\bnp\.random\.(?!Generator|PCG64|default_rng)", code) or re.search(r"(?<![\w.])random\.", code):
                findings.append(f"thejoker/src/fast_likelihood.pyx:{ln} R1 global random state in the kernel: {code.strip()[:60]}")
            m = re.search(r"(\w[\w.]*)\.multivariate_normal\(", code)
            if m and m.group(1) != "rng":
                findings.append(f"thejoker/src/fast_likelihood.pyx:{ln} R4 linear-parameter draw does not use the task's generator: {code.strip()[:60]}")
    return findings


if __name__ == "__main__":
    f = scan(sys.argv[1] if len(sys.argv) > 1 else "/repo")
    for x in f:
        print(x)
    sys.exit(1 if f else 0)
