#!/usr/bin/env python3
"""Hygiene gate, part 2: no Variable / Hypothesis / Context outside a Section in any .v file (each would declare an axiom)."""
import glob, re, sys
bad = []
for f in sorted(glob.glob(sys.argv[1] + "/**/*.v", recursive=True)):
    txt = open(f).read()
    out, i, lvl = [], 0, 0
    while i < len(txt):
        if txt.startswith("(*", i):
            lvl += 1; i += 2; continue
        if txt.startswith("*)", i) and lvl > 0:
            lvl -= 1; i += 2; continue
        if lvl == 0:
            out.append(txt[i])
        elif txt[i] == "\n":
            out.append("\n")
        i += 1
    depth = 0
    for ln, line in enumerate("".join(out).split("\n"), 1):
        if re.match(r"\s*(Section|Module)\s+\w+", line) and ":=" not in line:
            depth += 1
        if re.match(r"\s*End\s+\w+\s*\.", line):
            depth -= 1
        if re.match(r"\s*(Variable|Variables|Hypothesis|Hypotheses|Context)\b", line) and depth <= 0:
            bad.append(f"{f}:{ln}: {line.strip()[:80]}")
for b in bad:
    print(b)
sys.exit(1 if bad else 0)
