"""Shared by the pinning translators: the default values of the arguments of the pinned functions are part of what is pinned."""
import ast
import os


def defaults_of(repo, rel, cls, fname):
    tree = ast.parse(open(os.path.join(repo, "thejoker", rel)).read())
    scope = tree.body
    if cls:
        scope = next(n for n in scope if isinstance(n, ast.ClassDef) and n.name == cls).body
    f = next(n for n in scope if isinstance(n, ast.FunctionDef) and n.name == fname)
    return [ast.unparse(d) for d in f.args.defaults] + ["kw:" + (ast.unparse(d) if d is not None else "<none>") for d in f.args.kw_defaults]


def mismatch(repo, table):
    """table: {(rel, cls, fname): [defaults as ast.unparse prints them]}; returns a message for the first mismatch, or None."""
    for (rel, cls, fname), want in table.items():
        try:
            got = defaults_of(repo, rel, cls, fname)
        except (StopIteration, OSError, SyntaxError) as e:
            return f"{rel}::{fname}: not found ({type(e).__name__})"
        if got != want:
            return f"thejoker/{rel}::{(cls + '.') if cls else ''}{fname}: argument defaults {got}, pinned {want}"
    return None
