#!/venv/bin/python
import json, glob, sys
pat = sys.argv[1] if len(sys.argv) > 1 else "*"
for f in sorted(glob.glob(f'/verif/replays/{pat}*.json'))[:3]:
    p = json.load(open(f))
    print(f)
    print(' ', p['kind'], p['signature'], p['what_fails'][:400])
    print('  broken:', p['broken_obligations_or_ties'])
    seen = set()
    for o in p['other_failures']:
        key = (o['kind'], o['sig'], o['text'][:50])
        if key in seen: continue
        seen.add(key)
        print('   -', o['kind'], o['sig'], o['text'][:330])
