#!/bin/bash
# Build thejoker's Cython extension from the *current* generated C in a repo tree into a target
# directory (never into /repo).  Cached by content hash of the inputs under /verif/.cache/kernel.
#   usage: kernel_build.sh <repo-root> <dest-dir-for-.so>
# If tools/kernel_c_patches/<sha256 of .c>.patch exists and the .pyx in the tree is not the
# pristine pre-fix .pyx, the patch is applied to a scratch copy of the .c first (DESIGN 2.6).
set -euo pipefail
REPO="$1"; DEST="$2"
HERE="$(cd "$(dirname "$0")" && pwd)"
CACHE="$HERE/../.cache/kernel"; mkdir -p "$CACHE"
C="$REPO/thejoker/src/fast_likelihood.c"
PYX="$REPO/thejoker/src/fast_likelihood.pyx"
TWO=/venv/lib/python3.12/site-packages/twobody
SO=fast_likelihood.cpython-312-x86_64-linux-gnu.so
[ -f "$C" ] || { echo "kernel_build: no generated C at $C" >&2; exit 3; }
csha=$(sha256sum "$C" | cut -d' ' -f1)
psha=$(sha256sum "$PYX" | cut -d' ' -f1)
PATCH=""
if [ -f "$HERE/kernel_c_patches/$csha.patch" ]; then
  # the recorded patch belongs to the pristine C; apply it only when the .pyx is no longer the pristine one
  pristine_pyx=$(cat "$HERE/kernel_c_patches/$csha.pyxsha" 2>/dev/null || echo none)
  if [ "$psha" != "$pristine_pyx" ]; then PATCH="$HERE/kernel_c_patches/$csha.patch"; fi
fi
key="$csha"; [ -n "$PATCH" ] && key="$csha-$(sha256sum "$PATCH" | cut -d' ' -f1 | cut -c1-16)"
if [ ! -f "$CACHE/$key.so" ]; then
  W=$(mktemp -d /dev/shm/kbuild.XXXXXX); trap 'rm -rf "$W"' EXIT
  cp "$C" "$W/fast_likelihood.c"
  if [ -n "$PATCH" ]; then (cd "$W" && patch -s -p0 fast_likelihood.c < "$PATCH"); fi
  NPI=$(/venv/bin/python -c "import numpy; print(numpy.get_include())")
  PYI=$(/venv/bin/python -c "import sysconfig; print(sysconfig.get_paths()['include'])")
  gcc -O2 -shared -fPIC --std=gnu99 -w -I"$PYI" -I"$NPI" -I"$TWO" \
      "$W/fast_likelihood.c" "$TWO/src/twobody.c" -o "$W/$SO" -lm
  mv "$W/$SO" "$CACHE/$key.so.tmp.$$" && mv "$CACHE/$key.so.tmp.$$" "$CACHE/$key.so"
fi
mkdir -p "$DEST"; cp "$CACHE/$key.so" "$DEST/$SO"
echo "$key"
