#!/bin/bash
# Build thejoker's Cython extension from the *current* generated C in a repo tree into a target
# directory (never into /repo).  Cached by content hash of the inputs under /verif/.cache/kernel.
#   usage: kernel_build.sh <repo-root> <dest-dir-for-.so>
set -euo pipefail
REPO="$1"; DEST="$2"
HERE="$(cd "$(dirname "$0")" && pwd)"
CACHE="$HERE/../.cache/kernel"; mkdir -p "$CACHE"
C="$REPO/thejoker/src/fast_likelihood.c"
PYX="$REPO/thejoker/src/fast_likelihood.pyx"
TWO=/venv/lib/python3.12/site-packages/twobody
SO=fast_likelihood.cpython-312-x86_64-linux-gnu.so
[ -f "$C" ] || { echo "kernel_build: no generated C at $C" >&2; exit 3; }
csha=$(sha256sum "$C" | cut -d' ' -f1)
psha=$(sha256sum "$PYX" | cut -d' ' -f1)
# The generated C cannot be regenerated here (no Cython).  When the tree still holds the pristine generated C
# (identified by hash) but the .pyx is no longer the pristine pre-fix .pyx, the recorded mechanical edit
# tools/patch_kernel_c.py (the C side of the four kernel `fix:` commits) is applied to a scratch copy first.
PRISTINE_C=23ead32a18061ba1538b37017d984edfe5639c4ca9637de7ca3e9c484a812e37
PRISTINE_PYX=605279bdc1f7e065ce7c36e99a6425f81922e31a2d27dfe8d5aef478971b156a
PATCH=""
if [ "$csha" = "$PRISTINE_C" ] && [ "$psha" != "$PRISTINE_PYX" ]; then PATCH="$HERE/patch_kernel_c.py"; fi
key="$csha"; [ -n "$PATCH" ] && key="$csha-$(sha256sum "$PATCH" | cut -d' ' -f1 | cut -c1-16)"
if [ ! -f "$CACHE/$key.so" ]; then
  W=$(mktemp -d /dev/shm/kbuild.XXXXXX); trap 'rm -rf "$W"' EXIT
  cp "$C" "$W/fast_likelihood.c"
  if [ -n "$PATCH" ]; then /venv/bin/python "$PATCH" "$C" "$W/fast_likelihood.c" >&2; fi
  NPI=$(/venv/bin/python -c "import numpy; print(numpy.get_include())")
  PYI=$(/venv/bin/python -c "import sysconfig; print(sysconfig.get_paths()['include'])")
  gcc -O2 -shared -fPIC --std=gnu99 -w -I"$PYI" -I"$NPI" -I"$TWO" \
      "$W/fast_likelihood.c" "$TWO/src/twobody.c" -o "$W/$SO" -lm
  mv "$W/$SO" "$CACHE/$key.so.tmp.$$" && mv "$CACHE/$key.so.tmp.$$" "$CACHE/$key.so"
fi
mkdir -p "$DEST"; cp "$CACHE/$key.so" "$DEST/$SO"
echo "$key"
