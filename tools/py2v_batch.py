#!/venv/bin/python
"""py2v_batch -- regenerate coq/Gen/BatchTasksGen.v from thejoker/utils.py::batch_tasks.

usage: py2v_batch.py <repo-root> <out.v>
Fail-closed: any statement form outside the subset of tools/imp2v.py (plus the list-building
forms below) aborts with exit status 2 and a message naming the offending source line.

Recognised list-building forms (and nothing else):
    tasks = []
    tasks.append([(e1, e2), e3] + args)        ->  TIdx e1 e2 e3
    tasks.append([arr[e1:e2], e3] + args)      ->  TArr e1 e2 e3
    `arr is None` / `arr is not None`          ->  the boolean parameter arr_is_none
    if args is None: args = [] ; args = list(args)   (argument normalisation; carried by every task, not modelled)
    return tasks
"""
import ast
import sys
import os

sys.path.insert(0, os.path.dirname(os.path.abspath(__file__)))
from imp2v import Env, Translator, Untranslatable, fail, record_decl  # noqa: E402


class BatchTr(Translator):
    def cond(self, node, env):
        if (
            isinstance(node, ast.Compare)
            and len(node.ops) == 1
            and isinstance(node.left, ast.Name)
            and node.left.id == "arr"
            and isinstance(node.comparators[0], ast.Constant)
            and node.comparators[0].value is None
        ):
            if isinstance(node.ops[0], ast.Is):
                return "arr_is_none"
            if isinstance(node.ops[0], ast.IsNot):
                return "(negb arr_is_none)"
        return super().cond(node, env)

    def task_term(self, node, env):
        # [X, id] + args
        if not (
            isinstance(node, ast.BinOp)
            and isinstance(node.op, ast.Add)
            and isinstance(node.right, ast.Name)
            and node.right.id == "args"
            and isinstance(node.left, ast.List)
            and len(node.left.elts) == 2
        ):
            fail(node, "task must have the form [X, id] + args")
        x, ident = node.left.elts
        idz = self.expr_z(ident, env)
        if isinstance(x, ast.Tuple) and len(x.elts) == 2:
            return f"TIdx {self.expr_z(x.elts[0], env)} {self.expr_z(x.elts[1], env)} {idz}"
        if (
            isinstance(x, ast.Subscript)
            and isinstance(x.value, ast.Name)
            and x.value.id == "arr"
            and isinstance(x.slice, ast.Slice)
            and x.slice.step is None
            and x.slice.lower is not None
            and x.slice.upper is not None
        ):
            return f"TArr {self.expr_z(x.slice.lower, env)} {self.expr_z(x.slice.upper, env)} {idz}"
        fail(node, "task payload must be (i1, i2) or arr[i1:i2]")

    def stmt_special(self, node, env):
        if (
            isinstance(node, ast.Expr)
            and isinstance(node.value, ast.Call)
            and isinstance(node.value.func, ast.Attribute)
            and isinstance(node.value.func.value, ast.Name)
            and node.value.func.value.id == "tasks"
            and node.value.func.attr == "append"
            and len(node.value.args) == 1
            and not node.value.keywords
        ):
            t = self.task_term(node.value.args[0], env)
            return f"set_v_tasks (v_tasks s ++ [{t}]) s"
        return None


def is_args_norm(st):
    src = ast.unparse(st)
    return src in ("if args is None:\n    args = []", "args = list(args)")


def translate(repo):
    path = os.path.join(repo, "thejoker", "utils.py")
    tree = ast.parse(open(path).read())
    fn = next(
        (n for n in tree.body if isinstance(n, ast.FunctionDef) and n.name == "batch_tasks"), None
    )
    if fn is None:
        raise Untranslatable("utils.py has no function batch_tasks")
    a = fn.args
    names = [x.arg for x in a.args]
    if names != ["n_tasks", "n_batches", "arr", "args", "start_idx"] or a.vararg or a.kwarg or a.kwonlyargs:
        raise Untranslatable(f"unexpected signature {names}")
    defaults = [ast.unparse(d) for d in a.defaults]
    if defaults != ["None", "None", "0"]:
        raise Untranslatable(f"unexpected defaults {defaults}")
    body = list(fn.body)
    if body and isinstance(body[0], ast.Expr) and isinstance(body[0].value, ast.Constant):
        body = body[1:]
    # argument normalisation, `tasks = []` first, `return tasks` last
    rest = []
    seen_init = False
    for st in body:
        if is_args_norm(st):
            continue
        if ast.unparse(st) == "tasks = []" and not seen_init:
            seen_init = True
            continue
        rest.append(st)
    if not seen_init:
        raise Untranslatable("missing `tasks = []`")
    if not rest or ast.unparse(rest[-1]) != "return tasks":
        raise Untranslatable("function must end with `return tasks`")
    rest = rest[:-1]

    # mutable integer locals = every Name assigned anywhere in the remaining body
    muts = []
    for node in ast.walk(ast.Module(body=rest, type_ignores=[])):
        tg = []
        if isinstance(node, ast.Assign):
            tg = node.targets
        elif isinstance(node, ast.AugAssign):
            tg = [node.target]
        for t in tg:
            if not isinstance(t, ast.Name):
                fail(t, "assignment target must be a plain name")
            if t.id in ("tasks", "args", "arr", "n_tasks", "n_batches", "start_idx"):
                fail(t, "re-assignment of a parameter or of the task list")
            if t.id not in muts:
                muts.append(t.id)
    env = Env()
    for p in ("n_tasks", "n_batches", "start_idx"):
        env.declare(p, "pz")
    for m in muts:
        env.declare(m, "mz")
    tr = BatchTr(env)
    body_term = tr.block(rest, env)
    fields = [("v_" + m, "Z", "0") for m in muts] + [("v_tasks", "list task", "[]")]
    out = []
    out.append("(* GENERATED by tools/py2v_batch.py from thejoker/utils.py::batch_tasks -- do not edit. *)")
    out.append("From Coq Require Import ZArith List Bool.")
    out.append("From TJ Require Import Base.Imp.")
    out.append("Import ListNotations. Open Scope Z_scope.")
    out.append("")
    out.append("(* one task as put on the list:  [(i1, i2), id] + args   or   [arr[lo:hi], id] + args *)")
    out.append("Inductive task := TIdx (i1 i2 id : Z) | TArr (lo hi id : Z).")
    out.append(record_decl("bt_state", fields))
    init = "; ".join(f"{n} := {d}" for n, _, d in fields)
    out.append(f"Definition bt_init : bt_state := {{| {init} |}}.")
    out.append("")
    out.append("Definition batch_tasks_body (n_tasks n_batches start_idx : Z) (arr_is_none : bool) (s : bt_state) : bt_state :=")
    out.append(body_term + ".")
    out.append("")
    out.append("Definition batch_tasks_gen (n_tasks n_batches start_idx : Z) (arr_is_none : bool) : list task :=")
    out.append("  v_tasks (batch_tasks_body n_tasks n_batches start_idx arr_is_none bt_init).")
    return "\n".join(out) + "\n"


def main():
    repo, outp = sys.argv[1], sys.argv[2]
    try:
        txt = translate(repo)
    except Untranslatable as e:
        print(f"py2v_batch: UNTRANSLATABLE: {e}", file=sys.stderr)
        sys.exit(2)
    except SyntaxError as e:
        print(f"py2v_batch: UNTRANSLATABLE: syntax error {e}", file=sys.stderr)
        sys.exit(2)
    old = open(outp).read() if os.path.exists(outp) else None
    if old != txt:
        os.makedirs(os.path.dirname(outp), exist_ok=True)
        with open(outp, "w") as f:
            f.write(txt)
        print("py2v_batch: regenerated", outp)
    else:
        print("py2v_batch: unchanged", outp)


if __name__ == "__main__":
    main()
