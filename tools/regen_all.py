#!/venv/bin/python
"""Run every translator: <repo-root> <coq-dir>.  Exit status 0 even if one is untranslatable
(the check of the affected property reports that as a broken tie)."""
import os
import subprocess
import sys

HERE = os.path.dirname(os.path.abspath(__file__))
JOBS = [
    ("py2v_batch.py", "Gen/BatchTasksGen.v"),
    ("py2v_runworker.py", "Gen/RunWorkerGen.v"),
    ("py2v_tempfile.py", "Gen/TempfileSkel.v"),
    ("pyx2v.py", "Gen/KernelPyx.v"),
    ("py2v_reject.py", "Gen/RejectSites.v"),
    ("consts2v.py", "Gen/ConstsGen.v"),
    ("py2v_iter.py", "Gen/IterBook.v"),
    ("py2v_diag.py", "Gen/DiagGen.v"),
    ("py2v_design.py", "Gen/DesignGen.v"),
    ("py2v_readbatch.py", "Gen/ReadBatchGen.v"),
    ("py2v_samples.py", "Gen/SamplesGen.v"),
    ("py2v_data.py", "Gen/DataGen.v"),
    ("py2v_entry.py", "Gen/EntryGen.v"),
    ("py2v_prior.py", "Gen/PriorGen.v"),
    ("py2v_write.py", "Gen/WriteGen.v"),
    ("py2v_mcmc.py", "Gen/McmcGen.v"),
]
if __name__ == "__main__":
    repo, coq = sys.argv[1], sys.argv[2]
    for script, out in JOBS:
        r = subprocess.run(["/venv/bin/python", os.path.join(HERE, script), repo, os.path.join(coq, out)])
        if r.returncode != 0:
            print(f"regen_all: {script} failed ({r.returncode})", file=sys.stderr)
