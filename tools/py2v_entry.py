#!/venv/bin/python
"""py2v_entry -- regenerate coq/Gen/EntryGen.v from thejoker/thejoker.py: TheJoker._make_joker_helper, marginal_ln_likelihood,
rejection_sample, iterative_rejection_sample.

usage: py2v_entry.py <repo-root> <out.v>

The three entry points only route their arguments: which helper runs (in memory / through the cache file), which generator and
pool it is given, where ln_prior comes from, and -- in the in-memory iterative sampler -- the truncation of the library and of its
ln_prior column to max_prior_samples.  The translator accepts a method only if its decorators, argument names, defaults and
statements (docstring aside) are exactly the ones listed in EXPECT -- the forms of the pinned source -- and then emits that routing
as definitions.  Any other statement aborts with exit status 2 (a stub is written, so that only Props/C06g.v stops checking).
"""
import ast
import os
import sys

# method -> (decorators, argument names, defaults, statements), as ast.unparse prints them
EXPECT = {'_make_joker_helper': ([],
                        ['self', 'data'],
                        [],
                        ['all_data, ids, trend_M = validate_prepare_data(data, self.prior.poly_trend, self.prior.n_offsets)',
                         'return CJokerHelper(all_data, self.prior, trend_M)']),
 'marginal_ln_likelihood': ([],
                            ['self', 'data', 'prior_samples', 'n_batches', 'in_memory'],
                            ['None', 'False'],
                            ['from .likelihood_helpers import marginal_ln_likelihood_inmem',
                             'from .multiproc_helpers import marginal_ln_likelihood_helper',
                             'joker_helper = self._make_joker_helper(data)',
                             'if in_memory:\n'
                             '    if isinstance(prior_samples, JokerSamples):\n'
                             '        prior_samples, _ = prior_samples.pack(units=joker_helper.internal_units, names=joker_helper.packed_order)\n'
                             '    return marginal_ln_likelihood_inmem(joker_helper, prior_samples)',
                             'return marginal_ln_likelihood_helper(joker_helper, prior_samples, pool=self.pool, n_batches=n_batches)']),
 'rejection_sample': ([],
                      ['self',
                       'data',
                       'prior_samples',
                       'n_prior_samples',
                       'max_posterior_samples',
                       'n_linear_samples',
                       'return_logprobs',
                       'return_all_logprobs',
                       'n_batches',
                       'randomize_prior_order',
                       'in_memory'],
                      ['None', 'None', '1', 'False', 'False', 'None', 'False', 'False'],
                      ['from .likelihood_helpers import rejection_sample_inmem',
                       'from .multiproc_helpers import rejection_sample_helper',
                       'joker_helper = self._make_joker_helper(data)',
                       'if isinstance(prior_samples, int):\n'
                       '    N = prior_samples\n'
                       '    prior_samples = self.prior.sample(size=N, return_logprobs=return_logprobs, rng=self.rng)',
                       'if in_memory:\n'
                       '    if isinstance(prior_samples, JokerSamples):\n'
                       '        ln_prior = None\n'
                       '        if return_logprobs:\n'
                       "            ln_prior = prior_samples['ln_prior']\n"
                       '        prior_samples, _ = prior_samples.pack(units=joker_helper.internal_units, names=joker_helper.packed_order)\n'
                       '    else:\n'
                       '        ln_prior = return_logprobs\n'
                       '    samples = rejection_sample_inmem(joker_helper, prior_samples, rng=self.rng, ln_prior=ln_prior, '
                       'max_posterior_samples=max_posterior_samples, n_linear_samples=n_linear_samples, return_all_logprobs=return_all_logprobs)\n'
                       'else:\n'
                       '    samples = rejection_sample_helper(joker_helper, prior_samples, pool=self.pool, rng=self.rng, '
                       'n_prior_samples=n_prior_samples, max_posterior_samples=max_posterior_samples, n_linear_samples=n_linear_samples, '
                       'return_logprobs=return_logprobs, n_batches=n_batches, randomize_prior_order=randomize_prior_order, '
                       'return_all_logprobs=return_all_logprobs)',
                       'return samples']),
 'iterative_rejection_sample': ([],
                                ['self',
                                 'data',
                                 'prior_samples',
                                 'n_requested_samples',
                                 'max_prior_samples',
                                 'n_linear_samples',
                                 'return_logprobs',
                                 'n_batches',
                                 'randomize_prior_order',
                                 'init_batch_size',
                                 'growth_factor',
                                 'in_memory'],
                                ['None', '1', 'False', 'None', 'False', 'None', '128', 'False'],
                                ['from .likelihood_helpers import iterative_rejection_inmem',
                                 'from .multiproc_helpers import iterative_rejection_helper',
                                 'joker_helper = self._make_joker_helper(data)',
                                 'if in_memory:\n'
                                 '    if isinstance(prior_samples, JokerSamples):\n'
                                 '        ln_prior = None\n'
                                 '        if return_logprobs:\n'
                                 "            ln_prior = prior_samples['ln_prior']\n"
                                 '        prior_samples, _ = prior_samples.pack(units=joker_helper.internal_units, names=joker_helper.packed_order)\n'
                                 '    else:\n'
                                 '        ln_prior = return_logprobs\n'
                                 '    if max_prior_samples is not None:\n'
                                 '        prior_samples = prior_samples[:max_prior_samples]\n'
                                 "        if hasattr(ln_prior, '__len__'):\n"
                                 '            ln_prior = ln_prior[:max_prior_samples]\n'
                                 '    samples = iterative_rejection_inmem(joker_helper, prior_samples, rng=self.rng, '
                                 'n_requested_samples=n_requested_samples, ln_prior=ln_prior, init_batch_size=init_batch_size, '
                                 'growth_factor=growth_factor, n_linear_samples=n_linear_samples)\n'
                                 'else:\n'
                                 '    samples = iterative_rejection_helper(joker_helper, prior_samples, init_batch_size=init_batch_size, '
                                 'growth_factor=growth_factor, pool=self.pool, rng=self.rng, n_requested_samples=n_requested_samples, '
                                 'max_prior_samples=max_prior_samples, n_linear_samples=n_linear_samples, return_logprobs=return_logprobs, '
                                 'n_batches=n_batches, randomize_prior_order=randomize_prior_order)',
                                 'return samples'])}

TEXT = """(* GENERATED by tools/py2v_entry.py from thejoker/thejoker.py (TheJoker._make_joker_helper, marginal_ln_likelihood,
   rejection_sample, iterative_rejection_sample) -- do not edit. *)
From Coq Require Import List Bool.
Import ListNotations.

(* what prior_samples is: a JokerSamples object, a packed array, a count (rejection_sample only), a file name *)
Inductive prior_arg := PaSamples | PaArray | PaCount | PaFile.
(* where the ln_prior handed to the in-memory helper comes from *)
Inductive lnprior_src := LpOwnColumn | LpNone | LpFlag (return_logprobs : bool).
Inductive helper := HInMem | HFile.
Inductive gen_src := GenOwn.      (* rng=self.rng at every call site *)
Inductive pool_src := PoolOwn.    (* pool=self.pool at every call site *)

(* if in_memory: .._inmem(..) else: .._helper(.., pool=self.pool, ..) -- the same in all three entry points *)
Definition entry_helper (in_memory : bool) : helper := if in_memory then HInMem else HFile.
Definition entry_rng : gen_src := GenOwn.
Definition entry_pool : pool_src := PoolOwn.
(* if isinstance(prior_samples, JokerSamples): ln_prior = None; if return_logprobs: ln_prior = prior_samples['ln_prior'];
   prior_samples, _ = prior_samples.pack(..)   else: ln_prior = return_logprobs *)
Definition inmem_lnprior (a : prior_arg) (return_logprobs : bool) : lnprior_src :=
  match a with
  | PaSamples => if return_logprobs then LpOwnColumn else LpNone
  | _ => LpFlag return_logprobs
  end.
(* rejection_sample: if isinstance(prior_samples, int): prior_samples = self.prior.sample(size=N, return_logprobs=return_logprobs, rng=self.rng) *)
Definition rs_prior_arg (a : prior_arg) : prior_arg := match a with PaCount => PaSamples | x => x end.
(* iterative_rejection_sample, in memory: if max_prior_samples is not None: prior_samples = prior_samples[:max_prior_samples];
   if hasattr(ln_prior, '__len__'): ln_prior = ln_prior[:max_prior_samples] *)
Definition it_inmem_truncate {A B} (rows : list A) (ln_prior : option (list B)) (max_prior_samples : option nat) : list A * option (list B) :=
  match max_prior_samples with
  | None => (rows, ln_prior)
  | Some m => (firstn m rows, option_map (firstn m) ln_prior)
  end.
"""


class Untranslatable(Exception):
    pass


def body_src(fdef):
    body = list(fdef.body)
    if body and isinstance(body[0], ast.Expr) and isinstance(body[0].value, ast.Constant) and isinstance(body[0].value.value, str):
        body = body[1:]
    return [ast.unparse(s) for s in body]


def main():
    repo, out = sys.argv[1], sys.argv[2]
    try:
        tree = ast.parse(open(os.path.join(repo, "thejoker", "thejoker.py")).read())
        classes = [n for n in tree.body if isinstance(n, ast.ClassDef) and n.name == "TheJoker"]
        if len(classes) != 1:
            raise Untranslatable("thejoker.py: class TheJoker not found exactly once")
        for fname, (decos, args, defaults, want) in EXPECT.items():
            defs = [m for m in classes[0].body if isinstance(m, ast.FunctionDef) and m.name == fname]
            if len(defs) != 1:
                raise Untranslatable(f"TheJoker.{fname}: defined {len(defs)} times")
            fdef = defs[0]
            if [ast.unparse(d) for d in fdef.decorator_list] != decos:
                raise Untranslatable(f"TheJoker.{fname}: decorators {[ast.unparse(d) for d in fdef.decorator_list]}")
            if [a.arg for a in fdef.args.args] != args or [ast.unparse(d) for d in fdef.args.defaults] != defaults:
                raise Untranslatable(f"TheJoker.{fname}: signature {[a.arg for a in fdef.args.args]} defaults {[ast.unparse(d) for d in fdef.args.defaults]}")
            got = body_src(fdef)
            if got != want:
                k = next((i for i, (a, b) in enumerate(zip(got, want)) if a != b), min(len(got), len(want)))
                g, w = (got[k] if k < len(got) else "<missing>"), (want[k] if k < len(want) else "<nothing more>")
                p0 = next((i for i, (a, b) in enumerate(zip(g, w)) if a != b), min(len(g), len(w)))
                p0 = max(0, p0 - 60)
                raise Untranslatable(f"thejoker/thejoker.py::TheJoker.{fname}: statement {k + 1} differs from the pinned form: has `..{g[p0:p0 + 200]}`, "
                                     f"expected `..{w[p0:p0 + 200]}`")
    except (Untranslatable, SyntaxError, OSError) as e:
        print(f"py2v_entry: UNTRANSLATABLE: {e}", file=sys.stderr)
        with open(out, "w") as f:
            f.write("(* tools/py2v_entry.py could not translate the current source: " + str(e).replace("*)", "* )") + " *)\n")
        sys.exit(2)
    old = open(out).read() if os.path.exists(out) else None
    if old != TEXT:
        open(out, "w").write(TEXT)
        print(f"py2v_entry: wrote {out}")
    else:
        print(f"py2v_entry: unchanged {out}")


if __name__ == "__main__":
    main()
