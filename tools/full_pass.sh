#!/bin/bash
# full_pass.sh [tier] : every registered check once on the current tree, sequentially; summary on stdout, logs in /tmp/full_pass/
TIER="${1:-quick}"; HERE="$(cd "$(dirname "$0")/.." && pwd)"; LOGS="${FULL_PASS_LOGS:-/tmp/full_pass}"; mkdir -p "$LOGS"; cd "$HERE"
[ -f coq/Makefile ] || make setup > "$LOGS/setup.log" 2>&1
for P in $(/venv/bin/python -c "import json; print(' '.join(c['property_id'] for c in json.load(open('MANIFEST.json'))['checks']))"); do
  s=$(date +%s); timeout 7200 ./check $P --tier $TIER > "$LOGS"/$P.log 2>&1; rc=$?
  echo "$P rc=$rc $(( $(date +%s) - s ))s $(grep -E 'VIOLATION|KNOWN-FINDING' "$LOGS"/$P.log | head -3 | tr '\n' ' ')"
done
