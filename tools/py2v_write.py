#!/venv/bin/python
"""py2v_write -- regenerate coq/Gen/WriteGen.v from thejoker/samples_helpers.py (write_table_hdf5, _custom_tbl_dtype_compare) and
thejoker/samples.py (JokerSamples.write).

usage: py2v_write.py <repo-root> <out.v>

write_table_hdf5 is a vendored copy of astropy's HDF5 writer.  What a samples file holds afterwards is decided by its control flow:
file exists / append / overwrite at the file level (remove, refuse, open in 'a' or 'w'), then at the group level (table present:
replace table AND its serialized metadata, append after a metadata merge and a datatype comparison, or refuse), then either the
creation of the two datasets or the extension of the table.  The translator accepts the functions only if their decorators,
argument names and statements (docstrings aside) are exactly the ones listed in EXPECT -- the forms of the pinned source -- and
then emits that control flow over a two-dataset file model.  Any other statement aborts with exit status 2 (a stub is written, so
that only Proofs/WriteGenProofs.v and Props/C12w.v stop checking).
"""
import ast
import os
import sys

# (file, class, function) -> (decorators, argument names, statements), as ast.unparse prints them
EXPECT = {('samples_helpers.py', None, '_custom_tbl_dtype_compare'): ([],
                                                             ['dtype1', 'dtype2'],
                                                             ['if len(dtype1) != len(dtype2):\n    return False',
                                                              'for d1, d2 in zip(dtype1, dtype2):\n'
                                                              '    for k in set(list(d1.keys()) + list(d2.keys())):\n'
                                                              "        if k == 'unit':\n"
                                                              "            if d1.get(k, '') != '' and k not in d2:\n"
                                                              '                return False\n'
                                                              "            if d2.get(k, '') != '' and k not in d1:\n"
                                                              '                return False\n'
                                                              "            if d1.get(k, '') != d2.get(k, ''):\n"
                                                              '                return False\n'
                                                              "        elif d1.get(k, '1') != d2.get(k, '2'):\n"
                                                              '            return False',
                                                              'return True']),
 ('samples_helpers.py', None, 'write_table_hdf5'): ([],
                                                    ['table',
                                                     'output',
                                                     'path',
                                                     'compression',
                                                     'append',
                                                     'overwrite',
                                                     'serialize_meta',
                                                     'metadata_conflicts',
                                                     'create_dataset_kwargs'],
                                                    ['from astropy.table import meta',
                                                     'try:\n'
                                                     '    import h5py\n'
                                                     'except ImportError:\n'
                                                     "    raise Exception('h5py is required to read and write HDF5 files')",
                                                     'if path is None:\n'
                                                     "    path = '__astropy_table__'\n"
                                                     "elif path.endswith('/'):\n"
                                                     "    raise ValueError('table path should end with table name, not /')",
                                                     "if '/' in path:\n    group, name = path.rsplit('/', 1)\nelse:\n    group, name = (None, path)",
                                                     'if isinstance(output, (h5py.File, h5py.Group)):\n'
                                                     "    if len(list(output.keys())) > 0 and name == '__astropy_table__':\n"
                                                     "        raise ValueError('table path should always be set via the path= argument when writing "
                                                     "to existing files')\n"
                                                     "    elif name == '__astropy_table__':\n"
                                                     "        warnings.warn(f'table path was not set via the path= argument; using default path "
                                                     "{path}')\n"
                                                     '    if group:\n'
                                                     '        try:\n'
                                                     '            output_group = output[group]\n'
                                                     '        except (KeyError, ValueError):\n'
                                                     '            output_group = output.create_group(group)\n'
                                                     '    else:\n'
                                                     '        output_group = output\n'
                                                     'elif isinstance(output, str):\n'
                                                     '    if os.path.exists(output) and (not append):\n'
                                                     '        if overwrite and (not append):\n'
                                                     '            os.remove(output)\n'
                                                     '        else:\n'
                                                     "            raise OSError(f'File exists: {output}')\n"
                                                     "    f = h5py.File(output, 'a' if append else 'w')\n"
                                                     '    try:\n'
                                                     '        return write_table_hdf5(table, f, path=path, compression=compression, append=append, '
                                                     'overwrite=overwrite, serialize_meta=serialize_meta, **create_dataset_kwargs)\n'
                                                     '    finally:\n'
                                                     '        f.close()\n'
                                                     'else:\n'
                                                     "    raise TypeError('output should be a string or an h5py File or Group object')",
                                                     'existing_header = None',
                                                     'if name in output_group:\n'
                                                     '    if append and overwrite:\n'
                                                     '        del output_group[name]\n'
                                                     '        if meta_path(name) in output_group:\n'
                                                     '            del output_group[meta_path(name)]\n'
                                                     '    elif append:\n'
                                                     '        if meta_path(name) not in output_group:\n'
                                                     "            raise ValueError('No metadata exists for existing table. We can only append tables "
                                                     "if metadata is consistent for all tables')\n"
                                                     "        existing_header = get_header_from_yaml((h.decode('utf-8') for h in "
                                                     'output_group[meta_path(name)]))\n'
                                                     '    else:\n'
                                                     "        raise OSError(f'Table {path} already exists')",
                                                     'table = _encode_mixins(table)',
                                                     "if any((col.info.dtype.kind == 'U' for col in table.itercols())):\n"
                                                     '    table = table.copy(copy_data=False)\n'
                                                     '    table.convert_unicode_to_bytestring()',
                                                     'if serialize_meta is False:\n'
                                                     '    for col in table.itercols():\n'
                                                     "        for attr in ('unit', 'format', 'description', 'meta'):\n"
                                                     '            if getattr(col.info, attr, None) not in (None, {}):\n'
                                                     '                warnings.warn("table contains column(s) with defined \'unit\', \'format\', '
                                                     "'description', or 'meta' info attributes. These will be dropped since "
                                                     'serialize_meta=False.", AstropyUserWarning)',
                                                     'if existing_header is None:\n'
                                                     '    if compression:\n'
                                                     '        if compression is True:\n'
                                                     "            compression = 'gzip'\n"
                                                     '        dset = output_group.create_dataset(name, data=table.as_array(), '
                                                     'compression=compression, **create_dataset_kwargs)\n'
                                                     '    else:\n'
                                                     '        dset = output_group.create_dataset(name, data=table.as_array(), '
                                                     '**create_dataset_kwargs)\n'
                                                     '    if serialize_meta:\n'
                                                     '        header_yaml = meta.get_yaml_from_table(table)\n'
                                                     "        header_encoded = [h.encode('utf-8') for h in header_yaml]\n"
                                                     '        output_group.create_dataset(meta_path(name), data=header_encoded)\n'
                                                     '    else:\n'
                                                     '        for key in table.meta:\n'
                                                     '            val = table.meta[key]\n'
                                                     '            try:\n'
                                                     '                dset.attrs[key] = val\n'
                                                     '            except TypeError:\n'
                                                     "                warnings.warn(f'Attribute `{key}` of type {type(val)} cannot be written to "
                                                     "HDF5 files - skipping. (Consider specifying serialize_meta=True to write all meta data)', "
                                                     'AstropyUserWarning)\n'
                                                     'else:\n'
                                                     '    try:\n'
                                                     "        metadata.merge(existing_header['meta'], table.meta, "
                                                     'metadata_conflicts=metadata_conflicts)\n'
                                                     '    except metadata.MergeConflictError:\n'
                                                     '        raise metadata.MergeConflictError("Cannot append table to existing file because the '
                                                     "existing file table metadata and this table object's metadata do not match. If you want to "
                                                     'ignore this issue, or change to a warning, set metadata_conflicts=\'silent\' or \'warn\'.")\n'
                                                     '    this_header = get_header_from_yaml(get_yaml_from_table(table))\n'
                                                     "    if not _custom_tbl_dtype_compare(existing_header['datatype'], this_header['datatype']):\n"
                                                     '        raise ValueError(f"Cannot append table to existing file because the existing file '
                                                     "table datatype and this object's table datatype do not match. {existing_header['datatype']} "
                                                     'vs. {this_header[\'datatype\']}")\n'
                                                     '    current_size = len(output_group[name])\n'
                                                     '    output_group[name].resize((current_size + len(table),))\n'
                                                     '    output_group[name][current_size:] = table.as_array()']),
 ('samples.py', 'JokerSamples', 'write'): ([],
                                           ['self', 'output', 'overwrite', 'append'],
                                           ['if isinstance(output, str):\n'
                                            '    try:\n'
                                            '        ext = os.path.splitext(output)[1]\n'
                                            '    except Exception:\n'
                                            "        raise ValueError(f'Invalid file name to save samples to: {output}')\n"
                                            "    if ext not in ['.hdf5', '.h5', '.fits']:\n"
                                            "        raise NotImplementedError('We currently only support writing to HDF5 files, with extension "
                                            ".hdf5 or .h5, or FITS files.')\n"
                                            'else:\n'
                                            "    ext = ''",
                                            "if ext == '.fits':\n"
                                            '    from astropy.io import fits\n'
                                            '    if append:\n'
                                            '        raise NotImplementedError()\n'
                                            '    t = self.tbl.copy()\n'
                                            "    if 't0' in t.meta:\n"
                                            "        warnings.warn('This data file was produced with a deprecated version of The Joker and uses old "
                                            "naming conventions for the reference time. This file may not work with future versions of thejoker.', "
                                            'DeprecationWarning)\n'
                                            "        t.meta['t_ref'] = t.meta['t0']\n"
                                            "    if t.meta.get('t_ref', None) is not None:\n"
                                            "        t.meta['__t_ref_bmjd'] = t.meta.pop('t_ref').tcb.mjd\n"
                                            '    with warnings.catch_warnings():\n'
                                            "        warnings.simplefilter('ignore', category=fits.verify.VerifyWarning)\n"
                                            '        t.write(output, overwrite=overwrite)\n'
                                            'else:\n'
                                            '    write_table_hdf5(self.tbl, output, path=self._hdf5_path, compression=False, append=append, '
                                            "overwrite=overwrite, serialize_meta=True, metadata_conflicts='error', maxshape=(None,))"])}

# the by-name call re-enters write_table_hdf5 without forwarding metadata_conflicts, so its DEFAULT decides what a conflicting append does
DEFAULTS = {("samples_helpers.py", "write_table_hdf5"): ["None", "False", "False", "False", "False", "'error'"],
            ("samples.py", "write"): ["False", "False"]}

TEXT = """(* GENERATED by tools/py2v_write.py from thejoker/samples_helpers.py (write_table_hdf5) and thejoker/samples.py (JokerSamples.write,
   HDF5 branch: write_table_hdf5(tbl, output, path, append=append, overwrite=overwrite, serialize_meta=True, metadata_conflicts='error'))
   -- do not edit. *)
From Coq Require Import List Bool.
From TJ Require Import Base.XQ Model.Store.
Import ListNotations.

(* an HDF5 samples file: the table dataset `samples` and the dataset `samples.__table_column_meta__` with the serialized header
   (column names, units) and metadata; None = that dataset does not exist.  No file at all = None. *)
Record h5 := mk_h5 { h_tbl : option (list (list XQ)); h_meta : option (header * meta) }.
Definition fstate := option h5.
Definition empty_h5 : h5 := mk_h5 None None.
Inductive gres := GOk | GExists | GIncompatible | GCrash.   (* GCrash: an exception that is not one of the documented refusals *)

(* if existing_header is None: create_dataset(name, data=table.as_array()); create_dataset(meta_path(name), data=header) -- h5py
   refuses to create a dataset whose name exists *)
Definition create_gen (t : tbl) (g : h5) : fstate * gres :=
  match h_meta g with
  | Some _ => (Some (mk_h5 (Some (t_rows t)) (h_meta g)), GCrash)
  | None => (Some (mk_h5 (Some (t_rows t)) (Some (t_hdr t, t_meta t))), GOk)
  end.
(* the call on an open file / group *)
Definition group_level_gen (app ow : bool) (t : tbl) (g : h5) : fstate * gres :=
  match h_tbl g with
  | Some rows =>                                       (* if name in output_group: *)
      if app && ow then                                (*   if append and overwrite: del output_group[name]; del its metadata if present *)
        create_gen t (mk_h5 None None)
      else if app then                                 (*   elif append: *)
        match h_meta g with
        | None => (Some g, GIncompatible)              (*     no metadata for the existing table: ValueError *)
        | Some (hdr, m) =>
            if negb (meta_eqb m (t_meta t)) then (Some g, GIncompatible)        (* metadata.merge(.., 'error'): MergeConflictError *)
            else if negb (hdr_eqb hdr (t_hdr t)) then (Some g, GIncompatible)   (* _custom_tbl_dtype_compare: ValueError *)
            else (Some (mk_h5 (Some (rows ++ t_rows t)) (h_meta g)), GOk)       (* resize; [current_size:] = table *)
        end
      else (Some g, GExists)                           (*   else: OSError(table already exists) *)
  | None => create_gen t g
  end.
(* the call with a file name *)
Definition write_gen (ow app : bool) (t : tbl) (f : fstate) : fstate * gres :=
  match f with
  | Some g =>
      if negb app then                                 (* if os.path.exists(output) and not append: *)
        if ow && negb app then group_level_gen app ow t empty_h5   (* os.remove(output); h5py.File(output, 'w') *)
        else (f, GExists)                              (*   raise OSError(File exists) *)
      else group_level_gen app ow t g                  (* h5py.File(output, 'a') *)
  | None => group_level_gen app ow t empty_h5          (* h5py.File(output, 'a' if append else 'w') creates the file *)
  end.
"""


class Untranslatable(Exception):
    pass


def body_src(fdef):
    body = list(fdef.body)
    if body and isinstance(body[0], ast.Expr) and isinstance(body[0].value, ast.Constant) and isinstance(body[0].value.value, str):
        body = body[1:]
    return [ast.unparse(s) for s in body]


def main():
    repo, out = sys.argv[1], sys.argv[2]
    try:
        trees = {}
        for (rel, cls, fname), (decos, args, want) in EXPECT.items():
            if rel not in trees:
                trees[rel] = ast.parse(open(os.path.join(repo, "thejoker", rel)).read())
            scope = trees[rel].body
            if cls:
                classes = [n for n in scope if isinstance(n, ast.ClassDef) and n.name == cls]
                if len(classes) != 1:
                    raise Untranslatable(f"{rel}: class {cls} not found exactly once")
                scope = classes[0].body
            defs = [m for m in scope if isinstance(m, ast.FunctionDef) and m.name == fname]
            if len(defs) != 1:
                raise Untranslatable(f"{rel}::{fname}: defined {len(defs)} times")
            fdef = defs[0]
            if [ast.unparse(d) for d in fdef.decorator_list] != decos:
                raise Untranslatable(f"{rel}::{fname}: decorators {[ast.unparse(d) for d in fdef.decorator_list]}")
            got_args = [a.arg for a in fdef.args.args] + [a.arg for a in fdef.args.kwonlyargs] + ([fdef.args.kwarg.arg] if fdef.args.kwarg else [])
            if got_args != args:
                raise Untranslatable(f"{rel}::{fname}: signature {got_args}")
            got_defaults = [ast.unparse(d) for d in fdef.args.defaults]
            if (rel, fname) in DEFAULTS and got_defaults != DEFAULTS[(rel, fname)]:
                raise Untranslatable(f"{rel}::{fname}: argument defaults {got_defaults}, expected {DEFAULTS[(rel, fname)]}")
            got = body_src(fdef)
            if got != want:
                k = next((i for i, (a, b) in enumerate(zip(got, want)) if a != b), min(len(got), len(want)))
                g, w = (got[k] if k < len(got) else "<missing>"), (want[k] if k < len(want) else "<nothing more>")
                p0 = next((i for i, (a, b) in enumerate(zip(g, w)) if a != b), min(len(g), len(w)))
                p0 = max(0, p0 - 60)
                raise Untranslatable(f"thejoker/{rel}::{fname}: statement {k + 1} differs from the pinned form: has `..{g[p0:p0 + 200]}`, "
                                     f"expected `..{w[p0:p0 + 200]}`")
    except (Untranslatable, SyntaxError, OSError) as e:
        print(f"py2v_write: UNTRANSLATABLE: {e}", file=sys.stderr)
        with open(out, "w") as f:
            f.write("(* tools/py2v_write.py could not translate the current source: " + str(e).replace("*)", "* )") + " *)\n")
        sys.exit(2)
    old = open(out).read() if os.path.exists(out) else None
    if old != TEXT:
        open(out, "w").write(TEXT)
        print(f"py2v_write: wrote {out}")
    else:
        print(f"py2v_write: unchanged {out}")


if __name__ == "__main__":
    main()
