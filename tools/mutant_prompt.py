#!/venv/bin/python
"""Print the prompt handed to a fresh sub-agent that is asked to break one property (nothing from /verif but the property text)."""
import json, sys
pid = sys.argv[1]
n = int(sys.argv[2]) if len(sys.argv) > 2 else 2
p = next(json.loads(l) for l in open("/verif/properties.jsonl") if json.loads(l)["id"] == pid)
wt = f"/tmp/wt/{pid}"
out = f"/tmp/wt/{pid}_out"
print(f"""You are helping to evaluate a verification setup by playing the adversary. Work ONLY inside your own scratch git worktree of the Python package adrn/thejoker at {wt} and your output directory {out}. Do NOT read, list or touch /verif, and do NOT modify /repo (the worktree is a separate checkout; edit files only under {wt}).

PROPERTY ({p['id']}: {p['title']})
{p['statement']}
Quantified over: {p['quantifier']['text']}

TASK
Produce {n} DIFFERENT changes to the library source (files under {wt}/thejoker/, not tests) each of which BREAKS this property while
  (a) the package still imports and runs, and
  (b) the existing stable test suite still passes (see below).
Prefer realistic, subtle bugs that need something specific to manifest -- an unusual input, a particular option combination, a multi-step sequence of calls, a particular remainder/size/ordering, or two cooperating sites that each look fine alone -- NOT ones that ordinary use would expose at once. Each change should be small (a few lines), like a plausible regression a maintainer could introduce.

ENVIRONMENT
- Run Python as:  cd {wt} && PYTHONPATH={wt} /venv/bin/python ...   (this makes `import thejoker` use your worktree; verify with `python -c "import thejoker; print(thejoker.__file__)"`).
- There is no network and no Cython. The compiled extension thejoker/src/fast_likelihood*.so in your worktree was built from the generated C file thejoker/src/fast_likelihood.c (also in your worktree; it embeds the .pyx lines as comments). Editing fast_likelihood.pyx alone has NO runtime effect. If (and only if) your change is in the Cython kernel, make the same change in BOTH the .pyx and the generated .c and rebuild the .so in place with:
    cd {wt}/thejoker/src && gcc -O2 -shared -fPIC --std=gnu99 -w -I$(/venv/bin/python -c "import sysconfig;print(sysconfig.get_paths()['include'])") -I$(/venv/bin/python -c "import numpy;print(numpy.get_include())") -I/venv/lib/python3.12/site-packages/twobody fast_likelihood.c /venv/lib/python3.12/site-packages/twobody/src/twobody.c -o fast_likelihood.cpython-312-x86_64-linux-gnu.so -lm
  (note .c and .so are git-ignored, so `git diff` will not show them: in that case also save the C diff separately as described below).
- Stable test suite: run from the worktree
    cd {wt} && PYTHONPATH={wt} /venv/bin/python -m pytest -ra -q -p no:cacheprovider --timeout=900 --continue-on-collection-errors --junitxml=/tmp/wt/{pid}_junit.xml
  Many tests fail in this sandbox even on the unmodified tree (34 of them); what matters is that every test listed under "stable_pass" in /root/.vp/BASELINE.json (50 tests) still passes with your change. Check that programmatically from the junit xml (testcase classname::name, no failure/error/skipped child).
- Some tests/demos that build pymc models print FutureWarnings; ignore them.

DELIVERABLES (for change k = 1..{n}), all under {out}/:
  m<k>/patch.diff   -- `git diff` of the worktree for that change alone (apply-able with `git apply` on a clean checkout of the same commit). If you changed the generated C, also m<k>/c_patch.diff (`diff -u` of fast_likelihood.c, old vs new).
  m<k>/demo.py      -- a small self-contained program using only the public behaviour of thejoker that exits 0 on the UNCHANGED tree and exits non-zero (assertion failure with a clear message) with your change applied. It must be deterministic (fixed seeds).
  m<k>/meta.json    -- {{"property": "{pid}", "summary": "...", "files": [...], "needs_to_manifest": "what specific input/sequence/config is required", "why_tests_pass": "...", "ran": ["commands you ran and their outcome"]}}
Never use `git stash` (the stash is shared by all worktrees of this repository and other adversaries work in parallel: use `git diff > file` and `git apply file` instead). Between changes, restore the worktree (`git -C {wt} checkout -- .`, and rebuild/restore the .so/.c if you touched them: pristine copies are at /repo/thejoker/src/ -- you may READ/copy those two files from /repo but nothing else). Verify for each change yourself: demo fails with it, passes without it, and all 50 stable tests pass with it. Leave the worktree clean (no change applied) when done. Report briefly what you produced.
""")
