#!/bin/bash
# try_mutant.sh <prop> <mutant-dir> [--full]
# Applies <mutant-dir>/patch.diff to /repo, (with --full: demo fails, stable tests pass), runs the quick check, reverts.
set -u
P="$1"; D="$2"; FULL="${3:-}"
cd /repo
if ! git diff --quiet; then echo "REPO DIRTY - abort"; exit 9; fi
git apply --check "$D/patch.diff" || { echo "PATCH DOES NOT APPLY"; exit 8; }
if [ "$FULL" = "--full" ]; then
  (cd /tmp && PYTHONPATH=/repo timeout 900 /venv/bin/python "$D/demo.py" >/tmp/demo_clean.log 2>&1); echo "demo on clean tree: exit $?"
fi
git apply "$D/patch.diff"
restore() { cd /repo && git checkout -- . ; }
trap restore EXIT
if [ -f "$D/c_patch.diff" ]; then echo "NOTE: has c_patch.diff (generated C) - apply manually if needed"; fi
if [ "$FULL" = "--full" ]; then
  (cd /tmp && PYTHONPATH=/repo timeout 900 /venv/bin/python "$D/demo.py" >/tmp/demo_mut.log 2>&1); echo "demo on mutated tree: exit $?"
  /verif/tools/baseline_check.py /repo | head -5
fi
cd /verif && timeout 3000 ./check "$P" --tier quick > /tmp/mut_check.log 2>&1; rc=$?
echo "check exit: $rc"; grep -E "VIOLATION|KNOWN-FINDING|^\[$P\] tier" /tmp/mut_check.log | head -5
