#!/bin/bash
# try_mutant.sh <prop> <mutant-dir> [--full]
# Applies <mutant-dir>/patch.diff to /repo, (with --full: demo fails, stable tests pass), runs the quick check, reverts.
set -u
P="$1"; D="$2"; FULL="${3:-}"
V="$(dirname "$(dirname "$(realpath "$0")")")"   # the verification tree this script lives in
R="${VERIF_REPO:-/repo}"   # the tree the change is applied to (a scratch clone when /repo itself is in use)
export VERIF_REPO="$R"
cd "$R"
if ! git diff --quiet; then echo "REPO DIRTY - abort"; exit 9; fi
git apply --check "$D/patch.diff" || { echo "PATCH DOES NOT APPLY"; exit 8; }
if [ "$FULL" = "--full" ]; then
  (cd /tmp && PYTHONPATH="$R" timeout 900 /venv/bin/python "$D/demo.py" >/tmp/demo_clean.log 2>&1); echo "demo on clean tree: exit $?"
fi
git apply "$D/patch.diff"
SRC="$R"/thejoker/src; SO=fast_likelihood.cpython-312-x86_64-linux-gnu.so
restore() { cd "$R" && git checkout -- . ; if [ -f /tmp/try_mutant_c.bak ]; then mv /tmp/try_mutant_c.bak $SRC/fast_likelihood.c; mv /tmp/try_mutant_so.bak $SRC/$SO; fi; cd "$V" && git checkout -- evidence 2>/dev/null; }
trap restore EXIT
if [ -f "$D/c_patch.diff" ]; then
  # the change also edits the generated C (git-ignored): apply it to /repo's copy, rebuild the extension in place, restore both afterwards
  cp $SRC/fast_likelihood.c /tmp/try_mutant_c.bak; cp $SRC/$SO /tmp/try_mutant_so.bak
  (cd $SRC && patch -s fast_likelihood.c < "$D/c_patch.diff") || { echo "C PATCH DOES NOT APPLY"; exit 7; }
  cmp -s $SRC/fast_likelihood.c /tmp/try_mutant_c.bak && { echo "C PATCH CHANGED NOTHING"; exit 7; }
  (cd $SRC && gcc -O2 -shared -fPIC --std=gnu99 -w -I$(/venv/bin/python -c "import sysconfig;print(sysconfig.get_paths()['include'])") -I$(/venv/bin/python -c "import numpy;print(numpy.get_include())") -I/venv/lib/python3.12/site-packages/twobody fast_likelihood.c /venv/lib/python3.12/site-packages/twobody/src/twobody.c -o $SO -lm) || { echo "C BUILD FAILED"; exit 6; }
  echo "applied c_patch.diff and rebuilt the extension in /repo (restored on exit)"
fi
if [ "$FULL" = "--full" ]; then
  (cd /tmp && PYTHONPATH="$R" timeout 900 /venv/bin/python "$D/demo.py" >/tmp/demo_mut.log 2>&1); echo "demo on mutated tree: exit $?"
  "$V"/tools/baseline_check.py "$R" | head -5
fi
cd "$V" && timeout 3000 ./check "$P" --tier quick > /tmp/mut_check.log 2>&1; rc=$?
echo "check exit: $rc"; grep -E "VIOLATION|KNOWN-FINDING|^\[$P\] tier" /tmp/mut_check.log | head -5
