#!/venv/bin/python
"""Regenerate the table of DESIGN.md 8.4 from seeded/*/meta.json (in place)."""
import glob, json, os, re
rows = []; first = strength = 0
for d in sorted(glob.glob("/verif/seeded/C*-m*"), key=lambda x: (x.split('/')[-1].split('-')[0], int(x.split('-m')[-1]))):
    m = json.load(open(d + "/meta.json")); name = os.path.basename(d)
    summ = (m.get("summary") or "").replace("|", "/").replace("\n", " ")
    summ = summ[:150] + ("..." if len(summ) > 150 else "")
    res = m.get("check_result", ""); note = (m.get("check_note") or "")
    st = ("strengthened" in res) or res == "missed-then-caught" or (re.search(r"initially|first run:|CRASHED|strengthened", note, re.I) is not None and not note.startswith("caught on the first run"))
    if st: strength += 1; resx = "strengthened, then caught"
    else: first += 1; resx = "caught"
    if note.startswith("caught on the first run") and m.get("detected_as"): note = m["detected_as"]
    elif m.get("detected_as") and int(name.split("-m")[1]) >= 3: note = note + " -> " + m["detected_as"]
    note = note.replace("|", "/").replace("\n", " ")
    note = note[:230] + ("..." if len(note) > 230 else "")
    rows.append(f"| {name} | {summ} | {resx} | {note} |")
table = "| id | change | result | what catches it |\n|---|---|---|---|\n" + "\n".join(rows) + "\n"
s = open("/verif/DESIGN.md").read()
a = s.index("| id | change | result | what catches it |")
b = s.index("\nOf the ", a)
s = s[:a] + table + s[b:]
s = re.sub(r"Of the \d+ seeded changes", f"Of the {len(rows)} seeded changes", s)
s = re.sub(r"(for their property\)) \d+ were caught by the first run of the check; \d+ needed", rf"\1 {first} were caught by the first run of the check; {strength} needed", s)
open("/verif/DESIGN.md", "w").write(s)
print(first, strength, len(rows))
