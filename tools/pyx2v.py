#!/venv/bin/python
"""pyx2v -- regenerate coq/Gen/KernelPyx.v from thejoker/src/fast_likelihood.pyx.

usage: pyx2v.py <repo-root> <out.v>

There is no Cython in this sandbox, so the .pyx can never be executed here: this translator is what
lets a source-level edit of the kernel be judged.  It turns, statement by statement (tools/imp2v.py),
  get_ivar, CJokerHelper.make_AAinv, .make_bBBinv, .likelihood_worker,
  the per-sample preludes of batch_marginal_ln_likelihood / batch_get_posterior_samples /
  test_likelihood_worker (everything up to and including the likelihood_worker call),
  and the mu/Lambda slotting loop of __init__
into Gallina functions over an abstract field (Base/Fops.v), with LAPACK / twobody calls as oracles.
Fail-closed: unknown statement forms abort with exit status 2.

Preprocessing (text level, Cython -> Python syntax): `cdef:` blocks are removed (declarations with an
initialiser become assignments), typed signatures lose their types, `&x` loses its `&`.
"""
import ast
import os
import re
import sys

sys.path.insert(0, os.path.dirname(os.path.abspath(__file__)))
from imp2v import Env, Translator, Untranslatable, fail, record_decl  # noqa: E402

# ---- expected attribute classification of CJokerHelper (verified against the cdef block) ----------------------
ATTR_TYPES = {
    "n_times": "int", "n_poly": "int", "n_offsets": "int", "n_linear": "int", "n_pars": "int",
    "t0": "double", "t": "double[::1]", "rv": "double[::1]", "ivar": "double[::1]", "s_ivar": "double[::1]",
    "trend_M": "double[:, ::1]", "M_T": "double[:,::1]", "mu": "double[::1]", "Lambda": "double[::1]",
    "fixed_K_prior": "int", "sigma_K0": "double", "P0": "double", "max_K": "double",
    "Btmp": "double[:, ::1]", "Atmp": "double[:, ::1]", "npar_ipiv": "int[::1]", "ntime_ipiv": "int[::1]",
    "npar_work": "double[::1]", "ntime_work": "double[::1]",
    "B": "double[:, ::1]", "Binv": "double[:, ::1]", "b": "double[::1]", "A": "double[:, ::1]", "Ainv": "double[:, ::1]", "a": "double[::1]",
}
STATE_A2 = ["Ainv", "Atmp", "A", "B", "Binv", "Btmp", "M_T"]
STATE_A1 = ["b", "a", "mu", "Lambda", "ivar", "s_ivar", "rv"]
PARAM_Z = ["n_times", "n_linear", "fixed_K_prior"]
PARAM_F = ["sigma_K0", "P0", "max_K", "t0"]
LOCAL_Z = ["info", "lwork", "nrhs"]
LOCAL_F = ["log_det_val", "chi2", "dy", "var", "P", "e", "om", "M0", "_ll", "ll"]


def norm_type(t):
    return t.replace(" ", "")


def grab_function(lines, header_re):
    """Return (header line index, body lines) of the function whose header matches header_re."""
    for i, ln in enumerate(lines):
        if re.match(header_re, ln):
            ind = len(ln) - len(ln.lstrip())
            j = i + 1
            # multi-line signature
            while not lines[j - 1].rstrip().endswith(":"):
                j += 1
            body = []
            while j < len(lines) and (lines[j].strip() == "" or len(lines[j]) - len(lines[j].lstrip()) > ind):
                body.append(lines[j])
                j += 1
            return i, body
    raise Untranslatable(f"function matching /{header_re}/ not found in the .pyx")


def strip_cdef_blocks(body):
    """Remove `cdef:` blocks; turn `type name = expr` declarations into assignments."""
    out = []
    k = 0
    while k < len(body):
        ln = body[k]
        if ln.strip() == "cdef:":
            ind = len(ln) - len(ln.lstrip())
            k += 1
            while k < len(body) and (body[k].strip() == "" or len(body[k]) - len(body[k].lstrip()) > ind):
                d = body[k]
                code = d.split("#")[0].rstrip()
                # join continuation lines of a declaration with an open bracket
                while code.count("(") > code.count(")"):
                    k += 1
                    code += " " + body[k].split("#")[0].strip()
                m = re.match(r"^(\s*)(?:unsigned\s+)?(?:int|double|char\*|double\[[^\]]*\]|int\[[^\]]*\])\s+(.*)$", code)
                if m and "=" in m.group(2) and "," not in m.group(2).split("=")[0]:
                    out.append(" " * (ind) + m.group(2).strip())
                k += 1
            continue
        out.append(ln)
        k += 1
    return out


def to_python(name, args, body):
    body = strip_cdef_blocks(body)
    txt = "\n".join(body)
    txt = txt.replace("&", "")
    src = f"def {name}({', '.join(args)}):\n" + txt + "\n"
    try:
        tree = ast.parse(src)
    except SyntaxError as e:
        raise Untranslatable(f"{name}: not parsable after preprocessing: {e}")
    return tree.body[0]


class KernelTr(Translator):
    def __init__(self, env, ret_kind):
        super().__init__(env)
        self.ret_kind = ret_kind  # 'z' or 'f'

    # names: INF / pi are constants
    def expr_f(self, node, env):
        if isinstance(node, ast.Name) and node.id == "INF":
            return "(finf fo)"
        if isinstance(node, ast.Name) and node.id == "pi":
            return "(fpi fo)"
        return super().expr_f(node, env)

    def is_int(self, node, env):
        if isinstance(node, ast.Name) and node.id in ("INF", "pi"):
            return False
        return super().is_int(node, env)

    def const_f(self, node):
        v = node.value
        if isinstance(v, float) and v == int(v):
            return f"(fz fo ({int(v)}))"
        return super().const_f(node)

    def pow_f(self, node, env):
        if ast.unparse(node.right) in ("-2 / 3.0", "(-2 / 3.0)"):
            return f"(fpow_m23 fo {self.expr_f(node.left, env)})"
        return super().pow_f(node, env)

    def call_f(self, node, env):
        f = ast.unparse(node.func)
        if f == "log" and len(node.args) == 1:
            return f"(flog fo {self.expr_f(node.args[0], env)})"
        if f == "fabs" and len(node.args) == 1:
            return f"(fabs fo {self.expr_f(node.args[0], env)})"
        if f == "min" and len(node.args) == 2:
            return f"(fmin fo {self.expr_f(node.args[0], env)} {self.expr_f(node.args[1], env)})"
        fail(node, "unsupported call in field context")

    def compare(self, l, op, r, node, env):
        return super().compare(l, op, r, node, env)

    # ---- loops over array indices: `for i in range(n)` becomes `for_range (Z.to_nat n) (fun i s => ..)` with i : nat, and a bare
    # loop variable used as a subscript is that nat (no Z round trip); loop variables are not allowed anywhere else ------------
    def index_nat(self, node, env):
        if isinstance(node, ast.Name) and env.k(node.id) == "pn":
            return node.id
        return super().index_nat(node, env)

    def expr_z(self, node, env):
        if isinstance(node, ast.Name) and env.k(node.id) == "pn":
            fail(node, "a loop index is used outside a subscript")
        return super().expr_z(node, env)

    def stmt(self, node, env):
        if isinstance(node, ast.For):
            it = node.iter
            if node.orelse or not (isinstance(it, ast.Call) and isinstance(it.func, ast.Name) and it.func.id == "range" and len(it.args) == 1
                                   and not it.keywords and isinstance(node.target, ast.Name)):
                fail(node, "only `for x in range(n)` loops are translated in the kernel")
            v = node.target.id
            sub = env.child()
            sub.declare(v, "pn", coqname=v)
            body = self.block(node.body, sub)
            return f"for_range (Z.to_nat {self.expr_z(it.args[0], env)}) (fun {v} s => {body}) s"
        return super().stmt(node, env)

    # ---- function bodies with returns --------------------------------------------------------------------
    def ret_expr(self, node, env):
        if node is None:
            fail(node, "bare return")
        return self.expr_z(node, env) if self.ret_kind == "z" else self.expr_f(node, env)

    def ends_with_return(self, stmts):
        return bool(stmts) and isinstance(stmts[-1], ast.Return)

    def is_info_check(self, st, retval):
        return (isinstance(st, ast.If) and ast.unparse(st.test) == "info != 0" and not st.orelse and len(st.body) == 1
                and isinstance(st.body[0], ast.Return) and ast.unparse(st.body[0].value) == retval)

    def lapack_call(self, st, name):
        return (isinstance(st, ast.Expr) and isinstance(st.value, ast.Call) and ast.unparse(st.value.func) == f"lapack.{name}")

    def block_ret(self, stmts, env):
        if not stmts:
            fail(ast.Pass(), "function body falls off the end without a return")
        st = stmts[0]
        rest = stmts[1:]
        # --- LAPACK oracle patterns ---
        if self.lapack_call(st, "dgetrf"):
            args = [ast.unparse(a) for a in st.value.args]
            if len(args) != 6 or args[0] != args[1] or args[0] != args[3] or args[5] != "info":
                fail(st, "unexpected dgetrf arguments")
            dim = args[0].strip("()")
            mat = re.fullmatch(r"\(?self\.(\w+)\[0, 0\]\)?", args[2])
            if not mat:
                fail(st, "dgetrf must factor a whole helper matrix")
            X = mat.group(1)
            retv = "-1" if self.ret_kind == "z" else "INF"
            if not (rest and self.is_info_check(rest[0], retv)):
                fail(st, "dgetrf must be followed by `if info != 0: return`")
            failv = "(-1)" if self.ret_kind == "z" else "(finf fo)"
            n = f"(Z.to_nat {self.expr_z(ast.parse(dim, mode='eval').body, env)})"
            if len(rest) >= 3 and self.lapack_call(rest[1], "dgetri"):
                a2 = [ast.unparse(a) for a in rest[1].value.args]
                if len(a2) != 7 or a2[0].strip("()") != dim or a2[2].strip("()") != dim or a2[6] != "info" or not re.fullmatch(rf"\(?self\.{X}\[0, 0\]\)?", a2[1]):
                    fail(rest[1], "unexpected dgetri arguments")
                if not self.is_info_check(rest[2], retv):
                    fail(rest[1], "dgetri must be followed by `if info != 0: return`")
                cont = self.block_ret(rest[3:], env)
                return (f"match o_inv orc {n} (v_{X} s) with\n | None => (s, {failv})\n | Some Y__ => let s := set_v_{X} Y__ s in\n {cont}\n end")
            cont = self.block_ret(rest[1:], env)
            return (f"match o_lu orc {n} (v_{X} s) with\n | None => (s, {failv})\n | Some Y__ => let s := set_v_{X} Y__ s in\n {cont}\n end")
        if self.lapack_call(st, "dsysv"):
            args = [ast.unparse(a) for a in st.value.args]
            if len(args) != 11 or args[0] != "uplo" or args[2] != "nrhs" or args[10] != "info":
                fail(st, "unexpected dsysv arguments")
            dim = args[1].strip("()")
            mat = re.fullmatch(r"\(?self\.(\w+)\[0, 0\]\)?", args[3])
            rhs = re.fullmatch(r"\(?self\.(\w+)\[0\]\)?", args[6])
            if not mat or not rhs or args[4].strip("()") != dim or args[7].strip("()") != dim:
                fail(st, "dsysv must solve a helper matrix against a helper vector")
            if not (rest and self.is_info_check(rest[0], "INF")):
                fail(st, "dsysv must be followed by `if info != 0: return INF`")
            n = f"(Z.to_nat {self.expr_z(ast.parse(dim, mode='eval').body, env)})"
            cont = self.block_ret(rest[1:], env)
            return (f"match o_solve orc {n} (v_{mat.group(1)} s) (v_{rhs.group(1)} s) with\n | None => (s, (finf fo))\n"
                    f" | Some x__ => let s := set_v_{rhs.group(1)} x__ s in\n {cont}\n end")
        if self.lapack_call(st, "dgetri"):
            fail(st, "dgetri without a preceding dgetrf")
        # --- returns and conditionals that may return ---
        if isinstance(st, ast.Return):
            return f"(s, {self.ret_expr(st.value, env)})"
        if isinstance(st, ast.If) and any(isinstance(n, ast.Return) for n in ast.walk(st)):
            if st.orelse:
                fail(st, "if/else with return")
            c = self.cond(st.test, env)
            return f"if {c} then (\n{self.block_ret(list(st.body) + rest, env)})\n else (\n{self.block_ret(rest, env)})"
        return f"let s := {self.stmt(st, env)} in\n{self.block_ret(rest, env)}"

    # ---- kernel-specific statements -----------------------------------------------------------------------
    def stmt_special(self, node, env):
        src = ast.unparse(node)
        # calls of other kernel routines
        m = re.fullmatch(r"(\w+) = self\.make_AAinv\(\)", src)
        if m:
            return f"(let '(s1__, r__) := make_AAinv s in {env.setter(m.group(1))} r__ s1__)"
        m = re.fullmatch(r"(\w+) = self\.make_bBBinv\(\)", src)
        if m:
            return f"(let '(s1__, r__) := make_bBBinv s in {env.setter(m.group(1))} r__ s1__)"
        if src.startswith("c_rv_from_elements("):
            args = [ast.unparse(a) for a in node.value.args]
            if len(args) != 11 or args[0] != "self.t[0]" or args[1] != "self.M_T[0, 0]" or args[2] != "self.n_times" or args[9:] != ["anomaly_tol", "anomaly_maxiter"]:
                fail(node, "unexpected c_rv_from_elements call")
            a = [self.expr_f(x, env) for x in node.value.args[3:9]]
            nt = env.ref("self.n_times")
            return (f"set_v_M_T (fun i__ j__ => if Nat.eqb i__ 0 && Nat.ltb j__ (Z.to_nat {nt}) then o_kepler orc {' '.join(a)} j__ "
                    f"else v_M_T s i__ j__) s")
        m = re.fullmatch(r"get_ivar\(self\.(\w+), (.+), self\.(\w+)\)", src)
        if m:
            sval = self.expr_f(node.value.args[1], env)
            return f"set_v_{m.group(3)} (get_ivar {env.ref('self.n_times')} (v_{m.group(1)} s) {sval} (v_{m.group(3)} s)) s"
        if isinstance(node, ast.Expr) and isinstance(node.value, ast.Constant):
            return "s"
        return None

    def name_of(self, node):
        if isinstance(node, ast.Call):
            fail(node, "call where a variable was expected")
        return super().name_of(node)


def base_env():
    env = Env()
    for a in STATE_A2:
        env.declare("self." + a, "a2", coqname="v_" + a)
    for a in STATE_A1:
        env.declare("self." + a, "a1", coqname="v_" + a)
    for a in PARAM_Z:
        env.declare("self." + a, "pz", coqname="p_" + a)
    for a in PARAM_F:
        env.declare("self." + a, "pf", coqname="p_" + a)
    for a in LOCAL_Z:
        env.declare(a, "mz", coqname="l_" + a)
    for a in LOCAL_F:
        env.declare(a, "mf", coqname="l_" + a)
    return env


def check_class_decls(lines):
    i, body = grab_function(lines, r"^cdef class CJokerHelper:")
    found = {}
    for ln in body:
        code = ln.split("#")[0].strip()
        m = re.match(r"^(?:public\s+)?(int|double(?:\[[^\]]*\])?|int\[[^\]]*\])\s+(\w+)$", code)
        if m:
            found[m.group(2)] = norm_type(m.group(1))
        if code.startswith("def __reduce__"):
            break
    for k, t in ATTR_TYPES.items():
        if k not in found:
            raise Untranslatable(f"CJokerHelper attribute {k} is not declared in the cdef block")
        if found[k] != norm_type(t):
            raise Untranslatable(f"CJokerHelper.{k} declared as {found[k]}, expected {norm_type(t)}")


def translate_prelude(lines, fname, header_re, upto_re, out_name, row_expr):
    """Translate the per-sample prelude of a batch function: statements of the loop body up to the worker call."""
    _, body = grab_function(lines, header_re)
    fn = to_python(fname, ["self", "chunk"], body)
    stmts = fn.body
    loop = next((s for s in stmts if isinstance(s, ast.For)), None)
    if row_expr == "row":
        seqs = stmts
    else:
        if loop is None or ast.unparse(loop.iter) != "range(n_samples)" or ast.unparse(loop.target) != "n":
            raise Untranslatable(f"{fname}: expected `for n in range(n_samples):`")
        seqs = loop.body
    env = base_env()
    env.declare("chunk", "a2p", coqname="chunk")
    env.declare("chunk_row", "a1p", coqname="chunk_row")
    env.declare("n", "pz", coqname="n")
    tr = KernelTr(env, "f")

    # array parameters (immutable)
    def array_read(node, env_, _orig=tr.array_read):
        nm = ast.unparse(node.value)
        if nm == "chunk" and isinstance(node.slice, ast.Tuple) and ast.unparse(node.slice.elts[0]) == "n":
            return f"(chunk_row (Z.to_nat {tr.expr_z(node.slice.elts[1], env_)}))"
        if nm == "chunk_row":
            return f"(chunk_row (Z.to_nat {tr.expr_z(node.slice, env_)}))"
        return _orig(node, env_)

    tr.array_read = array_read
    pre = []
    call = None
    for st in seqs:
        src = ast.unparse(st)
        if isinstance(st, ast.Expr) and isinstance(st.value, ast.Constant):
            continue
        if re.fullmatch(r"M_T = np\.zeros\(\(self\.n_linear, self\.n_times\)\)", src):
            continue  # unused local of the original
        m = re.fullmatch(upto_re, src)
        if m:
            call = m.group(1)
            break
        pre.append(st)
    if call is None:
        raise Untranslatable(f"{fname}: likelihood_worker call not found")
    body_term = tr.block(pre, env)
    return (f"Definition {out_name} (chunk_row : arr1 F) (s : kst) : kst * F :=\n  let s := (\n{body_term}) in\n  likelihood_worker {call} s.\n")


def translate_slots(lines):
    """The mu/Lambda slotting of __init__ (lines `for i in range(self.n_offsets)` and `for i, name in enumerate(...)`)."""
    _, body = grab_function(lines, r"^    def __init__\(self, data, prior, double\[:, ::1\] trend_M\):")
    txt = "\n".join(body)
    # offsets loop
    m = re.search(r"for i in range\(self\.n_offsets\):(.*?)# -{20,}", txt, flags=re.S)
    if not m:
        raise Untranslatable("__init__: offsets slot loop not found")
    off = m.group(1)
    mm = re.search(r"self\.mu\[(.+?)\] = mu\s+self\.Lambda\[(.+?)\] = std \*\* 2", off)
    if not mm or mm.group(1) != mm.group(2):
        raise Untranslatable("__init__: offsets loop must set self.mu[e] and self.Lambda[e] with the same index")
    off_idx = mm.group(1).replace(" ", "")
    if off_idx != "2+i":
        off_expr = None
    tree_idx = ast.parse(mm.group(1), mode="eval").body
    env = Env()
    env.declare("i", "pz")
    env.declare("self.n_offsets", "pz", coqname="n_offsets")
    tr = Translator(env)
    off_term = tr.expr_z(tree_idx, env)
    # linear loop
    m = re.search(r"for i, name in enumerate\(prior\._linear_equiv_units\.keys\(\)\):(.*?)# -{20,}", txt, flags=re.S)
    if not m:
        raise Untranslatable("__init__: linear slot loop not found")
    loop_src = "for i, name in enumerate(prior._linear_equiv_units.keys()):" + m.group(1)
    loop_src = "\n".join(l[8:] if l.startswith("        ") else l for l in loop_src.split("\n"))
    loop = ast.parse(loop_src).body[0]
    iff = next((s for s in loop.body if isinstance(s, ast.If)), None)
    if iff is None:
        raise Untranslatable("__init__: linear loop has no if/elif/else on the parameter name")
    branches = []
    node = iff
    while True:
        branches.append((ast.unparse(node.test), node.body))
        if len(node.orelse) == 1 and isinstance(node.orelse[0], ast.If):
            node = node.orelse[0]
        else:
            branches.append((None, node.orelse))
            break

    def cond_term(t):
        """boolean combinations (and / or / not, `in` over a literal tuple) of `name == '<K|v0>'` and `self.fixed_K_prior == <int>`"""
        def go(n):
            if isinstance(n, ast.BoolOp):
                op = " && " if isinstance(n.op, ast.And) else " || "
                return "(" + op.join(go(v) for v in n.values) + ")"
            if isinstance(n, ast.UnaryOp) and isinstance(n.op, ast.Not):
                return f"(negb {go(n.operand)})"
            if isinstance(n, ast.Compare) and len(n.ops) == 1:
                l, op, r = ast.unparse(n.left), n.ops[0], n.comparators[0]
                if l == "name" and isinstance(op, (ast.Eq, ast.NotEq)) and isinstance(r, ast.Constant) and r.value in ("K", "v0"):
                    base = "(is_K nm)" if r.value == "K" else "(is_v0 nm)"
                    return base if isinstance(op, ast.Eq) else f"(negb {base})"
                if l == "name" and isinstance(op, ast.In) and isinstance(r, (ast.Tuple, ast.List)) and all(
                        isinstance(e, ast.Constant) and e.value in ("K", "v0") for e in r.elts) and r.elts:
                    return "(" + " || ".join("(is_K nm)" if e.value == "K" else "(is_v0 nm)" for e in r.elts) + ")"
                if l == "self.fixed_K_prior" and isinstance(op, (ast.Eq, ast.NotEq)) and isinstance(r, ast.Constant) and isinstance(r.value, int):
                    base = f"(fixedK =? {r.value})"
                    return base if isinstance(op, ast.Eq) else f"(negb {base})"
            raise Untranslatable(f"__init__: unrecognised slot condition `{t}`")
        return go(ast.parse(t, mode="eval").body)

    def effects(stmts):
        """(index term for mu or None, index term for Lambda or None, sets default-K scalars?)"""
        loc = {}
        mu_i = lam_i = None
        fcm = False
        for s in stmts:
            src = ast.unparse(s)
            mj = re.fullmatch(r"j = (.+)", src)
            if mj:
                loc["j"] = mj.group(1)
                continue
            m1 = re.fullmatch(r"self\.mu\[(\w+)\] = mu", src)
            m2 = re.fullmatch(r"self\.Lambda\[(\w+)\] = std \*\* 2", src)
            if m1:
                mu_i = loc.get(m1.group(1), m1.group(1))
                continue
            if m2:
                lam_i = loc.get(m2.group(1), m2.group(1))
                continue
            if src.startswith(("self.sigma_K0 =", "self.P0 =", "self.max_K =")):
                fcm = True
                continue
            raise Untranslatable(f"__init__: unrecognised slot statement `{src}`")
        def idx(e):
            if e is None:
                return "None"
            return "(Some " + tr.expr_z(ast.parse(e, mode="eval").body, env) + ")"
        return idx(mu_i), idx(lam_i), "true" if fcm else "false"

    term = ""
    for c, body_ in branches:
        mu_i, lam_i, fcm = effects(body_)
        eff = f"({mu_i}, {lam_i}, {fcm})"
        if c is None:
            term += eff
        else:
            term += f"if {cond_term(c)} then {eff} else "
    # unit of P0: recorded as text for the hand model (HelperInit)
    p0m = re.search(r"self\.P0 = dist\._P0\.to_value\((.+?)\)\s*\n\s*self\.max_K", txt, flags=re.S)
    p0_unit = " ".join(p0m.group(1).split()) if p0m else "?"
    p0_days = p0_unit in ("u.day", "self.internal_units['P']", "_nonlinear_internal_units['P']")
    return off_term, term, p0_unit, p0_days


def translate(repo):
    path = os.path.join(repo, "thejoker", "src", "fast_likelihood.pyx")
    lines = open(path).read().split("\n")
    check_class_decls(lines)
    out = []
    out.append("(* GENERATED by tools/pyx2v.py from thejoker/src/fast_likelihood.pyx -- do not edit. *)")
    out.append("From Coq Require Import ZArith List Bool Arith.")
    out.append("From TJ Require Import Base.Imp Base.Fops.")
    out.append("Import ListNotations. Open Scope Z_scope.")
    out.append("")
    out.append("Section Kernel.")
    out.append("Context {F : Type} (fo : fops F) (orc : oracles F).")
    out.append("Variables (p_n_times p_n_linear p_fixed_K_prior : Z) (p_sigma_K0 p_P0 p_max_K p_t0 : F).")
    out.append("")
    fields = [("v_" + a, "arr2 F", None) for a in STATE_A2] + [("v_" + a, "arr1 F", None) for a in STATE_A1] + \
             [("l_" + a, "Z", None) for a in LOCAL_Z] + [("l_" + a, "F", None) for a in LOCAL_F]
    out.append(record_decl("kst", fields))
    out.append("")
    # state algebra: every projection of every setter, setter absorption, and a canonical order of setters (all by computation);
    # collected in the rewrite database `kst` so that proofs about the loops never unfold the 27-field record
    names = [n for n, _, _ in fields]
    alg, hints = [], []
    for g in names:
        for f in names:
            rhs = "x" if f == g else f"{f} s"
            alg.append(f"Lemma gs_{f}__{g} x (s : kst) : {f} (set_{g} x s) = {rhs}. Proof. reflexivity. Qed.")
            hints.append(f"gs_{f}__{g}")
        alg.append(f"Lemma ss_{g} x y (s : kst) : set_{g} x (set_{g} y s) = set_{g} x s. Proof. reflexivity. Qed.")
        hints.append(f"ss_{g}")
    for a_i, f in enumerate(names):
        for g in names[a_i + 1:]:
            alg.append(f"Lemma sw_{f}__{g} x y (s : kst) : set_{g} y (set_{f} x s) = set_{f} x (set_{g} y s). Proof. reflexivity. Qed.")
            hints.append(f"sw_{f}__{g}")
    out.append("\n".join(alg))
    out.append("")
    # get_ivar
    _, body = grab_function(lines, r"^cdef void get_ivar\(double\[::1\] ivar, double s, double\[::1\] new_ivar\):")
    fn = to_python("get_ivar", ["ivar", "s", "new_ivar"], body)
    loops = [s for s in fn.body if not (isinstance(s, ast.Expr) and isinstance(s.value, ast.Constant))]
    if len(loops) != 1 or not isinstance(loops[0], ast.For) or ast.unparse(loops[0].iter) != "range(ivar.shape[0])":
        raise Untranslatable("get_ivar: expected a single `for i in range(ivar.shape[0])` loop")
    genv = Env()
    genv.declare("ivar", "a1g", coqname="ivar")
    genv.declare("s", "pf", coqname="jit")
    genv.declare("i", "pn", coqname="i")
    gtr = KernelTr(genv, "f")
    gtr.array_read = lambda node, env_: (f"(ivar {gtr.index_nat(node.slice, env_)})" if ast.unparse(node.value) == "ivar"
                                         else fail(node, "get_ivar reads an array other than ivar"))
    st = loops[0].body
    if len(st) != 1 or not isinstance(st[0], ast.Assign) or ast.unparse(st[0].targets[0]) != "new_ivar[i]":
        raise Untranslatable("get_ivar: loop body must be `new_ivar[i] = ...`")
    rhs = gtr.expr_f(st[0].value, genv)
    out.append("(* get_ivar(ivar, s, new_ivar): `ivar.shape[0]` is the number of epochs *)")
    out.append("Definition get_ivar (len : Z) (ivar : arr1 F) (jit : F) (new_ivar : arr1 F) : arr1 F :=")
    out.append(f"  for_range (Z.to_nat len) (fun i new_ivar => upd1 new_ivar i {rhs}) new_ivar.")
    out.append("")
    # make_AAinv
    env = base_env()
    for name, hdr, rk, args in (("make_AAinv", r"^    cdef int make_AAinv\(self\):", "z", ["self"]),
                                ("make_bBBinv", r"^    cdef double make_bBBinv\(self\):", "f", ["self"]),
                                ("likelihood_worker", r"^    cdef double likelihood_worker\(self, int make_aAinv\):", "f", ["self", "make_aAinv"])):
        _, body = grab_function(lines, hdr)
        fn = to_python(name, args, body)
        e = env.child()
        if name == "likelihood_worker":
            e.declare("make_aAinv", "pz", coqname="make_aAinv")
        tr = KernelTr(e, rk)
        stmts = [s for s in fn.body if not (isinstance(s, ast.Expr) and isinstance(s.value, ast.Constant)) and ast.unparse(s) != "uplo = 'U'"]
        term = tr.block_ret(stmts, e)
        sig = "(make_aAinv : Z) " if name == "likelihood_worker" else ""
        rt = "Z" if rk == "z" else "F"
        out.append(f"Definition {name} {sig}(s : kst) : kst * {rt} :=\n{term}.")
        out.append("")
    # preludes
    out.append(translate_prelude(lines, "batch_marginal_ln_likelihood", r"^    cpdef batch_marginal_ln_likelihood\(self, double\[:, ::1\] chunk\):",
                                 r"ll\[n\] = self\.likelihood_worker\((\d)\)", "marginal_one", "n"))
    out.append(translate_prelude(lines, "batch_get_posterior_samples", r"^    cpdef batch_get_posterior_samples\(self, double\[:, ::1\] chunk,",
                                 r"_ll = self\.likelihood_worker\((\d)\)", "posterior_one", "n"))
    out.append(translate_prelude(lines, "test_likelihood_worker", r"^    cpdef test_likelihood_worker\(self, double\[::1\] chunk_row\):",
                                 r"ll = self\.likelihood_worker\((\d)\)", "test_worker_one", "row"))
    out.append("End Kernel.")
    out.append("")
    for k in range(0, len(hints), 40):
        out.append("#[global] Hint Rewrite " + " ".join("@" + h for h in hints[k:k + 40]) + " : kst.")
    out.append("")
    # uniform entry points: Coq's section discharge keeps only the parameters a definition uses (which depends on the source);
    # these wrappers always take all seven
    PARAMS = ["p_n_times", "p_n_linear", "p_fixed_K_prior", "p_sigma_K0", "p_P0", "p_max_K", "p_t0"]
    text = "\n".join(out)
    bodies = {}
    for nm in ("get_ivar", "make_AAinv", "make_bBBinv", "likelihood_worker", "marginal_one", "posterior_one", "test_worker_one"):
        m = re.search(rf"Definition {nm} .*?\n(.*?)(?=\nDefinition |\nEnd Kernel)", text, flags=re.S)
        bodies[nm] = m.group(0) if m else ""
    def uses(nm, seen=None):
        seen = seen or set()
        if nm in seen:
            return set()
        seen.add(nm)
        u = {q for q in PARAMS if re.search(rf"\b{q}\b", bodies[nm])}
        for other in bodies:
            if other != nm and re.search(rf"\b{other}\b", bodies[nm]):
                u |= uses(other, seen)
        return u
    for nm in ("marginal_one", "posterior_one", "test_worker_one"):
        u = uses(nm)
        args = " ".join(q for q in PARAMS if q in u)
        out.append(f"Definition k_{nm} {{F}} (fo : fops F) (orc : oracles F) (p_n_times p_n_linear p_fixed_K_prior : Z) (p_sigma_K0 p_P0 p_max_K p_t0 : F)")
        out.append(f"  (row : arr1 F) (s : kst) : kst * F := {nm} fo orc {args} row s.")
    out.append("")
    # slots
    off_term, slot_term, p0_unit, p0_days = translate_slots(lines)
    out.append("(* ---- __init__: where each prior mean / variance is stored (index into mu / Lambda) ---- *)")
    out.append("Inductive lin_name := NK | Nv (i : nat).   (* position i of the linear names K, v0, v1, ... is: K at 0, v_k at k+1 *)")
    out.append("Definition is_K (n : lin_name) : bool := match n with NK => true | _ => false end.")
    out.append("Definition is_v0 (n : lin_name) : bool := match n with Nv O => true | _ => false end.")
    out.append("(* slot of the i-th v0 offset prior *)")
    out.append(f"Definition offset_slot (n_offsets i : Z) : Z := {off_term}.")
    out.append("(* for the i-th linear name: (slot of its mean, slot of its variance, whether the default-K scalars are set) *)")
    out.append("Definition linear_slot (fixedK n_offsets i : Z) (nm : lin_name) : option Z * option Z * bool :=")
    out.append(f"  {slot_term}.")
    out.append(f"(* P0 is converted with: dist._P0.to_value({p0_unit}) *)")
    out.append(f"Definition p0_in_kernel_period_unit : bool := {'true' if p0_days else 'false'}.")
    # posterior-sample layout (text check)
    _, pbody = grab_function(lines, r"^    cpdef batch_get_posterior_samples\(self, double\[:, ::1\] chunk,")
    ptxt = " ".join(" ".join(pbody).split())
    layout_ok = all(x in ptxt for x in (
        "linear_pars = rng.multivariate_normal( self.a, np.linalg.inv(self.Ainv), size=n_linear_samples_per)",
        "samples[n, j, 0] = P", "samples[n, j, 1] = e", "samples[n, j, 2] = om", "samples[n, j, 3] = M0", "samples[n, j, 4] = chunk[n, 4]",
        "for k in range(self.n_linear): samples[n, j, 5 + k] = linear_pars[j, k]",
        "np.array(samples).reshape(n_samples * n_linear_samples_per, -1)"))
    out.append("(* batch_get_posterior_samples: draws rng.multivariate_normal(self.a, inv(self.Ainv), size) and lays rows out as (P,e,om,M0,s, linear...) *)")
    out.append(f"Definition posterior_layout_as_modelled : bool := {'true' if layout_ok else 'false'}.")
    return "\n".join(out) + "\n"


def main():
    repo, outp = sys.argv[1], sys.argv[2]
    try:
        txt = translate(repo)
    except Untranslatable as e:
        print(f"pyx2v: UNTRANSLATABLE: {e}", file=sys.stderr)
        sys.exit(2)
    old = open(outp).read() if os.path.exists(outp) else None
    if old != txt:
        os.makedirs(os.path.dirname(outp), exist_ok=True)
        with open(outp, "w") as f:
            f.write(txt)
        print("pyx2v: regenerated", outp)
    else:
        print("pyx2v: unchanged", outp)


if __name__ == "__main__":
    main()
