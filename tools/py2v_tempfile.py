#!/venv/bin/python
"""py2v_tempfile -- regenerate coq/Gen/TempfileSkel.v from thejoker/utils.py::tempfile_decorator.wrapper.

usage: py2v_tempfile.py <repo-root> <out.v>
The decorator's control-flow skeleton becomes a term of the command language of Model/TempFile.v.
Fail-closed: every statement must match one of the forms below, anything else aborts (exit 2).

  args = list(args) / prior_samples = kwargs[...] / args.pop(...) / in_memory = kwargs.get(...)   -> (argument plumbing, skipped)
  if not isinstance(prior_samples, str) and not in_memory: A else: B                               -> IfObj A B
  if not isinstance(prior_samples, JokerSamples): raise TypeError(...)                             -> TypeCheck
  f = NamedTemporaryFile(..., suffix=".hdf5", delete=False)                                       -> Create
  f.close()                                                                                         -> Close
  prior_samples.write(f.name, overwrite=True)                                                       -> Write
  kwargs["prior_samples_file"] = f.name | prior_samples                                             -> UseTemp | UseUser
  func_return = func(*args, **kwargs)                                                               -> Call
  os.unlink(f.name)                                                                                 -> Unlink
  try: A  [except Exception as e: raise e]  finally: F                                              -> TryFinally (Reraise A) F
  return func_return                                                                                -> Return
Side condition extracted for the body: every tables.open_file / h5py.File call in
multiproc_helpers.py and in the read_* functions of utils.py passes mode="r".
"""
import ast
import os
import sys


class Untranslatable(Exception):
    pass


def fail(node, why):
    raise Untranslatable(f"line {getattr(node, 'lineno', '?')}: {why}: `{ast.unparse(node)[:120]}`")


def seq(cmds):
    cmds = [c for c in cmds if c != "Skip"]
    if not cmds:
        return "Skip"
    out = cmds[-1]
    for c in reversed(cmds[:-1]):
        out = f"(Seq {c} {out})"
    return out


PLUMBING = (
    "args = list(args)",
    "in_memory = kwargs.get('in_memory', False)",
)


def stmt(node):
    src = ast.unparse(node)
    if src in PLUMBING:
        return "Skip"
    if isinstance(node, ast.If) and src.startswith("if 'prior_samples_file' in kwargs:"):
        # prior_samples = kwargs[...] / args.pop(...)
        ok = all(isinstance(s, ast.Assign) and ast.unparse(s.targets[0]) == "prior_samples" for s in node.body + node.orelse)
        if not ok:
            fail(node, "unexpected argument plumbing")
        return "Skip"
    if isinstance(node, ast.If):
        t = ast.unparse(node.test)
        if t == "not isinstance(prior_samples, str) and (not in_memory)":
            return f"(IfObj {block(node.body)} {block(node.orelse)})"
        if t == "not isinstance(prior_samples, JokerSamples)":
            if len(node.body) == 1 and isinstance(node.body[0], ast.Raise) and not node.orelse and "TypeError" in ast.unparse(node.body[0]):
                return "TypeCheck"
        fail(node, "unrecognised conditional")
    if isinstance(node, ast.Assign) and len(node.targets) == 1:
        tgt = ast.unparse(node.targets[0])
        val = node.value
        if tgt == "f" and isinstance(val, ast.Call) and ast.unparse(val.func) == "NamedTemporaryFile":
            kw = {k.arg: ast.unparse(k.value) for k in val.keywords}
            if kw.get("delete") != "False" or kw.get("suffix") != "'.hdf5'":
                fail(node, "temporary file must be created with delete=False, suffix='.hdf5'")
            return "Create"
        if tgt == "kwargs['prior_samples_file']":
            v = ast.unparse(val)
            if v == "f.name":
                return "UseTemp"
            if v == "prior_samples":
                return "UseUser"
            fail(node, "unexpected file argument")
        if tgt == "func_return" and ast.unparse(val) == "func(*args, **kwargs)":
            return "Call"
        fail(node, "unrecognised assignment")
    if isinstance(node, ast.Expr) and isinstance(node.value, ast.Call):
        c = ast.unparse(node.value)
        if c == "f.close()":
            return "Close"
        if c == "prior_samples.write(f.name, overwrite=True)":
            return "Write"
        if c == "os.unlink(f.name)":
            return "Unlink"
        fail(node, "unrecognised call")
    if isinstance(node, ast.Expr) and isinstance(node.value, ast.Constant):
        return "Skip"
    if isinstance(node, ast.Try):
        if node.orelse:
            fail(node, "try-else")
        body = block(node.body)
        if node.handlers:
            if len(node.handlers) != 1:
                fail(node, "more than one except clause")
            h = node.handlers[0]
            if not (h.type is not None and ast.unparse(h.type) == "Exception" and h.name and len(h.body) == 1
                    and isinstance(h.body[0], ast.Raise) and h.body[0].exc is not None and ast.unparse(h.body[0].exc) == h.name):
                fail(node, "except clause must be `except Exception as e: raise e`")
            body = f"(Reraise {body})"
        if not node.finalbody:
            return body if node.handlers else fail(node, "try without handlers or finally")
        return f"(TryFinally {body} {block(node.finalbody)})"
    if isinstance(node, ast.Return):
        if node.value is None or ast.unparse(node.value) != "func_return":
            fail(node, "wrapper must return func_return")
        return "Return"
    fail(node, "unrecognised statement")


def block(stmts):
    return seq([stmt(s) for s in stmts])


def readonly_scan(repo):
    """Every open of an HDF5 file on the sampling paths must be read-only."""
    sites, bad = [], []
    for rel, only in (("thejoker/multiproc_helpers.py", None), ("thejoker/utils.py", ("read_batch_slice", "read_batch_idx", "read_random_batch", "read_batch"))):
        tree = ast.parse(open(os.path.join(repo, rel)).read())
        funcs = [n for n in ast.walk(tree) if isinstance(n, ast.FunctionDef) and (only is None or n.name in only)]
        for fn in funcs:
            for node in ast.walk(fn):
                if isinstance(node, ast.Call) and ast.unparse(node.func) in ("tb.open_file", "h5py.File", "tables.open_file", "open"):
                    mode = None
                    for k in node.keywords:
                        if k.arg == "mode":
                            mode = ast.unparse(k.value)
                    if mode is None and len(node.args) > 1:
                        mode = ast.unparse(node.args[1])
                    site = f"{rel}:{node.lineno} {fn.name}: {ast.unparse(node)[:60]}"
                    sites.append(site)
                    if mode not in ("'r'", '"r"'):
                        bad.append(site)
    return sites, bad


def translate(repo):
    tree = ast.parse(open(os.path.join(repo, "thejoker", "utils.py")).read())
    dec = next((n for n in tree.body if isinstance(n, ast.FunctionDef) and n.name == "tempfile_decorator"), None)
    if dec is None:
        raise Untranslatable("utils.py has no tempfile_decorator")
    wrappers = [n for n in dec.body if isinstance(n, ast.FunctionDef)]
    if len(wrappers) != 1 or wrappers[0].name != "wrapper":
        raise Untranslatable("tempfile_decorator must define exactly one inner function `wrapper`")
    # the decorator must return the wrapper
    if ast.unparse(dec.body[-1]) != "return wrapper":
        raise Untranslatable("tempfile_decorator must end with `return wrapper`")
    skel = block(wrappers[0].body)
    sites, bad = readonly_scan(repo)
    # which functions are wrapped
    mp = ast.parse(open(os.path.join(repo, "thejoker", "multiproc_helpers.py")).read())
    wrapped = [n.name for n in mp.body if isinstance(n, ast.FunctionDef) and any(ast.unparse(d) == "tempfile_decorator" for d in n.decorator_list)]
    out = []
    out.append("(* GENERATED by tools/py2v_tempfile.py from thejoker/utils.py::tempfile_decorator.wrapper -- do not edit. *)")
    out.append("From TJ Require Import Model.TempFile.")
    out.append("")
    out.append(f"Definition wrapper_skel : cmd :=\n  {skel}.")
    out.append("")
    out.append("(* side condition on the wrapped bodies: HDF5 opens on the sampling paths, and whether each is mode=\"r\" *)")
    for s in sites:
        out.append(f"(*   {s} {'  <-- NOT READ-ONLY' if s in bad else ''} *)")
    out.append(f"Definition body_opens_readonly : bool := {'true' if not bad else 'false'}.")
    out.append(f"(* functions decorated with tempfile_decorator: {', '.join(wrapped)} *)")
    out.append(f"Definition n_wrapped : nat := {len(wrapped)}.")
    return "\n".join(out) + "\n"


def main():
    repo, outp = sys.argv[1], sys.argv[2]
    try:
        txt = translate(repo)
    except Untranslatable as e:
        print(f"py2v_tempfile: UNTRANSLATABLE: {e}", file=sys.stderr)
        sys.exit(2)
    except SyntaxError as e:
        print(f"py2v_tempfile: UNTRANSLATABLE: syntax error {e}", file=sys.stderr)
        sys.exit(2)
    old = open(outp).read() if os.path.exists(outp) else None
    if old != txt:
        os.makedirs(os.path.dirname(outp), exist_ok=True)
        with open(outp, "w") as f:
            f.write(txt)
        print("py2v_tempfile: regenerated", outp)
    else:
        print("py2v_tempfile: unchanged", outp)


if __name__ == "__main__":
    main()
