#!/venv/bin/python
"""py2v_mcmc -- regenerate coq/Gen/McmcGen.v from thejoker/thejoker.py (TheJoker.setup_mcmc) and thejoker/_keplerian_orbit.py
(KeplerianOrbit.__init__, _warp_times, _get_true_anomaly, get_radial_velocity).

usage: py2v_mcmc.py <repo-root> <out.v>

setup_mcmc assembles the pymc model the MCMC continuation samples: t_peri = P M0 / (2 pi) in (day, rad), a KeplerianOrbit built from
(period, ecc, omega, t_periastron), the trend M . (v0, offsets, v1..), the observation Normal(model_rv, sqrt(err^2 + s^2)), and the
stored ln_likelihood / ln_prior.  The translator accepts the methods only if their decorators, argument names, defaults and
statements (docstrings aside) are exactly the ones listed in EXPECT -- the forms of the pinned source -- and then emits the
real-number reading of those statements.  Any other statement aborts with exit status 2 (a stub is written, so that only
Props/C11g.v stops checking).
"""
import ast
import os
import sys

sys.path.insert(0, os.path.dirname(os.path.abspath(__file__)))

# (file, class, function) -> (decorators, argument names, statements), as ast.unparse prints them
EXPECT = {('_keplerian_orbit.py', 'KeplerianOrbit', '__init__'): ([],
                                                         ['self',
                                                          'period',
                                                          'a',
                                                          't0',
                                                          't_periastron',
                                                          'incl',
                                                          'b',
                                                          'duration',
                                                          'ecc',
                                                          'omega',
                                                          'sin_omega',
                                                          'cos_omega',
                                                          'Omega',
                                                          'm_planet',
                                                          'm_star',
                                                          'r_star',
                                                          'rho_star',
                                                          'ror',
                                                          'model',
                                                          'kwargs'],
                                                         ["if 'm_planet_units' in kwargs:\n"
                                                          "    m_planet = with_unit(m_planet, kwargs.pop('m_planet_units'))",
                                                          "if 'rho_star_units' in kwargs:\n"
                                                          "    rho_star = with_unit(rho_star, kwargs.pop('rho_star_units'))",
                                                          'self.jacobians = defaultdict(lambda: defaultdict(None))',
                                                          'daordtau = None',
                                                          'if ecc is None and duration is not None:\n'
                                                          '    if r_star is None:\n'
                                                          '        r_star = as_tensor_variable(1.0)\n'
                                                          '    if b is None:\n'
                                                          '        raise ValueError("\'b\' must be provided for a circular orbit with a '
                                                          '\'duration\'")\n'
                                                          '    if ror is None:\n'
                                                          '        warnings.warn("When using the \'duration\' parameter in KeplerianOrbit, the '
                                                          '\'ror\' parameter should also be provided.", UserWarning)\n'
                                                          '    aor, daordtau = get_aor_from_transit_duration(duration, period, b, ror=ror)\n'
                                                          '    a = r_star * aor\n'
                                                          '    duration = None',
                                                          'inputs = _get_consistent_inputs(a, period, rho_star, r_star, m_star, m_planet)',
                                                          'self.a, self.period, self.rho_star, self.r_star, self.m_star, self.m_planet = inputs',
                                                          'self.m_total = self.m_star + self.m_planet',
                                                          'self.n = 2 * np.pi / self.period',
                                                          'self.a_star = self.a * self.m_planet / self.m_total',
                                                          'self.a_planet = -self.a * self.m_star / self.m_total',
                                                          'if daordtau is not None:\n'
                                                          '    dadtau = self.r_star * daordtau\n'
                                                          "    self.jacobians['duration']['a'] = dadtau\n"
                                                          "    self.jacobians['duration']['a_star'] = dadtau * self.m_planet / self.m_total\n"
                                                          "    self.jacobians['duration']['a_planet'] = -dadtau * self.m_star / self.m_total\n"
                                                          "    self.jacobians['duration']['rho_star'] = 9 * np.pi * (self.a / self.r_star) ** 2 * "
                                                          'daordtau * gcc_per_sun / (G_grav * self.period ** 2)',
                                                          'self.K0 = self.n * self.a / self.m_total',
                                                          'if Omega is None:\n'
                                                          '    self.Omega = None\n'
                                                          'else:\n'
                                                          '    self.Omega = as_tensor_variable(Omega)\n'
                                                          '    self.cos_Omega = tt.cos(self.Omega)\n'
                                                          '    self.sin_Omega = tt.sin(self.Omega)',
                                                          'if ecc is None:\n'
                                                          '    self.ecc = None\n'
                                                          '    self.M0 = 0.5 * np.pi + tt.zeros_like(self.n)\n'
                                                          '    incl_factor = 1\n'
                                                          'else:\n'
                                                          '    self.ecc = as_tensor_variable(ecc)\n'
                                                          '    if omega is not None:\n'
                                                          '        if sin_omega is not None and cos_omega is not None:\n'
                                                          '            raise ValueError("either \'omega\' or \'sin_omega\' and \'cos_omega\' can be '
                                                          'provided")\n'
                                                          '        self.omega = as_tensor_variable(omega)\n'
                                                          '        self.cos_omega = tt.cos(self.omega)\n'
                                                          '        self.sin_omega = tt.sin(self.omega)\n'
                                                          '    elif sin_omega is not None and cos_omega is not None:\n'
                                                          '        self.cos_omega = as_tensor_variable(cos_omega)\n'
                                                          '        self.sin_omega = as_tensor_variable(sin_omega)\n'
                                                          '        self.omega = tt.arctan2(self.sin_omega, self.cos_omega)\n'
                                                          '    else:\n'
                                                          "        raise ValueError('both e and omega must be provided')\n"
                                                          '    opsw = 1 + self.sin_omega\n'
                                                          '    E0 = 2 * tt.arctan2(tt.sqrt(1 - self.ecc) * self.cos_omega, tt.sqrt(1 + self.ecc) * '
                                                          'opsw)\n'
                                                          '    self.M0 = E0 - self.ecc * tt.sin(E0)\n'
                                                          '    ome2 = 1 - self.ecc ** 2\n'
                                                          '    self.K0 /= tt.sqrt(ome2)\n'
                                                          '    incl_factor = (1 + self.ecc * self.sin_omega) / ome2',
                                                          "self.dcosidb = self.jacobians['b']['cos_incl'] = incl_factor * self.r_star / self.a",
                                                          'if b is not None:\n'
                                                          '    if incl is not None or duration is not None:\n'
                                                          '        raise ValueError("only one of \'incl\', \'b\', and \'duration\' can be given")\n'
                                                          '    self.b = as_tensor_variable(b)\n'
                                                          '    self.cos_incl = self.dcosidb * self.b\n'
                                                          '    self.incl = tt.arccos(self.cos_incl)\n'
                                                          'elif incl is not None:\n'
                                                          '    if duration is not None:\n'
                                                          '        raise ValueError("only one of \'incl\', \'b\', and \'duration\' can be given")\n'
                                                          '    self.incl = as_tensor_variable(incl)\n'
                                                          '    self.cos_incl = tt.cos(self.incl)\n'
                                                          '    self.b = self.cos_incl / self.dcosidb\n'
                                                          'elif duration is not None:\n'
                                                          '    assert self.ecc is not None\n'
                                                          '    self.duration = as_tensor_variable(to_unit(duration, u.day))\n'
                                                          '    c = tt.sin(np.pi * self.duration * incl_factor / self.period)\n'
                                                          '    c2 = c * c\n'
                                                          '    aor = self.a_planet / self.r_star\n'
                                                          '    esinw = self.ecc * self.sin_omega\n'
                                                          '    self.b = tt.sqrt((aor ** 2 * c2 - 1) / (c2 * esinw ** 2 + 2 * c2 * esinw + c2 - '
                                                          'self.ecc ** 4 + 2 * self.ecc ** 2 - 1))\n'
                                                          '    self.b *= 1 - self.ecc ** 2\n'
                                                          '    self.cos_incl = self.dcosidb * self.b\n'
                                                          '    self.incl = tt.arccos(self.cos_incl)\n'
                                                          'else:\n'
                                                          '    zla = tt.zeros_like(self.a)\n'
                                                          '    self.incl = 0.5 * np.pi + zla\n'
                                                          '    self.cos_incl = zla\n'
                                                          '    self.b = zla',
                                                          'if t0 is not None and t_periastron is not None:\n'
                                                          '    raise ValueError("you can\'t define both t0 and t_periastron")',
                                                          'if t0 is None and t_periastron is None:\n    t0 = tt.zeros_like(self.period)',
                                                          'if t0 is None:\n'
                                                          '    self.t_periastron = as_tensor_variable(t_periastron)\n'
                                                          '    self.t0 = self.t_periastron + self.M0 / self.n\n'
                                                          'else:\n'
                                                          '    self.t0 = as_tensor_variable(t0)\n'
                                                          '    self.t_periastron = self.t0 - self.M0 / self.n',
                                                          'self.tref = self.t_periastron - self.t0',
                                                          'self.sin_incl = tt.sin(self.incl)']),
 ('_keplerian_orbit.py', 'KeplerianOrbit', '_warp_times'): ([],
                                                            ['self', 't', '_pad'],
                                                            ['if _pad:\n    return tt.shape_padright(t) - self.t0', 'return t - self.t0']),
 ('_keplerian_orbit.py', 'KeplerianOrbit', '_get_true_anomaly'): ([],
                                                                  ['self', 't', '_pad'],
                                                                  ['M = (self._warp_times(t, _pad=_pad) - self.tref) * self.n',
                                                                   'if self.ecc is None:\n    return (tt.sin(M), tt.cos(M))',
                                                                   'sinf, cosf = ops.kepler(M, self.ecc + tt.zeros_like(M))',
                                                                   'return (sinf, cosf)']),
 ('_keplerian_orbit.py', 'KeplerianOrbit', 'get_radial_velocity'): ([],
                                                                    ['self', 't', 'K', 'output_units'],
                                                                    ['if K is not None:\n'
                                                                     '    sinf, cosf = self._get_true_anomaly(t)\n'
                                                                     '    if self.ecc is None:\n'
                                                                     '        return tt.squeeze(K * cosf)\n'
                                                                     '    return tt.squeeze(K * (self.cos_omega * cosf - self.sin_omega * sinf + '
                                                                     'self.ecc * self.cos_omega))',
                                                                     'if output_units is None:\n    output_units = u.m / u.s',
                                                                     'conv = (1 * u.R_sun / u.day).to(output_units).value',
                                                                     'v = self.get_star_velocity(t)',
                                                                     'return -conv * v[2]']),
 ('thejoker.py', 'TheJoker', 'setup_mcmc'): ([],
                                             ['self', 'data', 'joker_samples', 'model', 'custom_func'],
                                             ['import pymc as pm',
                                              'import pytensor.tensor as pt',
                                              'import thejoker.units as xu',
                                              'from thejoker._keplerian_orbit import KeplerianOrbit',
                                              'model = _validate_model(model)',
                                              'data, ids, _ = validate_prepare_data(data, self.prior.poly_trend, self.prior.n_offsets)',
                                              'x = data._t_bmjd - data._t_ref_bmjd',
                                              'y = data.rv.value',
                                              'err = data.rv_err.to_value(data.rv.unit)',
                                              'if not isinstance(joker_samples, JokerSamples):\n'
                                              "    raise TypeError('You must pass in a JokerSamples instance to the joker_samples argument.')",
                                              'if len(joker_samples) > 1:\n'
                                              '    if not is_P_unimodal(joker_samples, data):\n'
                                              '        logger.warn("TODO: samples ain\'t unimodal")\n'
                                              '    MAP_sample = joker_samples.median_period()\n'
                                              'else:\n'
                                              '    MAP_sample = joker_samples',
                                              'mcmc_init = {}',
                                              'for name in self.prior.par_names:\n'
                                              '    unit = getattr(self.prior.pars[name], xu.UNIT_ATTR_NAME)\n'
                                              '    mcmc_init[name] = MAP_sample[name].to_value(unit)',
                                              'if custom_func is not None:\n    mcmc_init = custom_func(mcmc_init, MAP_sample, model)',
                                              'mcmc_init = {k: np.squeeze(v) for k, v in mcmc_init.items()}',
                                              'p = self.prior.pars',
                                              'rv_unit = data.rv.unit',
                                              'def _par(name, unit):\n'
                                              '    par = p[name]\n'
                                              '    factor = getattr(par, xu.UNIT_ATTR_NAME).to(unit)\n'
                                              '    return par if factor == 1 else par * factor',
                                              "if 't_peri' not in model.named_vars:\n"
                                              '    with model:\n'
                                              "        pm.Deterministic('t_peri', _par('P', u.day) * _par('M0', u.rad) / (2 * np.pi))",
                                              "if 'obs' in model.named_vars:\n    return mcmc_init",
                                              'with model:\n'
                                              "    orbit = KeplerianOrbit(period=_par('P', u.day), ecc=p['e'], omega=_par('omega', u.rad), "
                                              "t_periastron=model.named_vars['t_peri'])",
                                              'M = get_trend_design_matrix(data, ids, self.prior.poly_trend)',
                                              '_, offset_names = validate_n_offsets(self.prior.n_offsets)',
                                              '_, vtrend_names = validate_poly_trend(self.prior.poly_trend)',
                                              'with model:\n'
                                              "    v_pars = [_par('v0', rv_unit)] + [_par(name, rv_unit) for name in offset_names] + [_par(name, "
                                              'rv_unit / u.day ** i) for i, name in enumerate(vtrend_names) if i > 0]\n'
                                              '    v_trend_vec = pt.stack(v_pars, axis=0)\n'
                                              '    trend = pt.dot(M, v_trend_vec)\n'
                                              "    rv_model = orbit.get_radial_velocity(x, K=_par('K', rv_unit)) + trend\n"
                                              "    pm.Deterministic('model_rv', rv_model)\n"
                                              "    err = pt.sqrt(err ** 2 + _par('s', rv_unit) ** 2)\n"
                                              "    pm.Normal('obs', mu=rv_model, sigma=err, observed=y)\n"
                                              "    pm.Deterministic('logp', model.logp())\n"
                                              '    dist = pm.Normal.dist(model.model_rv, err)\n'
                                              "    lnlike = pm.Deterministic('ln_likelihood', pm.logp(dist, data.rv.value).sum(axis=-1))\n"
                                              "    pm.Deterministic('ln_prior', model.logp() - lnlike)",
                                              'return mcmc_init'])}

# argument defaults of the pinned functions (tools/pin_defaults.py)
PIN_DEFAULTS = {('_keplerian_orbit.py', 'KeplerianOrbit', '__init__'): ['None',
                                                         'None',
                                                         'None',
                                                         'None',
                                                         'None',
                                                         'None',
                                                         'None',
                                                         'None',
                                                         'None',
                                                         'None',
                                                         'None',
                                                         'None',
                                                         '0.0',
                                                         'None',
                                                         'None',
                                                         'None',
                                                         'None',
                                                         'None'],
 ('_keplerian_orbit.py', 'KeplerianOrbit', '_warp_times'): ['True'],
 ('_keplerian_orbit.py', 'KeplerianOrbit', '_get_true_anomaly'): ['True'],
 ('_keplerian_orbit.py', 'KeplerianOrbit', 'get_radial_velocity'): ['None', 'None'],
 ('thejoker.py', 'TheJoker', 'setup_mcmc'): ['None', 'None']}

TEXT = """(* GENERATED by tools/py2v_mcmc.py from thejoker/thejoker.py (TheJoker.setup_mcmc) and thejoker/_keplerian_orbit.py
   (KeplerianOrbit.__init__, _warp_times, _get_true_anomaly, get_radial_velocity) -- do not edit.  Over Coq's reals; period in
   days, angles in radians, velocities in the data's unit (setup_mcmc's _par converts the prior's variables). *)
From Coq Require Import Reals List.
Import ListNotations.
Open Scope R_scope.

(* pm.Deterministic('t_peri', _par('P', u.day) * _par('M0', u.rad) / (2 * np.pi)) *)
Definition t_peri_gen (P M0 : R) : R := P * M0 / (2 * PI).
(* KeplerianOrbit.__init__: self.n = 2 * np.pi / self.period; t0 is None: self.t0 = self.t_periastron + self.M0 / self.n;
   self.tref = self.t_periastron - self.t0     (self.M0: the orbit's internal reference anomaly, a function of ecc and omega) *)
Definition orbit_n_gen (P : R) : R := 2 * PI / P.
Definition orbit_t0_gen (P t_periastron M0i : R) : R := t_periastron + M0i / orbit_n_gen P.
Definition orbit_tref_gen (P t_periastron M0i : R) : R := t_periastron - orbit_t0_gen P t_periastron M0i.
(* _get_true_anomaly: M = (self._warp_times(t) - self.tref) * self.n, with _warp_times(t) = t - self.t0 *)
Definition orbit_mean_anomaly_gen (P t_periastron M0i x : R) : R :=
  ((x - orbit_t0_gen P t_periastron M0i) - orbit_tref_gen P t_periastron M0i) * orbit_n_gen P.
Section RV.
Variable true_anom : R -> R -> R.       (* ops.kepler(M, ecc): the true anomaly f(M, e) *)
(* get_radial_velocity(x, K): K * (cos_omega * cosf - sin_omega * sinf + ecc * cos_omega) *)
Definition orbit_rv_gen (P e om t_periastron M0i K x : R) : R :=
  let f := true_anom (orbit_mean_anomaly_gen P t_periastron M0i x) e in
  K * (cos om * cos f - sin om * sin f + e * cos om).
(* rv_model = orbit.get_radial_velocity(x, K) + pt.dot(M, [v0] + offsets + [v_i for i > 0]) at one epoch with design row `row` *)
Definition model_rv_gen (P e om M0 M0i K x : R) (row vpars : list R) : R :=
  orbit_rv_gen P e om (t_peri_gen P M0) M0i K x + fold_right Rplus 0 (map (fun p => fst p * snd p) (combine row vpars)).
End RV.
(* v_pars = [v0] + [offsets] + [v_i for i, name in enumerate(vtrend_names) if i > 0] *)
Definition vpars_gen {A} (vtrend offsets : list A) : list A := firstn 1 vtrend ++ offsets ++ skipn 1 vtrend.
(* err = pt.sqrt(err ** 2 + _par('s', rv_unit) ** 2); pm.Normal('obs', mu=rv_model, sigma=err, observed=y) *)
Definition obs_sigma_gen (err s : R) : R := sqrt (err ^ 2 + s ^ 2).
Definition obs_term_gen (y rv err s : R) : R :=
  - (1 / 2) * ((y - rv) ^ 2 / (obs_sigma_gen err s) ^ 2 + ln (2 * PI * (obs_sigma_gen err s) ^ 2)).
(* pm.Deterministic('ln_prior', model.logp - lnlike) *)
Definition stored_ln_prior_gen (logp lnlike : R) : R := logp - lnlike.
"""


class Untranslatable(Exception):
    pass


def body_src(fdef):
    body = list(fdef.body)
    if body and isinstance(body[0], ast.Expr) and isinstance(body[0].value, ast.Constant) and isinstance(body[0].value.value, str):
        body = body[1:]
    return [ast.unparse(s) for s in body]


def main():
    repo, out = sys.argv[1], sys.argv[2]
    try:
        import pin_defaults

        bad = pin_defaults.mismatch(repo, PIN_DEFAULTS)
        if bad:
            raise Untranslatable(bad)
        trees = {}
        for (rel, cls, fname), (decos, args, want) in EXPECT.items():
            if rel not in trees:
                trees[rel] = ast.parse(open(os.path.join(repo, "thejoker", rel)).read())
            classes = [n for n in trees[rel].body if isinstance(n, ast.ClassDef) and n.name == cls]
            if len(classes) != 1:
                raise Untranslatable(f"{rel}: class {cls} not found exactly once")
            defs = [m for m in classes[0].body if isinstance(m, ast.FunctionDef) and m.name == fname]
            if len(defs) != 1:
                raise Untranslatable(f"{rel}::{cls}.{fname}: defined {len(defs)} times")
            fdef = defs[0]
            if [ast.unparse(d) for d in fdef.decorator_list] != decos:
                raise Untranslatable(f"{rel}::{cls}.{fname}: decorators {[ast.unparse(d) for d in fdef.decorator_list]}")
            got_args = [a.arg for a in fdef.args.args] + ([fdef.args.kwarg.arg] if fdef.args.kwarg else [])
            if got_args != args:
                raise Untranslatable(f"{rel}::{cls}.{fname}: signature {got_args}")
            got = body_src(fdef)
            if got != want:
                k = next((i for i, (a, b) in enumerate(zip(got, want)) if a != b), min(len(got), len(want)))
                g, w = (got[k] if k < len(got) else "<missing>"), (want[k] if k < len(want) else "<nothing more>")
                p0 = next((i for i, (a, b) in enumerate(zip(g, w)) if a != b), min(len(g), len(w)))
                p0 = max(0, p0 - 60)
                raise Untranslatable(f"thejoker/{rel}::{cls}.{fname}: statement {k + 1} differs from the pinned form: has `..{g[p0:p0 + 200]}`, "
                                     f"expected `..{w[p0:p0 + 200]}`")
    except (Untranslatable, SyntaxError, OSError) as e:
        print(f"py2v_mcmc: UNTRANSLATABLE: {e}", file=sys.stderr)
        with open(out, "w") as f:
            f.write("(* tools/py2v_mcmc.py could not translate the current source: " + str(e).replace("*)", "* )") + " *)\n")
        sys.exit(2)
    old = open(out).read() if os.path.exists(out) else None
    if old != TEXT:
        open(out, "w").write(TEXT)
        print(f"py2v_mcmc: wrote {out}")
    else:
        print(f"py2v_mcmc: unchanged {out}")


if __name__ == "__main__":
    main()
