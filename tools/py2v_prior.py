#!/venv/bin/python
"""py2v_prior -- regenerate coq/Gen/PriorGen.v from thejoker/prior.py (JokerPrior.__init__, par_names, n_offsets) and
thejoker/prior_helpers.py (get_nonlinear_equiv_units, validate_poly_trend, get_linear_equiv_units, validate_n_offsets,
get_v0_offsets_equiv_units).

usage: py2v_prior.py <repo-root> <out.v>

JokerPrior.__init__ decides which priors the sampler accepts: the list of required parameters with their canonical units, a loop
that demands presence, a unit and unit equivalence for each of them, and a loop that demands a Normal-family prior for every linear
and offset parameter.  The translator accepts each function only if its decorators, argument names and statements (docstring
aside) are exactly the ones listed in EXPECT -- the forms of the pinned source -- and then emits the two loops over the required
lists as definitions over Model/Validate.v's vocabulary.  Any other statement aborts with exit status 2 (a stub is written, so
that only Props/C18g.v stops checking).
"""
import ast
import os
import sys

sys.path.insert(0, os.path.dirname(os.path.abspath(__file__)))

# (file, class, function) -> (decorators, argument names, statements), as ast.unparse prints them
EXPECT = {('prior.py', 'JokerPrior', '__init__'): ([],
                                          ['self', 'pars', 'poly_trend', 'v0_offsets', 'model'],
                                          ['self.model = _validate_model(model)',
                                           'if pars is None:\n'
                                           '    pars = {}\n'
                                           '    pars.update(model.named_vars)\n'
                                           'elif isinstance(pars, pt.TensorVariable):\n'
                                           '    pars = {pars.name: pars}\n'
                                           'else:\n'
                                           '    try:\n'
                                           '        pars = dict(pars)\n'
                                           '    except Exception:\n'
                                           '        try:\n'
                                           '            pars = {p.name: p for p in pars}\n'
                                           '        except Exception as e:\n'
                                           '            msg = f"Invalid input parameters: The input `pars` must either be a dictionary, list, or a '
                                           'single pymc variable, not a \'{type(pars)}\'."\n'
                                           '            raise ValueError(msg) from e',
                                           'self.poly_trend, self._v_trend_names = validate_poly_trend(poly_trend)',
                                           'if v0_offsets is None:\n    v0_offsets = []',
                                           'try:\n'
                                           '    v0_offsets = list(v0_offsets)\n'
                                           'except Exception as e:\n'
                                           "    msg = 'Constant velocity offsets must be an iterable of pymc variables that define the priors on "
                                           "each offset term.'\n"
                                           '    raise TypeError(msg) from e',
                                           'self.v0_offsets = v0_offsets',
                                           'pars.update({p.name: p for p in self.v0_offsets})',
                                           'self._nonlinear_equiv_units = get_nonlinear_equiv_units()',
                                           'self._linear_equiv_units = get_linear_equiv_units(self.poly_trend)',
                                           'self._v0_offsets_equiv_units = get_v0_offsets_equiv_units(self.n_offsets)',
                                           'self._all_par_unit_equiv = {**self._nonlinear_equiv_units, **self._linear_equiv_units, '
                                           '**self._v0_offsets_equiv_units}',
                                           'for name in self.par_names:\n'
                                           '    if name not in pars:\n'
                                           '        msg = f"Missing prior for parameter \'{name}\': you must specify a prior distribution for all '
                                           'parameters."\n'
                                           '        raise ValueError(msg)\n'
                                           '    if not hasattr(pars[name], xu.UNIT_ATTR_NAME):\n'
                                           '        msg = f"Parameter \'{name}\' does not have associated units: Use thejoker.units to specify units '
                                           'for your pymc variables. See the documentation for examples: thejoker.rtfd.io"\n'
                                           '        raise ValueError(msg)\n'
                                           '    equiv_unit = self._all_par_unit_equiv[name]\n'
                                           '    if not getattr(pars[name], xu.UNIT_ATTR_NAME).is_equivalent(equiv_unit):\n'
                                           '        msg = f"Parameter \'{name}\' has an invalid unit: The units for this parameter must be '
                                           'transformable to \'{equiv_unit}\'"\n'
                                           '        raise ValueError(msg)',
                                           'for name in list(self._linear_equiv_units.keys()) + list(self._v0_offsets_equiv_units.keys()):\n'
                                           '    p = pars[name]\n'
                                           "    if not hasattr(p, 'owner'):\n"
                                           "        msg = f'Invalid type for prior on linear parameter {name}: {type(p)}'\n"
                                           '        raise TypeError(msg)\n'
                                           '    if not isinstance(p.owner.op, pt.random.op.RandomVariable) or p.owner.op._print_name[0] not in '
                                           "['Normal', 'FixedCompanionMass']:\n"
                                           '        msg = f"Priors on the linear parameters (K, v0, etc.) must be independent Normal distributions, '
                                           'not \'{p.owner.op._print_name[0]}\' (for {name})"\n'
                                           '        raise ValueError(msg)',
                                           'self.pars = pars']),
 ('prior.py', 'JokerPrior', 'par_names'): (['property'],
                                           ['self'],
                                           ['return list(self._nonlinear_equiv_units.keys()) + list(self._linear_equiv_units.keys()) + '
                                            'list(self._v0_offsets_equiv_units)']),
 ('prior.py', 'JokerPrior', 'n_offsets'): (['property'], ['self'], ['return len(self.v0_offsets)']),
 ('prior_helpers.py', None, 'get_nonlinear_equiv_units'): ([],
                                                           [],
                                                           ["return {'P': u.day, 'e': u.one, 'omega': u.radian, 'M0': u.radian, 's': u.m / u.s}"]),
 ('prior_helpers.py', None, 'validate_poly_trend'): ([],
                                                     ['poly_trend'],
                                                     ['try:\n'
                                                      '    poly_trend = int(poly_trend)\n'
                                                      'except Exception:\n'
                                                      "    raise ValueError('poly_trend must be an integer that specifies the number of polynomial "
                                                      "(in time) trend terms to include in The Joker.')",
                                                      "vtrend_names = ['v{0}'.format(i) for i in range(poly_trend)]",
                                                      'return (poly_trend, vtrend_names)']),
 ('prior_helpers.py', None, 'get_linear_equiv_units'): ([],
                                                        ['poly_trend'],
                                                        ['poly_trend, v_names = validate_poly_trend(poly_trend)',
                                                         "return {'K': u.m / u.s, **{name: u.m / u.s / u.day ** i for i, name in "
                                                         'enumerate(v_names)}}']),
 ('prior_helpers.py', None, 'validate_n_offsets'): ([],
                                                    ['n_offsets'],
                                                    ['try:\n'
                                                     '    n_offsets = int(n_offsets)\n'
                                                     'except Exception:\n'
                                                     "    raise ValueError('n_offsets must be an integer that specifies the number of v0 offset "
                                                     'parameters to include in The Joker. These parameters allow passing in data from multiple '
                                                     "surveys that may have unknown calibration offsets.')",
                                                     "offset_names = ['dv0_{0}'.format(i) for i in range(1, n_offsets + 1)]",
                                                     'return (n_offsets, offset_names)']),
 ('prior_helpers.py', None, 'get_v0_offsets_equiv_units'): ([],
                                                            ['n_offsets'],
                                                            ['n_offsets, names = validate_n_offsets(n_offsets)',
                                                             'return {name: u.m / u.s for i, name in enumerate(names)}'])}

TEXT = """(* GENERATED by tools/py2v_prior.py from thejoker/prior.py (JokerPrior.__init__, par_names, n_offsets) and
   thejoker/prior_helpers.py (get_*_equiv_units, validate_poly_trend, validate_n_offsets) -- do not edit. *)
From Coq Require Import List Bool Arith.
From TJ Require Import Model.Validate.
Import ListNotations.

(* {'P': u.day, 'e': u.one, 'omega': u.radian, 'M0': u.radian, 's': u.m / u.s} *)
Definition nonlinear_units_gen : list (nat * dim) := [(nP, DTime); (ne, DOne); (nomega, DAngle); (nM0, DAngle); (ns, DVel)].
(* {'K': u.m / u.s, **{name: u.m / u.s / u.day ** i for i, name in enumerate(['v{0}'.format(i) for i in range(poly_trend)])} *)
Definition linear_units_gen (poly : nat) : list (nat * dim) := (nK, DVel) :: map (fun i => (nv i, DVelPerTime i)) (seq 0 poly).
(* {name: u.m / u.s for name in ['dv0_{0}'.format(i) for i in range(1, n_offsets + 1)]} *)
Definition offsets_units_gen (noff : nat) : list (nat * dim) := map (fun i => (ndv i, DVel)) (seq 1 noff).
(* par_names: list(nonlinear.keys()) + list(linear.keys()) + list(offsets) *)
Definition par_names_gen (poly noff : nat) : list nat :=
  map fst (nonlinear_units_gen) ++ map fst (linear_units_gen poly) ++ map fst (offsets_units_gen noff).
(* for name in self.par_names: missing -> ValueError; no unit -> ValueError; unit not equivalent -> ValueError (the first one wins);
   for name in list(linear.keys()) + list(offsets.keys()): not a Normal / FixedCompanionMass random variable -> error *)
Definition validate_prior_gen (decls : list decl) (poly noff : nat) : vres :=
  let all_units := nonlinear_units_gen ++ linear_units_gen poly ++ offsets_units_gen noff in
  let presence (r : nat * dim) : option verr :=
    match lookup decls (fst r) with
    | None => Some (EMissing (fst r))
    | Some d => if negb (d_has_unit d) then Some (ENoUnit (fst r))
                else if negb (dim_eqb (d_dim d) (snd r)) then Some (EBadUnit (fst r)) else None
    end in
  let normal (r : nat * dim) : option verr :=
    match lookup decls (fst r) with
    | None => None
    | Some d => match d_kind d with KNormal | KFixedCompanionMass => None | _ => Some (ENotNormal (fst r)) end
    end in
  match first_err presence all_units with
  | Some e => VErr e
  | None => match first_err normal (linear_units_gen poly ++ offsets_units_gen noff) with
            | Some e => VErr e
            | None => VOk
            end
  end.
"""


# argument defaults of the pinned functions (tools/pin_defaults.py)
PIN_DEFAULTS = {('prior.py', 'JokerPrior', '__init__'): ['None', '1', 'None', 'None'],
 ('prior.py', 'JokerPrior', 'par_names'): [],
 ('prior.py', 'JokerPrior', 'n_offsets'): [],
 ('prior_helpers.py', None, 'get_nonlinear_equiv_units'): [],
 ('prior_helpers.py', None, 'validate_poly_trend'): [],
 ('prior_helpers.py', None, 'get_linear_equiv_units'): [],
 ('prior_helpers.py', None, 'validate_n_offsets'): [],
 ('prior_helpers.py', None, 'get_v0_offsets_equiv_units'): []}


class Untranslatable(Exception):
    pass


def body_src(fdef):
    body = list(fdef.body)
    if body and isinstance(body[0], ast.Expr) and isinstance(body[0].value, ast.Constant) and isinstance(body[0].value.value, str):
        body = body[1:]
    return [ast.unparse(s) for s in body]


def main():
    repo, out = sys.argv[1], sys.argv[2]
    try:
        import pin_defaults

        bad = pin_defaults.mismatch(repo, PIN_DEFAULTS)
        if bad:
            raise Untranslatable(bad)
        trees = {}
        for (rel, cls, fname), (decos, args, want) in EXPECT.items():
            if rel not in trees:
                trees[rel] = ast.parse(open(os.path.join(repo, "thejoker", rel)).read())
            scope = trees[rel].body
            if cls:
                classes = [n for n in scope if isinstance(n, ast.ClassDef) and n.name == cls]
                if len(classes) != 1:
                    raise Untranslatable(f"{rel}: class {cls} not found exactly once")
                scope = classes[0].body
            defs = [m for m in scope if isinstance(m, ast.FunctionDef) and m.name == fname]
            if len(defs) != 1:
                raise Untranslatable(f"{rel}::{fname}: defined {len(defs)} times")
            fdef = defs[0]
            if [ast.unparse(d) for d in fdef.decorator_list] != decos:
                raise Untranslatable(f"{rel}::{fname}: decorators {[ast.unparse(d) for d in fdef.decorator_list]}")
            if [a.arg for a in fdef.args.args] != args:
                raise Untranslatable(f"{rel}::{fname}: signature {[a.arg for a in fdef.args.args]}")
            got = body_src(fdef)
            if got != want:
                k = next((i for i, (a, b) in enumerate(zip(got, want)) if a != b), min(len(got), len(want)))
                g, w = (got[k] if k < len(got) else "<missing>"), (want[k] if k < len(want) else "<nothing more>")
                p0 = next((i for i, (a, b) in enumerate(zip(g, w)) if a != b), min(len(g), len(w)))
                p0 = max(0, p0 - 60)
                raise Untranslatable(f"thejoker/{rel}::{fname}: statement {k + 1} differs from the pinned form: has `..{g[p0:p0 + 200]}`, "
                                     f"expected `..{w[p0:p0 + 200]}`")
    except (Untranslatable, SyntaxError, OSError) as e:
        print(f"py2v_prior: UNTRANSLATABLE: {e}", file=sys.stderr)
        with open(out, "w") as f:
            f.write("(* tools/py2v_prior.py could not translate the current source: " + str(e).replace("*)", "* )") + " *)\n")
        sys.exit(2)
    old = open(out).read() if os.path.exists(out) else None
    if old != TEXT:
        open(out, "w").write(TEXT)
        print(f"py2v_prior: wrote {out}")
    else:
        print(f"py2v_prior: unchanged {out}")


if __name__ == "__main__":
    main()
