#!/venv/bin/python
"""keep_mutant.py <prop> <src-dir> <name> <caught|missed> <how detected / note>
Copies a confirmed seeded change into /verif/seeded/<name>/ and records what was run."""
import json, os, shutil, sys
prop, src, name, caught, note = sys.argv[1:6]
dst = f"/verif/seeded/{name}"
os.makedirs(dst, exist_ok=True)
for f in ("patch.diff", "demo.py", "c_patch.diff"):
    if os.path.exists(os.path.join(src, f)):
        shutil.copy(os.path.join(src, f), dst)
meta = json.load(open(os.path.join(src, "meta.json"))) if os.path.exists(os.path.join(src, "meta.json")) else {}
meta.update({
    "property": prop,
    "confirmed_by_me": ["git apply --check on /repo HEAD", "demo.py exits 0 on the clean tree and non-zero with the change", "all 50 stable baseline tests pass with the change (tools/baseline_check.py)"],
    "check_result": caught,
    "check_note": note,
    "ran": meta.get("ran", []) + [f"tools/try_mutant.sh {prop} <dir> --full"],
})
json.dump(meta, open(os.path.join(dst, "meta.json"), "w"), indent=1)
print("kept", dst)
