#!/venv/bin/python
"""py2v_iter -- regenerate coq/Gen/IterBook.v: the batch bookkeeping of the two iterative samplers,
    likelihood_helpers.iterative_rejection_inmem    and    multiproc_helpers.iterative_rejection_helper.

usage: py2v_iter.py <repo-root> <out.v>

Which evaluation-order positions a round evaluates, and how the next round's block is chosen, is decided by a handful of
integer statements around the rule.  The translator accepts exactly these forms (logger calls are ignored; any other statement
that stores to start_idx or n_process, anywhere in the function, aborts with exit status 2):

  before the loop     if init_batch_size is None: n_process = growth_factor * n_requested_samples  else: n_process = init_batch_size
                      if n_process > LIMIT: raise ValueError(..)            LIMIT = n_total_samples | max_prior_samples
                      start_idx = 0
  the loop            for i in range(maxiter): ... else: raise RuntimeError(..)
  evaluated block     .. prior_samples_batch[start_idx:start_idx + n_process]      |   samples_idx=all_idx[start_idx:start_idx + n_process]
  after the rule      n_good = len(good_samples_idx)
                      if n_good >= n_requested_samples: break
                      start_idx += n_process
                      n_ll_evals = len(all_marg_lls)
                      n_need = n_requested_samples - n_good
                      n_process = int(safety_factor * n_need / n_good * n_ll_evals)      -> the oracle `growth n_need n_good n_ll_evals`
                      if start_idx + n_process > LIMIT: n_process = LIMIT - start_idx
                      if n_process <= 0: break
"""
import ast
import os
import sys

SITES = [("inmem", "likelihood_helpers.py", "iterative_rejection_inmem", "n_total_samples"),
         ("file", "multiproc_helpers.py", "iterative_rejection_helper", "max_prior_samples")]


class Untranslatable(Exception):
    pass


def fail(node, msg, fn):
    raise Untranslatable(f"{fn} line {getattr(node, 'lineno', '?')}: {msg}: `{ast.unparse(node)[:140] if node is not None else ''}`")


def src(n):
    return ast.unparse(n)


def is_log(st):
    return isinstance(st, ast.Expr) and isinstance(st.value, ast.Call) and src(st.value.func).startswith("logger.")


def strip(body):
    return [s for s in body if not is_log(s)]


def stores(st, names):
    return {n.id for n in ast.walk(st) if isinstance(n, ast.Name) and isinstance(n.ctx, (ast.Store, ast.Del)) and n.id in names}


def check_site(fdef, limit, fn):
    body = list(fdef.body)
    loops = [s for s in body if isinstance(s, ast.For)]
    if len(loops) != 1:
        fail(fdef, "expected exactly one top-level loop", fn)
    loop = loops[0]
    if not (src(loop.iter) == "range(maxiter)" and len(loop.orelse) == 1 and isinstance(loop.orelse[0], ast.Raise)):
        fail(loop, "the loop must be `for i in range(maxiter): ... else: raise RuntimeError(..)`", fn)
    pre = body[: body.index(loop)]
    post = body[body.index(loop) + 1:]
    # ---- before the loop
    want_first = f"if init_batch_size is None:\n    n_process = growth_factor * n_requested_samples\nelse:\n    n_process = init_batch_size"
    firsts = [s for s in pre if stores(s, {"n_process"})]
    if len(firsts) != 1 or src(firsts[0]) != want_first:
        fail(firsts[0] if firsts else fdef, "the first block size must be growth_factor * n_requested_samples or init_batch_size", fn)
    guards = [s for s in pre if isinstance(s, ast.If) and src(s.test).startswith("n_process >")]
    if len(guards) != 1 or src(guards[0].test) != f"n_process > {limit}" or not (len(guards[0].body) == 1 and isinstance(guards[0].body[0], ast.Raise)) or guards[0].orelse:
        fail(guards[0] if guards else fdef, f"the size check must be `if n_process > {limit}: raise ValueError(..)`", fn)
    if pre.index(guards[0]) < pre.index(firsts[0]):
        fail(guards[0], "size check before the first block size is set", fn)
    starts = [s for s in pre if stores(s, {"start_idx"})]
    if len(starts) != 1 or src(starts[0]) != "start_idx = 0":
        fail(starts[0] if starts else fdef, "start_idx must be initialised once, to 0", fn)
    for s in post:
        if stores(s, {"start_idx", "n_process"}):
            fail(s, "start_idx / n_process stored after the loop", fn)
    # ---- the loop body
    lb = strip(loop.body)
    # evaluated block: exactly one statement mentions the slice
    want_slice = "start_idx:start_idx + n_process"
    ev = [s for s in lb if want_slice in src(s)]
    if len(ev) != 1 or not (isinstance(ev[0], ast.Assign) and src(ev[0].targets[0]) == "marg_lls"):
        fail(ev[0] if ev else loop, "the evaluated block must appear once, in `marg_lls = ..[start_idx:start_idx + n_process]..`", fn)
    call = src(ev[0].value)
    if not (f"prior_samples_batch[{want_slice}]" in call or f"samples_idx=all_idx[{want_slice}]" in call):
        fail(ev[0], "the evaluated block must be prior_samples_batch[start_idx:start_idx + n_process] or samples_idx=all_idx[start_idx:start_idx + n_process]", fn)
    for s in lb:
        if s is not ev[0] and ("start_idx" in src(s) or "n_process" in src(s)) and lb.index(s) < lb.index(ev[0]):
            fail(s, "start_idx / n_process used before the evaluation of the block", fn)
    # tail after `n_good = len(good_samples_idx)`
    idx = [i for i, s in enumerate(lb) if src(s) == "n_good = len(good_samples_idx)"]
    if len(idx) != 1:
        fail(loop, "`n_good = len(good_samples_idx)` must appear once", fn)
    tail = lb[idx[0] + 1:]
    want = [
        ("if", "n_good >= n_requested_samples", ["break"]),
        ("stmt", "start_idx += n_process"),
        ("stmt", "n_ll_evals = len(all_marg_lls)"),
        ("stmt", "n_need = n_requested_samples - n_good"),
        ("stmt", "n_process = int(safety_factor * n_need / n_good * n_ll_evals)"),
        ("if", f"start_idx + n_process > {limit}", [f"n_process = {limit} - start_idx"]),
        ("if", "n_process <= 0", ["break"]),
    ]
    if len(tail) != len(want):
        fail(tail[0] if tail else loop, f"the bookkeeping after the rule must be exactly {len(want)} statements", fn)
    for st, w in zip(tail, want):
        if w[0] == "stmt":
            if src(st) != w[1]:
                fail(st, f"expected `{w[1]}`", fn)
        else:
            if not (isinstance(st, ast.If) and src(st.test) == w[1] and [src(x) for x in strip(st.body)] == w[2] and not st.orelse):
                fail(st, f"expected `if {w[1]}: {'; '.join(w[2])}`", fn)
    for s in lb[: idx[0]]:
        if s is not ev[0] and stores(s, {"start_idx", "n_process"}):
            fail(s, "start_idx / n_process stored before the rule", fn)


def emit(tag, fn):
    return f"""(* {fn} *)
Definition {tag}_first (init : option Z) (growth_factor n_req : Z) : Z := match init with None => growth_factor * n_req | Some b => b end.
Definition {tag}_too_small (first limit : Z) : bool := limit <? first.        (* raise ValueError *)
Definition {tag}_block (start n_process : Z) : Z * Z := (start, start + n_process).   (* evaluation-order positions [lo, hi) of this round *)
Definition {tag}_next (n_req limit start n_process n_evals n_good : Z) : it_next :=
  if n_req <=? n_good then ItStop else
  let start := start + n_process in
  let n_need := n_req - n_good in
  let n_process := growth n_need n_good n_evals in
  let n_process := if limit <? start + n_process then limit - start else n_process in
  if n_process <=? 0 then ItStop else ItContinue start n_process.
"""


def main():
    repo, out = sys.argv[1], sys.argv[2]
    chunks = []
    try:
        for tag, rel, fname, limit in SITES:
            tree = ast.parse(open(os.path.join(repo, "thejoker", rel)).read())
            fdef = next((n for n in ast.walk(tree) if isinstance(n, ast.FunctionDef) and n.name == fname), None)
            if fdef is None:
                raise Untranslatable(f"{rel}: function {fname} not found")
            check_site(fdef, limit, f"thejoker/{rel}::{fname}")
            chunks.append(emit(tag, f"thejoker/{rel}::{fname}"))
    except (Untranslatable, SyntaxError, OSError) as e:
        print(f"py2v_iter: UNTRANSLATABLE: {e}", file=sys.stderr)
        with open(out, "w") as f:
            f.write("(* tools/py2v_iter.py could not translate the current source: " + str(e).replace("*)", "* )") + " *)\n")
        sys.exit(2)
    text = ("(* GENERATED by tools/py2v_iter.py from thejoker/likelihood_helpers.py and thejoker/multiproc_helpers.py -- do not edit.\n"
            "   The block bookkeeping of the iterative samplers; `growth n_need n_good n_ll_evals` stands for\n"
            "   int(safety_factor * n_need / n_good * n_ll_evals) (a floating-point expression, left abstract). *)\n"
            "From Coq Require Import ZArith.\nOpen Scope Z_scope.\n\n"
            "Inductive it_next := ItStop | ItContinue (start n_process : Z).\n\n"
            "Section Book.\nVariable growth : Z -> Z -> Z -> Z.\n\n" + "\n".join(chunks) + "End Book.\n")
    old = open(out).read() if os.path.exists(out) else None
    if old != text:
        open(out, "w").write(text)
        print(f"py2v_iter: wrote {out}")
    else:
        print(f"py2v_iter: unchanged {out}")


if __name__ == "__main__":
    main()
