#!/venv/bin/python
"""Run the pinned baseline test command in a tree and report whether all 50 stable tests pass.
usage: baseline_check.py [<tree>=/repo]"""
import json
import subprocess
import sys
import tempfile
import xml.etree.ElementTree as ET

tree = sys.argv[1] if len(sys.argv) > 1 else "/repo"
base = json.load(open("/root/.vp/BASELINE.json"))
with tempfile.NamedTemporaryFile(suffix=".xml") as f:
    subprocess.run(
        ["/venv/bin/python", "-m", "pytest", "-ra", "-q", "-p", "no:cacheprovider", "--timeout=900", "--continue-on-collection-errors", f"--junitxml={f.name}"],
        cwd=tree, capture_output=True, text=True, env={**__import__("os").environ, "PYTHONPATH": tree},
    )
    root = ET.parse(f.name).getroot()
passed = set()
for tc in root.iter("testcase"):
    if not any(ch.tag in ("failure", "error", "skipped") for ch in tc):
        passed.add(f"{tc.get('classname')}::{tc.get('name')}")
missing = [t for t in base["stable_pass"] if t not in passed]
print(f"stable tests passing: {len(base['stable_pass']) - len(missing)}/{len(base['stable_pass'])}")
for m in missing:
    print("  NOT PASSING:", m)
sys.exit(1 if missing else 0)
