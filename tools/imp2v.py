"""imp2v -- a small, fail-closed translator from a Python/Cython *statement subset* to Gallina
state transformers.  Shared by py2v_batch.py (utils.batch_tasks) and pyx2v.py (the Cython kernel).

A function body becomes a Gallina term of type  st -> st  written as nested `let s := ... in`.
  x = e            ->  let s := set_x (e) s in             (x a mutable scalar in the state record)
  x += e / -= e    ->  let s := set_x (x s + e) s in
  A[i, j] = e      ->  let s := set_A (upd2 (A s) i j e) s in     (function arrays, Base/Fops.v)
  for i in range(n): B   ->  let s := for_rangeZ n (fun i s => B) s in
  if c: B1 else: B2      ->  let s := if c then B1 else B2 in
Anything not listed in the tables below raises Untranslatable: the caller reports a broken tie.

Integer expressions are translated over Z (`//` -> Z.div, `%` -> Z.modulo: both floor, as in
Python); floating expressions over an abstract field given by a record `fo : fops F`.
"""
import ast


class Untranslatable(Exception):
    pass


def fail(node, why):
    line = getattr(node, "lineno", "?")
    try:
        src = ast.unparse(node)
    except Exception:
        src = repr(node)
    raise Untranslatable(f"line {line}: {why}: `{src}`")


class Env:
    """Name classification.  kinds:
    pz  immutable Z (parameter / loop variable), printed bare
    pf  immutable field value, printed bare
    pb  immutable bool, printed bare
    mz  mutable Z scalar in the state record   -> (v_x s)
    mf  mutable field scalar in the record     -> (v_x s)
    a1 / a2  mutable 1-D / 2-D field arrays    -> (v_x s)
    """

    def __init__(self, prefix="v_"):
        self.kind = {}
        self.prefix = prefix
        self.coqname = {}

    def declare(self, name, kind, coqname=None):
        self.kind[name] = kind
        self.coqname[name] = coqname or (
            name if kind in ("pz", "pf", "pb") else self.prefix + name
        )

    def k(self, name):
        return self.kind.get(name)

    def ref(self, name):
        k = self.kind[name]
        if k in ("pz", "pf", "pb"):
            return self.coqname[name]
        return f"({self.coqname[name]} s)"

    def setter(self, name):
        return "set_" + self.coqname[name]

    def child(self):
        e = Env(self.prefix)
        e.kind = dict(self.kind)
        e.coqname = dict(self.coqname)
        return e


class Translator:
    """Subclass and override stmt_special / call_f / call_z / name_of for unit-specific forms."""

    def __init__(self, env):
        self.env = env

    # ---- names -------------------------------------------------------------------------
    def name_of(self, node):
        """Return the source-level variable name denoted by node (Name or self.attr)."""
        if isinstance(node, ast.Name):
            return node.id
        if (
            isinstance(node, ast.Attribute)
            and isinstance(node.value, ast.Name)
            and node.value.id == "self"
        ):
            return "self." + node.attr
        fail(node, "not a variable")

    def kind(self, node, env):
        try:
            return env.k(self.name_of(node))
        except Untranslatable:
            return None

    # ---- typing ------------------------------------------------------------------------
    def is_int(self, node, env):
        """Static type: True if the expression is integer-typed."""
        if isinstance(node, ast.Constant):
            return isinstance(node.value, int) and not isinstance(node.value, bool)
        if isinstance(node, (ast.Name, ast.Attribute)):
            k = self.kind(node, env)
            if k is None:
                fail(node, "unknown name")
            return k in ("pz", "mz")
        if isinstance(node, ast.BinOp):
            if isinstance(node.op, ast.Div):
                return False
            return self.is_int(node.left, env) and self.is_int(node.right, env)
        if isinstance(node, ast.UnaryOp):
            return self.is_int(node.operand, env)
        if isinstance(node, ast.Subscript):
            return False
        if isinstance(node, ast.Call):
            return self.call_is_int(node, env)
        fail(node, "cannot type expression")

    def call_is_int(self, node, env):
        return False

    # ---- integer expressions -------------------------------------------------------------
    def expr_z(self, node, env):
        if isinstance(node, ast.Constant):
            if isinstance(node.value, bool) or not isinstance(node.value, int):
                fail(node, "non-integer constant in integer context")
            return f"({node.value})" if node.value < 0 else str(node.value)
        if isinstance(node, (ast.Name, ast.Attribute)):
            k = self.kind(node, env)
            if k not in ("pz", "mz"):
                fail(node, f"not an integer variable (kind {k})")
            return env.ref(self.name_of(node))
        if isinstance(node, ast.BinOp):
            ops = {
                ast.Add: "+",
                ast.Sub: "-",
                ast.Mult: "*",
                ast.FloorDiv: "/",
                ast.Mod: "mod",
            }
            op = ops.get(type(node.op))
            if op is None:
                fail(node, "unsupported integer operator")
            return f"({self.expr_z(node.left, env)} {op} {self.expr_z(node.right, env)})"
        if isinstance(node, ast.UnaryOp) and isinstance(node.op, ast.USub):
            return f"(- {self.expr_z(node.operand, env)})"
        if isinstance(node, ast.Call):
            return self.call_z(node, env)
        fail(node, "unsupported integer expression")

    def call_z(self, node, env):
        fail(node, "unsupported call in integer context")

    # ---- field expressions -----------------------------------------------------------------
    def const_f(self, node):
        v = node.value
        if isinstance(v, bool):
            fail(node, "bool constant in field context")
        if isinstance(v, int):
            return f"(fz fo ({v}))"
        if isinstance(v, float):
            num, den = v.as_integer_ratio()
            return f"(fdiv fo (fz fo ({num})) (fz fo ({den})))" if den != 1 else f"(fz fo ({num}))"
        fail(node, "unsupported constant")

    def expr_f(self, node, env):
        if isinstance(node, ast.Constant):
            return self.const_f(node)
        if isinstance(node, (ast.Name, ast.Attribute)):
            k = self.kind(node, env)
            if k in ("pf", "mf"):
                return env.ref(self.name_of(node))
            if k in ("pz", "mz"):
                return f"(fz fo {env.ref(self.name_of(node))})"
            fail(node, f"not a scalar variable (kind {k})")
        if isinstance(node, ast.Subscript):
            return self.array_read(node, env)
        if isinstance(node, ast.BinOp):
            if isinstance(node.op, ast.Pow):
                return self.pow_f(node, env)
            ops = {ast.Add: "fadd", ast.Sub: "fsub", ast.Mult: "fmul", ast.Div: "fdiv"}
            op = ops.get(type(node.op))
            if op is None:
                fail(node, "unsupported field operator")
            return f"({op} fo {self.expr_f(node.left, env)} {self.expr_f(node.right, env)})"
        if isinstance(node, ast.UnaryOp) and isinstance(node.op, ast.USub):
            return f"(fopp fo {self.expr_f(node.operand, env)})"
        if isinstance(node, ast.Call):
            return self.call_f(node, env)
        fail(node, "unsupported field expression")

    def pow_f(self, node, env):
        # only x**2 (a literal square) is accepted generically
        if isinstance(node.right, ast.Constant) and node.right.value == 2:
            x = self.expr_f(node.left, env)
            return f"(fmul fo {x} {x})"
        fail(node, "unsupported power")

    def call_f(self, node, env):
        fail(node, "unsupported call in field context")

    def index_nat(self, node, env):
        return f"(Z.to_nat {self.expr_z(node, env)})"

    def array_read(self, node, env):
        k = self.kind(node.value, env)
        name = self.name_of(node.value)
        sl = node.slice
        if k == "a1":
            if isinstance(sl, ast.Tuple):
                fail(node, "1-D array indexed with a tuple")
            return f"({env.ref(name)} {self.index_nat(sl, env)})"
        if k == "a2":
            if not (isinstance(sl, ast.Tuple) and len(sl.elts) == 2):
                fail(node, "2-D array needs two indices")
            i, j = sl.elts
            return f"({env.ref(name)} {self.index_nat(i, env)} {self.index_nat(j, env)})"
        fail(node, f"not an array (kind {k})")

    # ---- conditions ------------------------------------------------------------------------
    def cond(self, node, env):
        if isinstance(node, ast.BoolOp):
            op = "&&" if isinstance(node.op, ast.And) else "||"
            return "(" + f" {op} ".join(self.cond(v, env) for v in node.values) + ")"
        if isinstance(node, ast.UnaryOp) and isinstance(node.op, ast.Not):
            return f"(negb {self.cond(node.operand, env)})"
        if isinstance(node, ast.Compare):
            if len(node.ops) != 1:
                fail(node, "chained comparison")
            return self.compare(node.left, node.ops[0], node.comparators[0], node, env)
        if isinstance(node, ast.Name) and env.k(node.id) == "pb":
            return env.ref(node.id)
        fail(node, "unsupported condition")

    def compare(self, l, op, r, node, env):
        if not (self.is_int(l, env) and self.is_int(r, env)):
            fail(node, "only integer comparisons are translated")
        a, b = self.expr_z(l, env), self.expr_z(r, env)
        tbl = {
            ast.Lt: f"({a} <? {b})",
            ast.LtE: f"({a} <=? {b})",
            ast.Gt: f"({b} <? {a})",
            ast.GtE: f"({b} <=? {a})",
            ast.Eq: f"({a} =? {b})",
            ast.NotEq: f"(negb ({a} =? {b}))",
        }
        if type(op) not in tbl:
            fail(node, "unsupported comparison")
        return tbl[type(op)]

    # ---- statements ------------------------------------------------------------------------
    def assign_scalar(self, target, rhs_node, env, aug=None):
        name = self.name_of(target)
        k = env.k(name)
        if k == "mz":
            rhs = self.expr_z(rhs_node, env)
            if aug:
                rhs = f"({env.ref(name)} {aug[0]} {rhs})"
        elif k == "mf":
            rhs = self.expr_f(rhs_node, env)
            if aug:
                rhs = f"({aug[1]} fo {env.ref(name)} {rhs})"
        else:
            fail(target, f"assignment to non-mutable or unknown name (kind {k})")
        return f"{env.setter(name)} {rhs} s"

    def assign_array(self, target, rhs_node, env, aug=None):
        k = self.kind(target.value, env)
        name = self.name_of(target.value)
        rhs = self.expr_f(rhs_node, env)
        if aug:
            rhs = f"({aug[1]} fo {self.array_read(target, env)} {rhs})"
        sl = target.slice
        if k == "a1":
            return f"{env.setter(name)} (upd1 {env.ref(name)} {self.index_nat(sl, env)} {rhs}) s"
        if k == "a2" and isinstance(sl, ast.Tuple) and len(sl.elts) == 2:
            i, j = sl.elts
            return (
                f"{env.setter(name)} (upd2 {env.ref(name)} {self.index_nat(i, env)} "
                f"{self.index_nat(j, env)} {rhs}) s"
            )
        fail(target, f"unsupported array store (kind {k})")

    AUG = {ast.Add: ("+", "fadd"), ast.Sub: ("-", "fsub"), ast.Mult: ("*", "fmul")}

    def stmt(self, node, env):
        """Return a Coq term (using the bound variable `s`) for the state after the statement."""
        sp = self.stmt_special(node, env)
        if sp is not None:
            return sp
        if isinstance(node, ast.Assign):
            if len(node.targets) != 1:
                fail(node, "multiple assignment targets")
            t = node.targets[0]
            if isinstance(t, ast.Subscript):
                return self.assign_array(t, node.value, env)
            return self.assign_scalar(t, node.value, env)
        if isinstance(node, ast.AugAssign):
            aug = self.AUG.get(type(node.op))
            if aug is None:
                fail(node, "unsupported augmented assignment")
            if isinstance(node.target, ast.Subscript):
                return self.assign_array(node.target, node.value, env, aug)
            return self.assign_scalar(node.target, node.value, env, aug)
        if isinstance(node, ast.If):
            c = self.cond(node.test, env)
            return (
                f"if {c} then ({self.block(node.body, env)}) else ({self.block(node.orelse, env)})"
            )
        if isinstance(node, ast.For):
            if node.orelse:
                fail(node, "for-else")
            it = node.iter
            if not (
                isinstance(it, ast.Call)
                and isinstance(it.func, ast.Name)
                and it.func.id == "range"
                and isinstance(node.target, ast.Name)
                and not it.keywords
            ):
                fail(node, "only `for x in range(..)` loops are translated")
            if len(it.args) == 1:
                lo, hi = None, it.args[0]
            elif len(it.args) == 2:
                lo, hi = it.args
            else:
                fail(node, "range with step")
            v = node.target.id
            sub = env.child()
            sub.declare(v, "pz", coqname=v)
            body = self.block(node.body, sub)
            if lo is None:
                return f"for_rangeZ {self.expr_z(hi, env)} (fun {v} s => {body}) s"
            lo_s, hi_s = self.expr_z(lo, env), self.expr_z(hi, env)
            return (
                f"for_rangeZ ({hi_s} - {lo_s}) (fun {v}__k s => let {v} := ({v}__k + {lo_s}) in {body}) s"
            )
        if isinstance(node, ast.Pass):
            return "s"
        if isinstance(node, ast.Expr) and isinstance(node.value, ast.Constant):
            return "s"  # docstring
        fail(node, "unsupported statement")

    def stmt_special(self, node, env):
        return None

    def block(self, stmts, env):
        if not stmts:
            return "s"
        out = []
        for st in stmts:
            out.append(f"let s := {self.stmt(st, env)} in")
        return "\n".join(out) + " s"


def record_decl(recname, fields, ctor=None):
    """fields: list of (coqname, coqtype, default).  Emits Record, setters and an initial state."""
    ctor = ctor or ("mk_" + recname)
    lines = [f"Record {recname} := {ctor} {{ " + "; ".join(f"{n} : {t}" for n, t, _ in fields) + " }."]
    for n, t, _ in fields:
        body = "; ".join(f"{m} := {'x' if m == n else m + ' s'}" for m, _, _ in fields)
        lines.append(f"Definition set_{n} (x : {t}) (s : {recname}) : {recname} := {{| {body} |}}.")
    return "\n".join(lines)
