#!/bin/bash
# mk_worktree.sh <prop> [n]: scratch worktree of /repo HEAD for a mutant sub-agent + its prompt file
P="$1"; N="${2:-2}"
mkdir -p /tmp/wt
git -C /repo worktree add --detach /tmp/wt/$P HEAD -q
cp /repo/thejoker/src/fast_likelihood.c /repo/thejoker/src/fast_likelihood.cpython-312-x86_64-linux-gnu.so /tmp/wt/$P/thejoker/src/
mkdir -p /tmp/wt/${P}_out
/verif/tools/mutant_prompt.py $P $N > /tmp/wt/${P}_prompt.txt
echo /tmp/wt/${P}_prompt.txt
