#!/venv/bin/python
"""Regenerate /verif/MANIFEST.json from the table below (kept in one place so it is always valid)."""
import json
import os

HERE = os.path.dirname(os.path.abspath(__file__))
ROOT = os.path.dirname(HERE)

BASELINE = "cd /repo && /venv/bin/python -m pytest -ra -q -p no:cacheprovider --timeout=900 --continue-on-collection-errors"

# id -> (technique, level text, level note, design ref)
CHECKS = {
    "C16": (
        "Coq proof (Z + lia, loop invariant) about a model regenerated from utils.py by a translator; exact vm_compute correspondence",
        "Theorems C16_chain/_count/_balanced/_cover/_ordered/_ids/_arr hold for ALL n_tasks>=1, n_batches>=1, start (start>=0 for arrays) "
        "about batch_tasks_gen, which tools/py2v_batch.py regenerates from thejoker/utils.py on every run; the translator is validated on every "
        "run by Coq-evaluated exact comparison with the running implementation (exhaustive small grid + random large values) and the "
        "property predicate is run on the implementation's own output.",
        "Trusted: Coq kernel + vm_compute; translator (tools/imp2v.py, tools/py2v_batch.py, fail-closed); harness observation of task lists; "
        "Python ints = Z. run_worker's n_samples/n_batches selection is a hand model (Model/BatchSpec.v) tied by correspondence only.",
        "DESIGN.md 3 (C16)",
    ),
}

CHECKS["C15"] = (
    "Coq proof (lists, Permutation) about a hand-written executable model + certificate soundness; exact vm_compute correspondence with witness permutations",
    "Model/RVData.v models construction (common mask, common sort), reference epoch, ivar, copy and slicing. Theorems: the model keeps exactly "
    "the (finite) observations time-ordered; an accepted certificate (init_check, init_check_cov, copy_check, slice_check) implies the "
    "implementation's rows are a permutation of the kept input rows with each time paired with its own velocity/error/covariance row+column, "
    "sorted, default epoch = earliest time. Every run Coq evaluates those certificates on the implementation's actual outputs for random "
    "inputs (NaN/inf placements, duplicates, units, Time/float, covariance) and the harness runs the independent predicate.",
    "Trusted: Coq kernel + vm_compute; harness recovery of the applied permutation from unique velocity tags; astropy Time/units; "
    "np.linalg.inv up to the checked product cov*ivar=I (1e-8). Floating point enters only as exact dyadic rationals.",
    "DESIGN.md 3 (C15)",
)

CHECKS["C19"] = (
    "Coq proof (Q, lra, Permutation) about a hand-written executable model; toleranced vm_compute correspondence",
    "Model/Diagnostics.v defines phase, the arcs on the phase circle (including the wrap arc), max_phase_gap, phase_coverage, "
    "periods_spanned and the MAP index over exact rationals. Theorems (all observation sets): arcs are non-negative, one per observation, "
    "sum to 1; max_phase_gap is one of them, >= each, within [1/n, 1]; max_phase_gap and phase_coverage are invariant under any permutation "
    "of the observations; the MAP index holds a maximum and is the first one. Each run Coq compares the model with the implementation's "
    "values (1e-9) on generated observation sets with exact bin-edge margins; the predicate adds permuted and time-reversed twins.",
    "Trusted: Coq kernel + vm_compute; astropy Time arithmetic to 1e-9 in phase; numpy sort/histogram/argmax. Time-reversal and t_ref-shift "
    "invariance are exercised by twins on the implementation, not proved (partial).",
    "DESIGN.md 3 (C19)",
)

CHECKS["C08"] = (
    "Coq proof (lists, Permutation, Sorted) about a hand-written executable model + certificate soundness; exact vm_compute correspondence; refutation theorem for the pinned code (known finding D5)",
    "Model/Surveys.v models concatenate-label-sort, numpy.unique and the offset indicator columns. Theorems: an accepted certificate "
    "(merge_check) implies the merged rows with the labels the implementation attached are a permutation of the labelled inputs (each row "
    "keeps its own survey), time-sorted, offset columns built from those labels; column 0 all ones, column j the indicator of the j-th "
    "smallest key, the smallest key is the only offset-free survey, list input gives labels 0..m in order. The pinned code does NOT have the "
    "property: C08_pinned_code_refuted proves it on the faithful model merge_code; the check reports that as KNOWN-FINDING D5 and accepts "
    "per case either merge_check or code_check (pinned behaviour), so any other deviation is still a violation.",
    "Trusted: Coq kernel + vm_compute; harness recovery of the permutation from unique velocity tags; astropy unit conversion of later "
    "sources; numpy.unique ordering. The consequence for likelihoods relies on C01 (kernel value given data and design matrix).",
    "DESIGN.md 3 (C08)",
)

NOT_YET = {}


def main():
    props = [json.loads(l) for l in open(os.path.join(ROOT, "properties.jsonl"))]
    checks = []
    na = []
    for p in props:
        pid = p["id"]
        if pid in CHECKS:
            tech, text, note, ref = CHECKS[pid]
            checks.append(
                {
                    "property_id": pid,
                    "quick_cmd": f"./check {pid} --tier quick",
                    "thorough_cmd": f"./check {pid} --tier thorough",
                    "evidence_file": f"/verif/evidence/{pid}.json",
                    "replay_cmd_template": f"./check {pid} --replay {{path}}",
                    "engine": "coq",
                    "level_claimed": {"category": "proof", "text": text, "design_ref": ref},
                    "level_note": note,
                    "technique": tech,
                }
            )
        else:
            na.append({"property_id": pid, "reason": NOT_YET.get(pid, "check not built yet in this development (see DESIGN.md section 7 for the build order); not claimed")})
    m = {
        "version": 1,
        "setup_cmd": "make -C /verif setup",
        "hooks": {
            "guard": "THEJOKER_VERIF",
            "enable": "no hooks are needed: every observation point is reachable through the public API (recording Generator subclasses, public Cython buffers, monkey-patching from the harness process, private TMPDIR)",
            "baseline_off_cmd": BASELINE,
            "source_commits": [],
            "add_only": True,
        },
        "engines": [
            {
                "name": "coq",
                "path": "/verif/coq",
                "serves_properties": sorted(CHECKS),
                "kind_free_text": "Coq 8.16.1 development (Base/Model/Gen/Proofs/Props) + Python harness (/verif/harness) that regenerates models from source, runs the implementation and lets Coq compare model and implementation (vm_compute / interval certificates)",
            }
        ],
        "checks": checks,
        "notes": "Every check: ./check <id> --tier quick|thorough; VERIF_SEED honoured. known_findings.json lists genuine defects (open = reported as KNOWN-FINDING; fixed = suppress nothing).",
        "not_applicable": na,
    }
    with open(os.path.join(ROOT, "MANIFEST.json"), "w") as f:
        json.dump(m, f, indent=1)
    print("MANIFEST.json:", len(checks), "checks,", len(na), "not claimed")


if __name__ == "__main__":
    main()
