#!/venv/bin/python
"""Regenerate /verif/MANIFEST.json from the table below (kept in one place so it is always valid)."""
import json
import os

HERE = os.path.dirname(os.path.abspath(__file__))
ROOT = os.path.dirname(HERE)

BASELINE = "cd /repo && /venv/bin/python -m pytest -ra -q -p no:cacheprovider --timeout=900 --continue-on-collection-errors"

# id -> (technique, level text, level note, design ref)
CHECKS = {
    "C16": (
        "Coq proof (Z + lia, loop invariant) about a model regenerated from utils.py by a translator; exact vm_compute correspondence",
        "Theorems C16_chain/_count/_balanced/_cover/_ordered/_ids/_arr hold for ALL n_tasks>=1, n_batches>=1, start (start>=0 for arrays) "
        "about batch_tasks_gen, which tools/py2v_batch.py regenerates from thejoker/utils.py on every run; the translator is validated on every "
        "run by Coq-evaluated exact comparison with the running implementation (exhaustive small grid + random large values) and the "
        "property predicate is run on the implementation's own output.",
        "Trusted: Coq kernel + vm_compute; translator (tools/imp2v.py, tools/py2v_batch.py, fail-closed); harness observation of task lists; "
        "Python ints = Z. run_worker is regenerated too (tools/py2v_runworker.py -> Gen/RunWorkerGen.v, fail-closed on any other statement form): Props/C16g.v proves the generated row/batch counts equal the hand model (Model/BatchSpec.v) and that the tasks handed to pool.map form the chain of C16_chain over the generated batch_tasks; results are collected in task order.",
        "DESIGN.md 3 (C16)",
    ),
}

CHECKS["C15"] = (
    "Coq proof (lists, Permutation) about a hand-written executable model + certificate soundness; exact vm_compute correspondence with witness permutations",
    "Model/RVData.v models construction (common mask, common sort), reference epoch, ivar, copy and slicing. Theorems: the model keeps exactly "
    "the (finite) observations time-ordered; an accepted certificate (init_check, init_check_cov, copy_check, slice_check) implies the "
    "implementation's rows are a permutation of the kept input rows with each time paired with its own velocity/error/covariance row+column, "
    "sorted, default epoch = earliest time. tools/py2v_data.py regenerates RVData.__init__, ivar, __copy__, copy, __getitem__ from source (Gen/DataGen.v; accepted only in the pinned statement forms) with numpy's unstable argsort as a section variable, and Props/C15g.v proves for EVERY sorting permutation: the stored "
    "observations are exactly the kept inputs, paired, time-ordered; copy() drops nothing and hands over the epoch; data[sel] holds exactly the selected rows; t.min() is the head of the sorted epochs; 1/err^2 meets the ivar certificate. Every run Coq evaluates those certificates on the implementation's actual outputs for random "
    "inputs (NaN/inf placements, duplicates, units, Time/float, covariance) and the harness runs the independent predicate.",
    "Trusted: Coq kernel + vm_compute; harness recovery of the applied permutation from unique velocity tags; astropy Time/units; "
    "np.linalg.inv up to the checked product cov*ivar=I (1e-8). Floating point enters only as exact dyadic rationals.",
    "DESIGN.md 3 (C15)",
)

CHECKS["C19"] = (
    "Coq proof (Q, lra, Permutation) about an executable model that the functions regenerated from the source are proved equal to; toleranced vm_compute correspondence",
    "Model/Diagnostics.v defines phase, the arcs on the phase circle (including the wrap arc), max_phase_gap, phase_coverage, "
    "periods_spanned and the MAP index over exact rationals. Theorems (all observation sets): arcs are non-negative, one per observation, "
    "sum to 1; max_phase_gap is one of them, >= each, within [1/n, 1]; max_phase_gap and phase_coverage are invariant under any permutation "
    "of the observations; max_phase_gap is unchanged by time reversal t -> a - t of the observing pattern with any reference epochs "
    "before and after, hence independent of the reference epoch (C19_mpg_time_reversal, C19_mpg_shift_invariant: reflection of the phase circle, "
    "sorted lists, cyclic gap lists up to order); between 1 and min(n_bins, n_obs) bins are occupied (an observation lies in exactly one bin); the MAP index holds a maximum and is the first one. tools/py2v_diag.py regenerates Gen/DiagGen.v from RVData.phase and the four functions of samples_analysis.py (accepted only in the pinned statement forms) and Props/C19g.v proves the generated definitions equal the model. Each run Coq compares the model with the implementation's "
    "values (1e-9) on generated observation sets with exact bin-edge margins; the predicate adds permuted and time-reversed twins.",
    "Trusted: Coq kernel + vm_compute; astropy Time arithmetic to 1e-9 in phase; numpy sort/histogram/argmax.",
    "DESIGN.md 3 (C19)",
)

CHECKS["C08"] = (
    "Coq proof (lists, Permutation, Sorted) about a hand-written executable model + certificate soundness; exact vm_compute correspondence; refutation theorem for the pinned code (known finding D5)",
    "Model/Surveys.v models concatenate-label-sort, numpy.unique and the offset indicator columns. Theorems: an accepted certificate "
    "(merge_check) implies the merged rows with the labels the implementation attached are a permutation of the labelled inputs (each row "
    "keeps its own survey), time-sorted, offset columns built from those labels; column 0 all ones, column j the indicator of the j-th "
    "smallest key, the smallest key is the only offset-free survey, list input gives labels 0..m in order. tools/py2v_design.py regenerates Gen/DesignGen.v from get_constant_term_design_matrix / get_trend_design_matrix (accepted only in the pinned statement forms) and Props/C08g.v proves the generated builders equal the model (constant row, then dt, dt^2, ..). The pinned code does NOT have the "
    "property: C08_pinned_code_refuted proves it on the faithful model merge_code; the check reports that as KNOWN-FINDING D5 and accepts "
    "per case either merge_check or code_check (pinned behaviour), so any other deviation is still a violation.",
    "Trusted: Coq kernel + vm_compute; harness recovery of the permutation from unique velocity tags; astropy unit conversion of later "
    "sources; numpy.unique ordering. The consequence for likelihoods relies on C01 (kernel value given data and design matrix).",
    "DESIGN.md 3 (C08)",
)

CHECKS["C02"] = (
    "Coq proof (Reals + lists) about a hand-written executable model; acceptance decisions by certified interval arithmetic (reflection onto Coq-Interval); exact vm_compute correspondence",
    "Model/Reject.v models the rejection step: IEEE special values, the rule exp(ll_i - max) > u_i, evaluation order, truncation, the three index "
    "spaces, the rows returned. Theorems (all libraries, draws, options): the decision oracle dec_exp is sound for the real-number rule; a "
    "position is kept iff the rule holds; kept positions are strictly increasing; a sample at the finite maximum always survives; -inf/NaN next "
    "to a finite maximum never survives; max_posterior_samples keeps a prefix; every returned row is an evaluated library row, n_linear "
    "consecutive copies. Each run Coq replays what the implementation did (recorded uniform/choice draws, likelihoods, returned rows) through "
    "rs_check for stub-injected profiles (flat, spike, ties, -inf) and the real kernel, on the in-memory, cache-file and file-name paths. "
    "tools/py2v_reject.py regenerates Gen/RejectSites.v on every run from the four places the rule is applied (rejection_sample_inmem, "
    "iterative_rejection_inmem, rejection_sample_helper, iterative_rejection_helper: uu, the np.where rule, truncation, index composition, the "
    "rows handed on and both log-probability columns; fail-closed) and Props/C02g.v proves that what it emits IS the model (C02_sites_good/_rows, "
    "C06_sites_lnlike/_lnprior, C02_generated_rule).",
    "Trusted: Coq kernel + vm_compute; translator tools/py2v_reject.py (fail-closed); Coq-Interval (verified) and BigZ primitive ints; stdlib real axioms + classic + funext (Print Assumptions); "
    "numpy exp/subtraction within 1e-9 relative (closer decisions are skipped and counted); the recording Generator sees every draw; pool.map "
    "preserves order. Survival PROBABILITY: C02_survival_probability proves that the rule's acceptance set has measure exp(ll_i - max) = L_i/L_max under a uniform draw on [0,1) (Coquelicot Riemann integral of the indicator); that numpy's Generator.uniform is uniform is trusted.",
    "DESIGN.md 3 (C02)",
)
CHECKS["C06"] = (
    "Coq proof (lists, nat division) about the same executable model as C02/C14; exact vm_compute correspondence on rows and columns",
    "Theorems: one ln_prior / ln_likelihood value per returned row; row j is a copy of library row full[j/n]; its ln_likelihood is the value at the "
    "evaluation position of that sample, which was computed for exactly that library row; its ln_prior is the library value of that row; with a "
    "shuffled order full = order o good. rs_check / it_check compare rows and both columns with the implementation (library ln_prior injective "
    "in the row number, stub likelihood known per row) for rejection_sample and iterative_rejection_sample on all paths and option combinations. "
    "tools/py2v_entry.py regenerates the argument routing of TheJoker.marginal_ln_likelihood / rejection_sample / iterative_rejection_sample from source (Gen/EntryGen.v, accepted only in the pinned statement forms) and Props/C06g.v proves: the in-memory iterative sampler cuts the library and its ln_prior column at the same row (pairs kept, first rows kept), "
    "the ln_prior handed on is the library object's own column, generator and pool are the sampler's own.",
    "Trusted: as C02.",
    "DESIGN.md 3 (C06)",
)
CHECKS["C14"] = (
    "Coq proof (induction over loop fuel) about a hand-written executable model with batch sizes as inputs; exact vm_compute correspondence replaying recorded iterations",
    "Model/Iterative.v: the grow-and-retest loop with arbitrary batch sizes, budget clamp, stop conditions, non-finite guard, failure modes. "
    "Theorems (any sizes, any draws): a normal return evaluated <= budget rows, returns <= n_requested samples, exactly n_requested when enough "
    "passed, fewer only when the budget is exhausted or the code's own next-batch estimate was not positive (a floating-point corner of the growth heuristic, DESIGN 8.3), every one accepted by the C02 rule against all likelihoods evaluated so far with the last "
    "draws; too-small library raises; fuel exhaustion raises; the block bookkeeping of both loops is regenerated from the source (tools/py2v_iter.py -> Gen/IterBook.v, fail-closed) and Props/C14b.v proves, for every growth estimate, request, limit and sequence of acceptance counts, that the rounds evaluate contiguous, non-empty, disjoint blocks of the evaluation order from position 0 up to at most the limit; evaluated rows are a prefix of a duplicate-free order; a returned non-JokerSamples "
    "never matches the model. Each run Coq replays the recorded iterations (it_check).",
    "Trusted: as C02; the growth formula itself (a float truncation) is deliberately not modelled -- sizes are read off the recorded uniform() "
    "calls; maxiter=128 is not reachable in practice and is covered by the theorem only.",
    "DESIGN.md 3 (C14)",
)

CHECKS["C12"] = (
    "Coq proof (lists) about a hand-written table-level store model and the batch readers regenerated from source; exact vm_compute correspondence replaying operation sequences executed on real files",
    "Model/Store.v: store = optional table (ordered header of (name, unit), metadata t_ref/poly_trend/n_offsets, rows); write/overwrite/append "
    "with refusal kinds, read, read_batch by slice and by index with unit factors. Theorems: read after write returns the table written; an "
    "append is accepted iff header (names, order, units -- compatibility is EQUALITY, so fewer/more columns are refused) and metadata agree; overwrite together with append replaces the table (finding D14, fixed); tables with one single-precision column are read bit for bit by every reader (finding D15, fixed) "
    "and then rows are concatenated; any sequence of compatible appends yields the concatenation in order; a refused write leaves the store "
    "unchanged; slice reads return exactly rows lo+k*step<hi, index reads one row per index in the given order with repeats. "
    "tools/py2v_readbatch.py regenerates Gen/ReadBatchGen.v from utils.read_batch / read_batch_slice / read_batch_idx / read_random_batch "
    "(accepted only in the pinned statement forms) and Props/C12g.v proves the generated column-by-column readers return exactly the rows of the model. "
    "tools/py2v_write.py regenerates the control flow of the vendored HDF5 writer write_table_hdf5 (file level, group level, dataset creation / extension over the table dataset and its serialized-header dataset) and Props/C12w.v proves it REFINES the table-level write for every flag combination on every well-formed file -- "
    "and that the code before the repair of D14 did not. Each run Coq "
    "replays random op sequences executed on real HDF5/FITS files (run_ops).",
    "Trusted: Coq kernel + vm_compute; HDF5/FITS byte encodings, YAML header, astropy unit factors and Time serialisation (store modelled at "
    "table level); the random-subset read is checked through the recorded choice() (numpy's choice without replacement trusted).",
    "DESIGN.md 3 (C12)",
)

CHECKS["C13"] = (
    "Coq proof (exhaustive case analysis + vm_compute over inputs and fault positions, for all k) about a skeleton regenerated from utils.py by a translator; dynamic fault enumeration on the implementation compared by Coq with the model",
    "tools/py2v_tempfile.py turns tempfile_decorator.wrapper into a term of a 14-constructor command language (Model/TempFile.v gives its "
    "semantics over a file-system state with a fault at the k-th faultable step). Theorems about the generated term, for every input kind and "
    "every fault position: no temporary file remains, the user's file is untouched (bodies open read-only: extracted side condition), a fault "
    "reaches the caller as that exception, no fault => the wrapped value is returned, wrong type => TypeError, state after = state before "
    "(re-entrancy). Each run injects a unique exception into the real implementation at the k-th invocation of 10 internal callables for 3 entry "
    "points and both input kinds and lets Coq compare observation and model (tf_check); exception identity, TMPDIR *.hdf5, user-file SHA-256 "
    "and a follow-up call are checked directly.",
    "Trusted: Coq kernel + vm_compute; translator (fail-closed); OS steps (create/close/unlink) do not fail; a worker killed by the OS is not "
    "modelled; multi-process pools are exercised only in the thorough tier (partial: process scheduling is not modelled).",
    "DESIGN.md 3 (C13)",
)

CHECKS["C17"] = (
    "Coq proof (Reals trigonometry + lists) about a hand-written model; exact vm_compute correspondence for table structure, certified-interval certificates (Coq-Interval reflection) for wrap_K rows and time-of-phase",
    "Theorems: wrap_K's transformation (K -> -K, omega -> omega + pi - 2 pi n) leaves K(cos(omega+f)+e cos omega) unchanged for all f, e, n; an "
    "accepted row certificate means untouched where K>=0, K'=-K and omega' within 1e-9 of omega+pi mod 2pi in [0,2pi) where K<0; at the time "
    "returned by get_time_with_phase the mean anomaly equals the requested phase; selection keeps header and metadata and returns the selected "
    "rows; median_period's index is a member of rank floor(n/2). Each run Coq compares the model with the implementation on random tables (index "
    "expressions, copy, mean/std metadata, median_period, pack/unpack, every wrap_K row, time-of-phase). unpack(pack t) = t for every well-formed table (distinct names, equal column lengths: names, "
    "units, values, metadata) and pack(unpack rows) = rows for every rectangular matrix are proved (C17_unpack_pack, C17_pack_unpack). "
    "tools/py2v_samples.py regenerates wrap_K, get_time_with_phase, get_t0 and median_period from source as real-number row functions (Gen/SamplesGen.v, accepted only in the pinned statement forms, numpy's % as the floored remainder) and Props/C17g.v proves for EVERY row: K' >= 0, untouched where K >= 0, "
    "K' = -K and omega' = omega + pi - 2 pi n in [0, 2 pi) where K < 0, same RV curve; mean anomaly at the returned time = requested phase.",
    "Trusted: Coq kernel + vm_compute; Coq-Interval; stdlib real axioms; astropy unit conversion and Time arithmetic (1e-9); twobody orbits only "
    "in the predicate (RV curve before/after wrap_K).",
    "DESIGN.md 3 (C17)",
)

CHECKS["C18"] = (
    "Coq proof (soundness + completeness of a decision procedure, lists) about a hand-written model of the validators; exact vm_compute correspondence on a systematic perturbation grid",
    "Model/Validate.v mirrors JokerPrior.__init__'s presence/unit loop and Normal-only loop (first error wins) and the data-source checks. "
    "Theorems: validate_prior = Ok IFF every required parameter is present with a unit of the canonical dimension and every linear and offset "
    "parameter has a Normal-family prior (the accept set is pinned exactly); par_names = nonlinear ++ linear ++ offsets; validate_data = Ok IFF a "
    "single diagonal-error RVData with 0 offsets or k+1 diagonal-error RVData sources with k offsets. Each run Coq compares verdict, failing check "
    "class and the parameter named with the implementation on ~590 systematically perturbed configurations (exhaustive single perturbations). "
    "tools/py2v_prior.py regenerates JokerPrior.__init__'s two validation loops, par_names and the required-unit tables of prior_helpers.py from source (Gen/PriorGen.v, accepted only in the pinned statement forms); Props/C18g.v proves the generated loops equal the model, hence accept exactly the well-formed priors and list parameters nonlinear, linear, offsets.",
    "Trusted: Coq kernel + vm_compute; mapping of exception messages to (check class, parameter); pymc/pytensor build distributions as declared. "
    "'Normal-family' is recognised by the code through the distribution's print name (Normal / FixedCompanionMass): subclasses with other print "
    "names are outside the grid.",
    "DESIGN.md 3 (C18)",
)

CHECKS["C10"] = (
    "Coq proof (counters, NoDup by induction over call sequences) about a hand-written model of generator use; fail-closed static effect scan of the source; dynamic bit-identity and recorded spawn protocol compared by Coq with the model",
    "Model/Rng.v: the generator as (parent position, spawn counter), sampler activity as a sequence of draw / spawn calls. Theorems (any call "
    "sequence, any batch counts, any starting state): all child keys ever handed out are pairwise distinct and fresh; the parent stream is read "
    "in pairwise disjoint segments. Tie (a): tools/rng_scan.py proves on the current source that every draw goes through rng / self.rng, no numpy "
    "or Python global random function is used, prior.sample / pm.draw / the helpers receive the generator, run_worker spawns one child per task "
    "(10 rules, fail-closed). Tie (b): every entry point x option path is run twice with equal seeds under different global seeds (bit-identical "
    "required, global state untouched), serial vs 2-process pool, and the recorded spawn protocol (keys handed out, keys each task generator was "
    "built from) is compared by Coq with the model.",
    "Trusted: Coq kernel + vm_compute; numpy's SeedSequence.spawn contract (distinct keys = independent streams); pymc.draw(random_seed=rng); the "
    "static scan's rule set as the code-level reading of the model. Real process scheduling is exercised, not modelled.",
    "DESIGN.md 3 (C10)",
)

CHECKS["C01"] = (
    "Coq proof about a kernel model regenerated from fast_likelihood.pyx by a translator: loop-nest characterisation for all sizes and states "
    "(structured mirror checked by conversion, lens/funext reasoning), MathComp bridge and Woodbury/Sylvester identities -> the generated entry "
    "point returns the Gaussian marginal (C01_marginal_is_gaussian); per-input exact bigQ certificates against the closed form; toleranced "
    "correspondence of the generated model with the binary rebuilt from the generated C",
    "tools/pyx2v.py regenerates Gen/KernelPyx.v (get_ivar, make_AAinv, make_bBBinv, likelihood_worker, the three per-sample preludes, the mu/Lambda "
    "slotting of __init__, and the state-algebra lemmas) from the .pyx on every run -- the only way a .pyx edit can be judged here, there is no "
    "Cython. Proved about that generated code, for every number of epochs / linear parameters, every operations record or MathComp field and every "
    "initial state: jitter folding (1/new_ivar = 1/ivar + s^2 on every epoch); prior means/variances land in their own design-matrix columns, "
    "P0 in days; the prelude leaves the Kepler-oracle K column, the jittered inverse variances and min(max_K^2, sigma_K0^2/(1-e^2) (P/P0)^(-2/3)) "
    "in slot 0; every loop nest of make_AAinv / make_bBBinv / likelihood_worker computes its closed form (sums in loop order; structured mirror = "
    "generated term by conversion); read in a MathComp field these are Ainv = Lambda^-1 + M^T W M, B = W^-1 + M Lambda M^T, Binv = W - W M Y "
    "M^T W, chi^2 = r^T Binv r, so by Woodbury the returned value is -1/2 (r^T B^-1 r + sum ln(2 pi |U_ii|)) with B^-1 a two-sided inverse "
    "(C01_marginal_is_gaussian), given that the inversion oracle returns a right inverse; over Coq's reals (C01_real_value, Props/C01r.v, libc log = ln) "
    "that value IS ln N(y | M mu, B) = -1/2 (r^T B^-1 r + n ln 2 pi + ln det B) when the LU diagonal multiplies to det B > 0. C01_C05_real_every_schedule composes this with the generated batch_tasks and the schedule model of C05: for every n_batches, pool and complete schedule the cache-file path returns these log-densities row by row in library order. Assumed: the LU oracle's diagonal gives ln|det B| "
    "(LAPACK contract), oracles succeed, IEEE rounding. Per run Coq additionally certifies every generated input end to end (exact rational "
    "equality of chi^2, |det B|, B, B^-1, a, Ainv with the closed form from a junk initial state; certified-interval equality of ll) and compares "
    "the generated model with the rebuilt binary (ll through TheJoker.marginal_ln_likelihood incl. mixed-jitter batches, a / Ainv buffers).",
    "Trusted: Coq kernel + vm_compute; functional_extensionality (stdlib axiom, arrays are functions); Bignums bigQ; Coq-Interval via Base/RealEnc.v; "
    "translator tools/pyx2v.py + tools/imp2v.py (fail-closed); tools/patch_kernel_c.py + gcc (the generated C cannot be regenerated); LAPACK as "
    "oracles (contracts as hypotheses; exact Gauss-Jordan instances checked by X X^-1 = I); twobody's Kepler solver as a table oracle for the "
    "specified convention; astropy units; IEEE rounding bridged by tolerance (1e-7).",
    "DESIGN.md 3 (C01), 8.1",
)

CHECKS["C03"] = (
    "Coq proof: generated posterior path prepares the same state as the marginal path (cap included); MathComp completing-the-square theorem for all "
    "dimensions; list proofs of the row layout; per-input exact certificates for (a, A^-1); recorded multivariate_normal arguments compared by Coq",
    "Proved for all inputs: (generated code) k_posterior_one and k_marginal_one call the worker on the same per-sample state -- same jittered inverse "
    "variances, prior slots and capped K variance; the generated posterior path (all sizes, any state) leaves Ainv = Lambda^-1 + M^T C_s^-1 M and, "
    "given the solver's contract, a with Ainv a = M^T C_s^-1 y + Lambda^-1 mu, and returns the marginal path's value (C03_posterior_is_conditional); (MathComp, any field, all n, k) (y-Mx)^T C_s^-1 (y-Mx) + (x-mu)^T Lambda^-1 (x-mu) = (x-a)^T A^-1 "
    "(x-a) + (M mu-y)^T B^-1 (M mu-y) with A^-1 = Lambda^-1 + M^T C_s^-1 M and A^-1 a = Lambda^-1 mu + M^T C_s^-1 y, i.e. N(a, A) is the exact "
    "conditional -- over Coq's reals (Props/C03r.v, C03_conditional_density_real) ln N(x | a, A) = ln N(y | M x, C_s) + ln N(x | mu, Lambda) - ln N(y | M mu, B) "
    "for every x, and the recorded (mean, cov) are also observed on the cache-file path through a recording pool; (lists) output row n*n_linear_samples+j = sample n's nonlinear parameters ++ its j-th draw. Per run: Coq certifies on every "
    "generated input that the generated loops produce exactly that (a, A^-1), that the (mean, cov) the implementation hands to "
    "Generator.multivariate_normal (recorded through a Generator subclass passed as rng) are that a and the exact inverse of that A^-1 to 1e-4 "
    "posterior sigma, and that the returned rows are bit-for-bit the model's layout of the recorded draws.",
    "Trusted: as C01, plus numpy's multivariate_normal drawing from the N(mean, cov) it is handed (the distribution of the draws is not verified) "
    "and JokerSamples.unpack's unit table observed through the returned columns.",
    "DESIGN.md 3 (C03)",
)

CHECKS["C04"] = (
    "Coq proof: curve identity (Q, any poly_trend / offsets, abstract Keplerian), MathComp completing-the-square for every x + determinant lemma "
    "(all dimensions), Bayes identity over the reals; per-input certificates (exact bigQ + certified intervals) on the implementation's orbit RVs, "
    "ln_unmarginalized_likelihood and marginal_ln_likelihood for posterior draws and hand-built rows",
    "Proved: rv_same_curve -- with samples.t_ref = the data's reference epoch the sampler's design-matrix model K g(2 pi (t-t_ref)/P - M0) + (1, "
    "survey indicators, dt, dt^2..) . (v0, offsets, v1..) equals the reconstructed orbit (Kepler term + Horner polynomial at t_ref) plus the "
    "observation's own survey offset, for every poly_trend and number of offsets; chi^2_lik(x) + chi^2_prior(x) = chi^2_post(x) + chi^2_marg for "
    "EVERY x over any field and all dimensions; det B det A = det C_s det Lambda; over R those give ln N(marg) = ln N(lik) + ln N(prior) - ln N(post). "
    "C04_bayes_identity_real (Props/C04r.v) discharges the algebraic premises at R through a MathComp field structure on Coq's reals "
    "(Base/Rstruct.v): the identity holds for real matrices of every dimension and every x. Per run Coq evaluates check_bayes on every generated problem for a posterior draw returned by rejection_sample and a hand-built row: "
    "get_orbit(i).radial_velocity(t) (+ own offset) = M x; ln_unmarginalized_likelihood = Gaussian data term with sigma^2 + s^2; the identity on the "
    "implementation's own two log-likelihood numbers; the exact rational identities; trend_M rows = (1, indicators, dt^i); samples.t_ref = data t_ref. "
    "tools/py2v_design.py regenerates the two design-matrix builders from source (Gen/DesignGen.v); Props/C08g.v, built by this check too, proves every generated row is (1, indicators of the row's label, dt, dt^2, ..).",
    "Trusted: as C01; twobody's KeplerOrbit/PolynomialRVTrend evaluate the elements they are given (values at the data epochs are table inputs); "
    "for survey k>=1 the harness subtracts the row's own offset before calling ln_unmarginalized_likelihood; tolerances 1e-9 (curve), 1e-8 (ll), "
    "1e-6 (1+|ll|) (identity).",
    "DESIGN.md 3 (C04)",
)

CHECKS["C07"] = (
    "Coq proof: unit-conversion algebra (Q, field), MathComp scaling lemmas for all dimensions, Jacobian constant over the reals, shift-invariance of "
    "the rejection rule (lists, XQ), P0 unit fact about the generated kernel model; twin problems on the implementation, each twin certified against "
    "the generated model and the exact closed form, Jacobian relation between twins certified by Coq-Interval",
    "Proved: re-expressing any quantity in an equivalent unit leaves the value the kernel receives unchanged and unpack(pack) is the identity; under a "
    "change of the kernel's velocity unit by c != 0, for every field and all n, k: B -> c^2 B, B^-1 -> c^-2 B^-1, chi^2 unchanged, det B -> c^(2n) det "
    "B, A^-1 -> c^-2 A^-1 and a -> c a; over R ln N changes by exactly -n ln c (C07_jacobian_real, Props/C07r.v: for real matrices of every dimension, no premise beyond c > 0 and det B > 0); adding one constant to every ln-likelihood leaves accept_idx unchanged "
    "for every decision oracle that depends on the value of ll_i - max only; the generated __init__ converts P0 to days. Per run: each base problem "
    "and its four twins (data km/s<->m/s; all prior scales, sigma_K0, max_K in the other velocity unit and trend terms per yr<->d; P0 and the period "
    "prior in yr/d/h; prior-sample columns in yr/deg/other velocity unit) are run on the implementation; every twin is compared with the generated "
    "kernel model and the closed form as in C01; Coq certifies ll_twin - ll_base + n ln c = 0; with equal seeds the accepted library rows are "
    "identical and the (mean, cov) handed to the generator are physically equal.",
    "Trusted: as C01; astropy's conversion factors; the interval-based acceptance oracle used in runs is not itself proved invariant under rewriting "
    "of the rational (the theorem is for value-dependent oracles); accepted-set equality is skipped when a decision is within 1e-7 of its threshold.",
    "DESIGN.md 3 (C07)",
)

CHECKS["C05"] = (
    "Coq proof (lists, Z, on the task list regenerated from utils.py): batching invariance for every n_batches and any contiguous cover; generated "
    "kernel preludes identical on all paths; metamorphic bit-identity runs over every execution path with Coq-certified batching predictions; generated "
    "kernel model started from a junk state",
    "Proved: for every library, every per-row function and every n_batches >= 1 (more batches than rows included) evaluating batch by batch with "
    "batch_tasks' own task list (Gen/BatchTasksGen.v) and concatenating in task order equals the per-row values in input order -- also for explicit "
    "index arrays and any contiguous cover; the three kernel entry points rebuild the per-sample state with one prelude. Per run: a library is "
    "evaluated in memory, through the cache, by file name, with n_batches in {None,2,3,N-1,N+5} (thorough adds 1,N,N+1), on a 2-process pool, after "
    "unrelated marginal/posterior calls on the same sampler, on the helper after posterior/test calls, through a dill-pickled helper, row by row and "
    "reversed: all bit-identical and in input order; Coq certifies each batched result against the batching model; rows are tied to the generated "
    "kernel model, which is run from a state whose every scratch cell holds junk (a cell read before it is written, i.e. dependence on earlier "
    "calls, shows as a disagreement with the closed form); accepted sets equal for equal seeds across paths. C05_history_independent: the "
    "generated worker's value depends only on the configuration arrays, whatever the scratch buffers hold, for oracles that read only their block "
    "(proved of the executable oracles). Schedules (Props/C05s.v): Model/Sched.v models a pool whose workers each have private state and complete tasks in any order on any worker; C05_file_path_every_schedule proves, for the generated kernel and the generated batch_tasks, every n_batches >= 1, all worker states that agree with a fresh helper on the configuration and EVERY complete schedule, that slot i holds the fresh helper's values for batch i and the concatenation is the per-row values in library order. Real OS scheduling can only choose among these schedules; a crashing worker process is not modelled.",
    "Trusted: Coq kernel + vm_compute; translators py2v_batch / pyx2v (fail-closed); schwimmbad pool.map order; dill for pickling the helper (stdlib "
    "pickle cannot serialise pymc objects here, the test-suite uses dill too).",
    "DESIGN.md 3 (C05)",
)

CHECKS["C09"] = (
    "Coq proof over the reals (Coquelicot derivative and Riemann integral, Rpower algebra) about hand-written density definitions whose executable "
    "encodings denote them by construction; certified-interval (Coq-Interval reflection) certificates on the implementation's logp values, inverse-CDF "
    "draws, K-prior sigma / log-density and ln_prior row differences",
    "Proved: log-uniform prior on [a,b], 0<a<b: every draw exp(u ln(b/a) + ln a), 0<=u<1, lies in [a,b); the transform inverts the CDF, which rises "
    "strictly from 0 at a to 1 at b; the derivative of the CDF is 1/(x ln(b/a)); -ln x - ln ln(b/a) is its logarithm; it integrates to 1 over [a,b]; "
    "K prior: sigma(P,e)^2 = min(sigma_K0^2 (P/P0)^(-2/3)/(1-e^2), max_K^2), i.e. the prior the draws come from is the one the kernel marginalises "
    "against; each executable encoding (ul_logp_rx, ul_draw_rx, fcm_sigma_rx ...) denotes the real definition. Per run Coq certifies, for supports "
    "over 5 decades: pm.logp(UniformLog) inside / at both edges / outside (minus infinity), rng_fn driven by chosen uniform variates, the K prior's "
    "sigma (clip active and not), its square against the kernel's rule, its log-density at (K; P, e), and that differences of the ln_prior column of "
    "prior.sample(return_logprobs=True) between rows equal differences of the joint log-density at those rows, generate_linear off and on. "
    "Python-level: Beta parameters = Kipping (2013), 4000 draws inside the support, KS distance (supportive).",
    "Trusted: numpy / pymc draw from the built-in uniform, Beta, Normal they are asked for; Beta normaliser and uniform-angle constants not checked "
    "(row differences only); float32 constants inside pytensor graphs: tolerances 2e-6 (densities, draws), 1e-5 (row differences); Coq-Interval.",
    "DESIGN.md 3 (C09)",
)

CHECKS["C11"] = (
    "Coq proof over the reals (field, trigonometry) about a hand-written reading of setup_mcmc / KeplerianOrbit; per-point certificates (exact bigQ + "
    "certified intervals) on the assembled pymc model's model_rv, ln_likelihood and observed-variable log-density against the sampler's design-matrix model",
    "Proved: whatever internal reference anomaly the orbit object derives from (e, omega), its mean anomaly at x = t - t_ref is 2 pi x/P - M0 (the "
    "sampler's convention, t_peri = P M0/2 pi); the RV form K(cos w cos f - sin w sin f + e cos w) is the kernel's K(cos(w+f) + e cos w) for any "
    "true-anomaly function; the stored ln_prior = logp - ln_likelihood is the prior part of the log-density iff ln_likelihood is the Gaussian data "
    "term; Normal(rv, sqrt(sigma^2+s^2)) has variance sigma^2+s^2; the median-period sample is a member of rank floor(n/2). Per run the pymc model "
    "that setup_mcmc assembles (poly_trend 1..3, 0..2 offsets, constant / sampled / no jitter, prior units d|yr, km/s|m/s) is evaluated at the "
    "returned initial point and at a second point as a function of its random variables: Coq certifies model_rv = M x with the K column from "
    "twobody at the sampler's convention, ln_likelihood = sum ln N(y | M x, sigma^2+s^2) and the same for the log-density term of the observed "
    "variable; mcmc_init = the chosen (median-period) sample in the prior's units. tools/py2v_mcmc.py regenerates setup_mcmc and KeplerianOrbit.__init__ / _warp_times / _get_true_anomaly / get_radial_velocity from source "
    "(Gen/McmcGen.v, accepted only in the pinned statement forms) and Props/C11g.v proves the generated orbit counts the mean anomaly as the sampler does, model_rv = the sampler's Keplerian term + design row . (v0, offsets, v1..), and the observation term is the Gaussian data term with variance err^2 + s^2.",
    "Trusted: pymc's model.logp = sum of declared log-densities (free variables with their transforms' Jacobians + the observed variable); "
    "exoplanet_core's Kepler solver; twobody for the sampler-convention K column; astropy conversion factors; tolerances 1e-8 / 1e-7.",
    "DESIGN.md 3 (C11)",
)

NOT_YET = {}


def main():
    props = [json.loads(l) for l in open(os.path.join(ROOT, "properties.jsonl"))]
    checks = []
    na = []
    for p in props:
        pid = p["id"]
        if pid in CHECKS:
            tech, text, note, ref = CHECKS[pid]
            checks.append(
                {
                    "property_id": pid,
                    "quick_cmd": f"./check {pid} --tier quick",
                    "thorough_cmd": f"./check {pid} --tier thorough",
                    "evidence_file": f"/verif/evidence/{pid}.json",
                    "replay_cmd_template": f"./check {pid} --replay {{path}}",
                    "engine": "coq",
                    "level_claimed": {"category": "proof", "text": text, "design_ref": ref},
                    "level_note": note,
                    "technique": tech,
                }
            )
        else:
            na.append({"property_id": pid, "reason": NOT_YET.get(pid, "check not built yet in this development (see DESIGN.md section 7 for the build order); not claimed")})
    m = {
        "version": 1,
        "setup_cmd": "make -C /verif setup",
        "hooks": {
            "guard": "THEJOKER_VERIF",
            "enable": "no hooks are needed: every observation point is reachable through the public API (recording Generator subclasses, public Cython buffers, monkey-patching from the harness process, private TMPDIR)",
            "baseline_off_cmd": BASELINE,
            "source_commits": [],
            "add_only": True,
        },
        "engines": [
            {
                "name": "coq",
                "path": "/verif/coq",
                "serves_properties": sorted(CHECKS),
                "kind_free_text": "Coq 8.16.1 development (Base/Model/Gen/Proofs/Props) + Python harness (/verif/harness) that regenerates models from source, runs the implementation and lets Coq compare model and implementation (vm_compute / interval certificates)",
            }
        ],
        "checks": checks,
        "notes": "Every check: ./check <id> --tier quick|thorough; VERIF_SEED honoured. known_findings.json lists genuine defects (open = reported as KNOWN-FINDING; fixed = suppress nothing).",
        "not_applicable": na,
    }
    with open(os.path.join(ROOT, "MANIFEST.json"), "w") as f:
        json.dump(m, f, indent=1)
    print("MANIFEST.json:", len(checks), "checks,", len(na), "not claimed")


if __name__ == "__main__":
    main()
