#!/venv/bin/python
"""py2v_reject -- regenerate coq/Gen/RejectSites.v from the four places where thejoker applies the rejection rule:

    likelihood_helpers.rejection_sample_inmem        likelihood_helpers.iterative_rejection_inmem
    multiproc_helpers.rejection_sample_helper        multiproc_helpers.iterative_rejection_helper

usage: py2v_reject.py <repo-root> <out.v>

For each function the translator follows, in source order (through loops, conditionals and `with` blocks), every assignment
to the names  uu, aa, good_samples_idx, full_samples_idx  and the statements that hand rows and log-probability columns to
the caller:
    make_full_samples[_inmem](..)        the rows whose linear parameters are generated
    samples["ln_likelihood"] = ..        samples["ln_prior"] = ..
and emits, per site, Coq definitions over the array combinators of Model/NpOps.v:
    <site>_good     dec lls us bound        good_samples_idx as finally used
    <site>_full     order good              full_samples_idx (library rows)
    <site>_rows     order good              index handed to make_full_samples
    <site>_lnlike   n lls order good        the ln_likelihood column
    <site>_lnprior  n lnprior order good    the ln_prior column
Fail-closed: an assignment to a tracked name or an output statement whose right-hand side is not built from the forms below
aborts with exit status 2 and a message naming the source line.

    np.where(np.exp(L - L.max()) > uu)[0]   (also through  aa = np.exp(L - L.max()))      with  uu = rng.uniform(size=len(L))
    X[:bound]            bound in {max_posterior_samples, n_requested_samples}
    ORDER[X]             ORDER in {idx, all_idx}
    if randomize_prior_order: full = idx[good]  else: full = good
    L[X]                 L in {lls, all_marg_lls}
    ln_prior[X]          data.read_coordinates(X, field="ln_prior")
    np.repeat(V, n_linear_samples)
"""
import ast
import os
import sys

SITES = [
    ("inmem", "thejoker/likelihood_helpers.py", "rejection_sample_inmem"),
    ("iter_inmem", "thejoker/likelihood_helpers.py", "iterative_rejection_inmem"),
    ("file", "thejoker/multiproc_helpers.py", "rejection_sample_helper"),
    ("iter_file", "thejoker/multiproc_helpers.py", "iterative_rejection_helper"),
]
LL_NAMES = {"lls", "all_marg_lls"}
ORDER_NAMES = {"idx", "all_idx"}
BOUND_NAMES = {"max_posterior_samples", "n_requested_samples"}
TRACKED = {"uu", "aa", "good_samples_idx", "full_samples_idx"}


class Untranslatable(Exception):
    pass


def fail(node, msg, fn=""):
    raise Untranslatable(f"{fn}line {getattr(node, 'lineno', '?')}: {msg}: `{ast.unparse(node) if node is not None else ''}`")


def is_name(n, names):
    return isinstance(n, ast.Name) and n.id in (names if isinstance(names, (set, tuple, list)) else {names})


def is_np_call(n, attr, nargs=None):
    return (isinstance(n, ast.Call) and isinstance(n.func, ast.Attribute) and is_name(n.func.value, "np") and n.func.attr == attr
            and (nargs is None or len(n.args) == nargs) and not (n.keywords and attr != "repeat"))


class Site:
    """symbolic walk of one function body"""

    def __init__(self, tag, fn):
        self.tag, self.fn = tag, fn
        self.env = {}  # tracked name -> symbolic value (tuples)
        self.rows = self.lnlike = self.lnprior = None
        self.where_seen = 0

    # ---- expressions ----
    def exp_level(self, n):
        """np.exp(L - L.max()) -> ('level',)"""
        if is_np_call(n, "exp", 1) and isinstance(n.args[0], ast.BinOp) and isinstance(n.args[0].op, ast.Sub):
            a, b = n.args[0].left, n.args[0].right
            if (is_name(a, LL_NAMES) and isinstance(b, ast.Call) and not b.args and not b.keywords and isinstance(b.func, ast.Attribute)
                    and b.func.attr == "max" and is_name(b.func.value, a.id)):
                return ("level", a.id)
        fail(n, "acceptance level must be np.exp(L - L.max()) with L the likelihood array", self.fn)

    def uniform_of(self, n):
        """rng.uniform(size=len(L)) -> ('uu', L)"""
        if (isinstance(n, ast.Call) and isinstance(n.func, ast.Attribute) and n.func.attr == "uniform" and is_name(n.func.value, "rng") and not n.args
                and len(n.keywords) == 1 and n.keywords[0].arg == "size"):
            s = n.keywords[0].value
            if isinstance(s, ast.Call) and is_name(s.func, "len") and len(s.args) == 1 and is_name(s.args[0], LL_NAMES):
                return ("uu", s.args[0].id)
        fail(n, "uu must be rng.uniform(size=len(L)) with L the likelihood array: one draw per evaluated sample from the sampler's generator", self.fn)

    def idx_expr(self, n):
        """index-array valued expression"""
        if is_name(n, "good_samples_idx") or is_name(n, "full_samples_idx"):
            if n.id not in self.env:
                fail(n, f"{n.id} used before assignment", self.fn)
            return ("ref", n.id)
        # np.where(LEVEL > uu)[0]
        if (isinstance(n, ast.Subscript) and isinstance(n.slice, ast.Constant) and n.slice.value == 0 and is_np_call(n.value, "where", 1)):
            c = n.value.args[0]
            if not (isinstance(c, ast.Compare) and len(c.ops) == 1 and isinstance(c.ops[0], ast.Gt)):
                fail(c, "the rule must be the strict comparison  level > uu", self.fn)
            left, right = c.left, c.comparators[0]
            lev = self.env.get("aa") if is_name(left, "aa") else self.exp_level(left)
            if lev is None or lev[0] != "level":
                fail(left, "left-hand side of the rule is not np.exp(L - L.max())", self.fn)
            if not is_name(right, "uu") or self.env.get("uu") is None:
                fail(right, "right-hand side of the rule must be the uniform draws uu", self.fn)
            if self.env["uu"][1] != lev[1]:
                fail(c, "uu was drawn for another array than the one compared", self.fn)
            self.where_seen += 1
            return ("where", lev[1])
        if isinstance(n, ast.Subscript) and isinstance(n.slice, ast.Slice):
            sl = n.slice
            if sl.lower is None and sl.step is None and is_name(sl.upper, BOUND_NAMES):
                return ("prefix", self.idx_expr(n.value))
            fail(n, "only X[:max_posterior_samples] / X[:n_requested_samples] truncations are recognised", self.fn)
        if isinstance(n, ast.Subscript) and is_name(n.value, ORDER_NAMES):
            return ("through", self.idx_expr(n.slice))
        fail(n, "unrecognised index expression", self.fn)

    def col_expr(self, n):
        """np.repeat(V[X], n_linear_samples)"""
        if not (is_np_call(n, "repeat", 2) and is_name(n.args[1], "n_linear_samples") and not n.keywords):
            fail(n, "a log-probability column must be np.repeat(V, n_linear_samples)", self.fn)
        v = n.args[0]
        if isinstance(v, ast.Subscript) and is_name(v.value, LL_NAMES):
            return ("take_ll", self.idx_expr(v.slice))
        if isinstance(v, ast.Subscript) and is_name(v.value, "ln_prior"):
            return ("take_lnprior", self.idx_expr(v.slice))
        if (isinstance(v, ast.Call) and isinstance(v.func, ast.Attribute) and v.func.attr == "read_coordinates" and is_name(v.func.value, "data")
                and len(v.args) == 1 and len(v.keywords) == 1 and v.keywords[0].arg == "field" and isinstance(v.keywords[0].value, ast.Constant)
                and v.keywords[0].value.value == "ln_prior"):
            return ("take_lnprior", self.idx_expr(v.args[0]))
        fail(v, "column source must be L[X], ln_prior[X] or data.read_coordinates(X, field='ln_prior')", self.fn)

    # ---- statements ----
    def walk(self, body):
        for st in body:
            self.stmt(st)

    def assign(self, name, value):
        if name == "uu":
            self.env["uu"] = self.uniform_of(value)
        elif name == "aa":
            self.env["aa"] = self.exp_level(value)
        else:
            v = self.idx_expr(value)
            # resolve self-reference eagerly: good = good[:bound]
            self.env[name] = self.subst(v)

    def subst(self, v):
        """replace references to tracked names by their current symbolic values"""
        if v[0] == "ref":
            return self.env[v[1]]
        if v[0] in ("prefix", "through", "take_ll", "take_lnprior"):
            return (v[0], self.subst(v[1]))
        return v

    ATOM_FORMS = {
        "lls": ("marginal_ln_likelihood_inmem(joker_helper, prior_samples_batch)", "marginal_ln_likelihood_helper(**ll_kw)"),
        "all_marg_lls": ("np.array([])", "np.concatenate((all_marg_lls, marg_lls))"),
        "idx": ("rng.choice(n_total_samples, size=n_prior_samples, replace=False)",),
        "all_idx": ("np.arange(0, n_total_samples, 1)", "np.arange(0, max_prior_samples, 1)",
                    "rng.choice(n_total_samples, size=max_prior_samples, replace=False)"),
    }

    def stmt(self, st):
        # the arrays the tracked expressions are built from may only be (re)bound in the forms the pinned source uses:
        # the likelihood array is what the evaluation returned (or the concatenation of the batches so far), the order is an
        # arange or a choice without replacement
        for n in ast.walk(st) if not isinstance(st, (ast.If, ast.For, ast.While, ast.With, ast.Try)) else []:
            if isinstance(n, ast.Name) and isinstance(n.ctx, (ast.Store, ast.Del)) and n.id in self.ATOM_FORMS:
                ok = isinstance(st, ast.Assign) and len(st.targets) == 1 and isinstance(st.targets[0], ast.Name) and ast.unparse(st.value) in self.ATOM_FORMS[n.id]
                if not ok:
                    fail(st, f"`{n.id}` may only be bound as one of {self.ATOM_FORMS[n.id]}", self.fn)
        if isinstance(st, ast.Assign) and len(st.targets) == 1:
            t = st.targets[0]
            if isinstance(t, ast.Name) and t.id in TRACKED:
                return self.assign(t.id, st.value)
            if (isinstance(t, ast.Subscript) and is_name(t.value, "samples") and isinstance(t.slice, ast.Constant)
                    and t.slice.value in ("ln_likelihood", "ln_prior")):
                v = self.subst(self.col_expr(st.value))
                if t.slice.value == "ln_likelihood":
                    if self.lnlike is not None:
                        fail(st, "ln_likelihood column assigned twice", self.fn)
                    self.lnlike = v
                else:
                    if self.lnprior is not None:
                        fail(st, "ln_prior column assigned twice", self.fn)
                    self.lnprior = v
                return
            if isinstance(t, ast.Name) and t.id == "samples" and isinstance(st.value, ast.Call) and isinstance(st.value.func, ast.Name):
                f = st.value.func.id
                if f == "make_full_samples_inmem":
                    a = st.value.args[1]
                    if not (isinstance(a, ast.Subscript) and is_name(a.value, "prior_samples_batch")):
                        fail(a, "rows handed to make_full_samples_inmem must be prior_samples_batch[X]", self.fn)
                    self.rows = self.subst(self.idx_expr(a.slice))
                    return
                if f == "make_full_samples":
                    self.rows = self.subst(self.idx_expr(st.value.args[4]))
                    return
            for nm in ast.walk(t):
                if isinstance(nm, ast.Name) and nm.id in TRACKED:
                    fail(st, "assignment form to a tracked name not recognised", self.fn)
            return
        if isinstance(st, (ast.AugAssign, ast.AnnAssign)):
            tg = st.target
            if isinstance(tg, ast.Name) and tg.id in TRACKED:
                fail(st, "augmented assignment to a tracked name", self.fn)
            return
        if isinstance(st, ast.If):
            # the only conditional that may touch tracked names: if randomize_prior_order: full = idx[good] else: full = good
            touches = any(isinstance(n, ast.Name) and n.id in TRACKED and isinstance(n.ctx, ast.Store) for n in ast.walk(st))
            if not touches:
                self.walk(st.body)
                self.walk(st.orelse)
                return
            if not (is_name(st.test, "randomize_prior_order") and len(st.body) == 1 and len(st.orelse) == 1
                    and all(isinstance(b, ast.Assign) and len(b.targets) == 1 and is_name(b.targets[0], "full_samples_idx") for b in (st.body[0], st.orelse[0]))):
                fail(st, "conditional assignment to a tracked name other than the randomize_prior_order selection of full_samples_idx", self.fn)
            a = self.subst(self.idx_expr(st.body[0].value))
            b = self.subst(self.idx_expr(st.orelse[0].value))
            self.env["full_samples_idx"] = ("cond", a, b)
            return
        if isinstance(st, (ast.For, ast.While)):
            self.walk(st.body)
            self.walk(st.orelse)
            return
        if isinstance(st, ast.With):
            return self.walk(st.body)
        if isinstance(st, ast.Try):
            self.walk(st.body)
            for h in st.handlers:
                self.walk(h.body)
            self.walk(st.orelse)
            self.walk(st.finalbody)
            return
        # any other statement must not store to a tracked name
        for n in ast.walk(st):
            if isinstance(n, ast.Name) and n.id in TRACKED and isinstance(n.ctx, (ast.Store, ast.Del)):
                fail(st, "statement form storing to a tracked name not recognised", self.fn)

    # ---- emission ----
    def coq_idx(self, v, good="good"):
        """index expression as a Coq term over `order` and `good` (the final good_samples_idx)"""
        if v == self.env["good_samples_idx"]:
            return good
        k = v[0]
        if k == "through":
            return f"(np_through order {self.coq_idx(v[1], good)})"
        if k == "cond":
            a, b = v[1], v[2]
            if a[0] != "through" or a[1] != b:
                fail(None, f"randomize_prior_order selection has the unexpected form {v}", self.fn)
            return f"(np_cond_through order {self.coq_idx(b, good)})"
        if k == "prefix":
            return f"(firstn bound {self.coq_idx(v[1], good)})"
        fail(None, f"cannot express {v} over the final good_samples_idx", self.fn)

    def coq_good(self, v):
        if v[0] == "where":
            return "(np_where_level_gt dec lls us)"
        if v[0] == "prefix":
            return f"(np_prefix bound {self.coq_good(v[1])})"
        fail(None, f"good_samples_idx has the unexpected form {v}", self.fn)

    def emit(self):
        t = self.tag
        for what, v in (("good_samples_idx", self.env.get("good_samples_idx")), ("rows", self.rows), ("ln_likelihood column", self.lnlike), ("ln_prior column", self.lnprior)):
            if v is None:
                raise Untranslatable(f"{self.fn}: no {what} found")
        if self.where_seen != 1:
            raise Untranslatable(f"{self.fn}: the rule np.where(..) appears {self.where_seen} times, expected once")
        full = self.env.get("full_samples_idx")
        cond = full is not None and full[0] == "cond"
        order_ty = "option (list nat)" if cond or full is None else "list nat"
        out = [f"(* {self.fn} *)",
               f"Definition {t}_good (lls : list XQ) (us : list Q) (bound : nat) : option (list nat) := {self.coq_good(self.env['good_samples_idx'])}."]
        if full is not None:
            out.append(f"Definition {t}_full (order : {order_ty}) (good : list nat) : list nat := {self.coq_idx(full)}.")
        out.append(f"Definition {t}_rows (order : {order_ty}) (good : list nat) : list nat := {self.coq_idx(self.rows)}.")
        for nm, v, src in (("lnlike", self.lnlike, "lls"), ("lnprior", self.lnprior, "lnprior")):
            want = "take_ll" if nm == "lnlike" else "take_lnprior"
            if v[0] != want:
                raise Untranslatable(f"{self.fn}: the {nm} column is taken from the wrong array ({v[0]})")
            ty = "list XQ"
            out.append(f"Definition {t}_{nm} (n_linear : nat) ({src} : {ty}) (order : {order_ty}) (good : list nat) : list XQ := "
                       f"np_repeat n_linear (np_take {src} {self.coq_idx(v[1])}).")
        return "\n".join(out)


def main():
    repo, out = sys.argv[1], sys.argv[2]
    chunks = []
    try:
        for tag, rel, fname in SITES:
            src = open(os.path.join(repo, rel)).read()
            tree = ast.parse(src)
            fdef = next((n for n in ast.walk(tree) if isinstance(n, ast.FunctionDef) and n.name == fname), None)
            if fdef is None:
                raise Untranslatable(f"{rel}: function {fname} not found")
            s = Site(tag, f"{rel}::{fname} ")
            s.walk(fdef.body)
            chunks.append(s.emit())
    except Untranslatable as e:
        print(f"py2v_reject: UNTRANSLATABLE {e}", file=sys.stderr)
        # never leave a previous run's translation in place: a stub (no definitions) lets every other module build while
        # Proofs/RejectGen.v, and with it the obligations of Props/C02g.v, no longer check
        with open(out, "w") as f:
            f.write("(* tools/py2v_reject.py could not translate the current source: " + str(e).replace("*)", "* )") + " *)\n")
        sys.exit(2)
    text = ("(* GENERATED by tools/py2v_reject.py from thejoker/likelihood_helpers.py and thejoker/multiproc_helpers.py -- do not edit.\n"
            "   The rejection rule, truncation, index composition and log-probability columns of the four sampler entry points. *)\n"
            "From Coq Require Import QArith List.\nFrom TJ Require Import Base.XQ Model.Reject Model.NpOps.\nImport ListNotations.\n\n"
            "Section Sites.\nVariable dec : Q -> Q -> option bool.\n\n" + "\n\n".join(chunks) + "\nEnd Sites.\n")
    old = open(out).read() if os.path.exists(out) else None
    if old != text:
        with open(out, "w") as f:
            f.write(text)
        print(f"py2v_reject: wrote {out}")
    else:
        print(f"py2v_reject: unchanged {out}")


if __name__ == "__main__":
    main()
