#!/venv/bin/python
"""Mechanical edit of the Cython-generated fast_likelihood.c that mirrors the four `fix:` commits of
fast_likelihood.pyx (no Cython exists in this sandbox, so the generated C cannot be regenerated;
DESIGN 2.6).  usage: patch_kernel_c.py <pristine.c> <out.c>

  D1  make_AAinv / make_bBBinv / likelihood_worker read self.s_ivar instead of self.ivar
  D2  `elif name == 'v0'`  ->  `elif name == 'K' or name == 'v0'`   (custom K prior slot)
  D4  self.P0 = dist._P0.to_value(self.internal_units['P'])
  D3  `self.Lambda[0] = min(self.max_K**2, self.Lambda[0])` on the posterior and test paths

Every edit asserts the exact number of places it expects; anything else is an error (fail-closed).
The patched file is validated by the kernel correspondence checks (model generated from the fixed
.pyx == rebuilt binary).
"""
import re
import sys

PRISTINE_C_SHA = "23ead32a18061ba1538b37017d984edfe5639c4ca9637de7ca3e9c484a812e37"
PFX = "__pyx_f_8thejoker_3src_15fast_likelihood_12CJokerHelper_"


def func_span(src, name):
    m = re.search(r"^static [^\n]*" + re.escape(PFX + name) + r"\([^\n]*\{\n", src, flags=re.M)
    assert m, name
    end = src.index("\n}\n", m.end()) + 3
    return m.start(), end


def main():
    src = open(sys.argv[1]).read()
    # ---- D1 -------------------------------------------------------------------------------------
    total = 0
    for fn in ("make_AAinv", "make_bBBinv", "likelihood_worker"):
        a, b = func_span(src, fn)
        body = src[a:b]
        n = body.count("__pyx_v_self->ivar")
        total += n
        body = body.replace("__pyx_v_self->ivar", "__pyx_v_self->s_ivar")
        body = body.replace('"ivar");', '"s_ivar");')
        body = re.sub(r"self\.ivar\[", "self.s_ivar[", body)
        src = src[:a] + body + src[b:]
    assert total == 30, total
    # ---- D2 -------------------------------------------------------------------------------------
    old = ("    __pyx_t_17 = __Pyx_PyObject_CompareBoolEq_object_str(__pyx_v_name, __pyx_mstate_global->__pyx_n_u_v0, Py_EQ); "
           "if (unlikely((__pyx_t_17 < 0))) __PYX_ERR(0, 245, __pyx_L1_error)\n")
    assert src.count(old) == 1
    new = ("    __pyx_t_17 = (__Pyx_PyObject_Equals_obj_ch75(__pyx_v_name, __pyx_mstate_global->__pyx_n_u_K, Py_EQ)); "
           "if (unlikely((__pyx_t_17 < 0))) __PYX_ERR(0, 245, __pyx_L1_error)\n"
           "    if (!__pyx_t_17) {\n  " + old + "    }\n")
    src = src.replace(old, new)
    src = src.replace(" *             elif name == 'v0':", " *             elif name == 'K' or name == 'v0':")
    # ---- D4 -------------------------------------------------------------------------------------
    a = src.index("      __pyx_t_7 = __Pyx_PyObject_GetAttrStr(__pyx_v_prior, __pyx_mstate_global->__pyx_n_u_pars); if (unlikely(!__pyx_t_7)) __PYX_ERR(0, 240, __pyx_L1_error)")
    endmark = "      __Pyx_DECREF(__pyx_t_2); __pyx_t_2 = 0;\n      __pyx_t_12 = 0;\n      {\n        PyObject *__pyx_callargs[2] = {__pyx_t_14, __pyx_t_7};"
    b = src.index(endmark, a)
    assert 0 < b - a < 4000, b - a
    repl = ("      /* self.P0 = dist._P0.to_value(self.internal_units['P']) */\n"
            "      __pyx_t_7 = __Pyx_PyObject_GetItem(__pyx_v_self->internal_units, __pyx_mstate_global->__pyx_n_u_P); "
            "if (unlikely(!__pyx_t_7)) __PYX_ERR(0, 240, __pyx_L1_error)\n"
            "      __Pyx_GOTREF(__pyx_t_7);\n")
    src = src[:a] + repl + src[b + len("      __Pyx_DECREF(__pyx_t_2); __pyx_t_2 = 0;\n"):]
    src = src.replace(" *                 self.P0 = dist._P0.to_value(getattr(prior.pars['P'],", " *                 self.P0 = dist._P0.to_value(self.internal_units['P'])")
    # ---- D3 -------------------------------------------------------------------------------------
    cap = ("{tab}/* self.Lambda[0] = min(self.max_K**2, self.Lambda[0]) */\n"
           "{tab}{{\n"
           "{tab}  double __tj_lam = (*((double *) ( /* dim=0 */ ((char *) (((double *) __pyx_v_self->Lambda.data) + 0)) )));\n"
           "{tab}  double __tj_cap = pow(__pyx_v_self->max_K, 2.0);\n"
           "{tab}  *((double *) ( /* dim=0 */ ((char *) (((double *) __pyx_v_self->Lambda.data) + 0)) )) = (__tj_lam < __tj_cap) ? __tj_lam : __tj_cap;\n"
           "{tab}}}\n")
    n3 = 0
    for fn, tvar, idx, tab in (("batch_get_posterior_samples", "__pyx_t_19", "__pyx_t_15", "      "), ("test_likelihood_worker", "__pyx_t_14", "__pyx_t_12", "    ")):
        a, b = func_span(src, fn)
        body = src[a:b]
        store = f"{tab}*((double *) ( /* dim=0 */ ((char *) (((double *) __pyx_v_self->Lambda.data) + {idx})) )) = {tvar};\n"
        assert body.count(store) == 1, (fn, body.count(store))
        body = body.replace(store, store + cap.format(tab=tab))
        n3 += 1
        src = src[:a] + body + src[b:]
    assert n3 == 2
    open(sys.argv[2], "w").write(src)
    print("patched: D1 (30 accesses = 6 reads), D2, D4, D3 (2 paths)")


if __name__ == "__main__":
    main()
