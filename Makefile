# /verif -- build the whole framework offline from files on disk.
SHELL := /bin/bash
.PHONY: setup coq regen kernel clean gate

setup: regen coq kernel gate

regen:
	@mkdir -p coq/Gen
	-/venv/bin/python tools/regen_all.py /repo coq

coq:
	cd coq && coq_makefile -f _CoqProject -o Makefile >/dev/null
	cd coq && timeout 3000 $(MAKE) -k -j16 2>&1 | tail -40

kernel:
	-tools/kernel_build.sh /repo /dev/shm/tjverif.kwarm >/dev/null && rm -rf /dev/shm/tjverif.kwarm

# hygiene gate: no Admitted/admit/Axiom/Parameter/Conjecture/guard switches anywhere in the development
gate:
	@! grep -rnE '\b(Admitted|admit|Axiom|Parameter|Conjecture|Admit Obligations)\b|Unset Guard|bypass_check|type-in-type|impredicative-set' coq --include='*.v' | grep -v '^coq/[^:]*:[0-9]*: *(\*' || (echo "GATE FAILED" && false)
	@python3 tools/gate_sections.py coq || (echo "GATE FAILED: Variable/Hypothesis outside a section" && false)

clean:
	cd coq && [ -f Makefile ] && $(MAKE) clean || true
	rm -rf .cache

# independent re-check of every compiled property file (and everything it depends on) with coqchk; lists the axioms the whole
# development relies on.  Takes 10-30 minutes; the summary is kept in coqchk_report.txt.
coqchk:
	cd coq && timeout 7200 coqchk -silent -o -Q . TJ $$(ls Props/*.v | sed 's#Props/\(.*\)\.v#TJ.Props.\1#') > ../coqchk_full.log 2>&1; echo "coqchk exit status: $$?" >> ../coqchk_full.log
	( echo "coqchk -o over all TJ.Props.* modules ($$(date -u +%FT%TZ), Coq $$(coqc --version | head -1))"; grep -n "exit status" coqchk_full.log; sed -n '/CONTEXT SUMMARY/,$$p' coqchk_full.log ) > coqchk_report.txt
