# /verif -- build the whole framework offline from files on disk.
SHELL := /bin/bash
.PHONY: setup coq regen kernel clean gate

setup: regen coq kernel gate

regen:
	@mkdir -p coq/Gen
	-/venv/bin/python tools/regen_all.py /repo coq

coq:
	cd coq && coq_makefile -f _CoqProject -o Makefile >/dev/null
	cd coq && timeout 3000 $(MAKE) -k -j16 2>&1 | tail -40

kernel:
	-tools/kernel_build.sh /repo /dev/shm/tjverif.kwarm >/dev/null && rm -rf /dev/shm/tjverif.kwarm

# hygiene gate: no Admitted/admit/Axiom/Parameter/Conjecture/guard switches anywhere in the development
gate:
	@! grep -rnE '\b(Admitted|admit|Axiom|Parameter|Conjecture|Admit Obligations)\b|Unset Guard|bypass_check|type-in-type|impredicative-set' coq --include='*.v' | grep -v '^coq/[^:]*:[0-9]*: *(\*' || (echo "GATE FAILED" && false)

clean:
	cd coq && [ -f Makefile ] && $(MAKE) clean || true
	rm -rf .cache
