(* C19 -- time-sampling diagnostics of thejoker/samples_analysis.py over exact rationals.  No proofs here. *)
From Coq Require Import QArith Qround ZArith List Bool Arith.
From TJ Require Import Base.Corr Base.XQ Base.ArgMax.
Import ListNotations.
Open Scope Q_scope.

Definition qfrac (q : Q) : Q := q - inject_Z (Qfloor q).
(* RVData.phase: ((t - t_ref) / P) % 1 *)
(* Qred: phases are kept as reduced fractions, so equal phases are identical terms *)
Definition phase (tref P t : Q) : Q := Qred (qfrac ((t - tref) / P)).

Fixpoint qinsert (x : Q) (l : list Q) : list Q :=
  match l with
  | [] => [x]
  | h :: r => if Qle_bool x h then x :: l else h :: qinsert x r
  end.
Definition qsort (l : list Q) : list Q := fold_right qinsert [] l.

Fixpoint diffs (l : list Q) : list Q :=
  match l with
  | a :: ((b :: _) as r) => (b - a) :: diffs r
  | _ => []
  end.
Definition qmax (a b : Q) : Q := if Qle_bool a b then b else a.
Definition qmaxl (d : Q) (l : list Q) : Q := fold_right qmax d l.
Definition qsum (l : list Q) : Q := fold_right Qplus 0 l.

(* the empty arcs between consecutive observations on the phase circle: consecutive differences of
   the sorted phases, closed by the arc from the last phase across 1 -> 0 to the first *)
Definition gaps (sorted_ph : list Q) : list Q :=
  match sorted_ph with
  | [] => []
  | p0 :: _ => diffs (sorted_ph ++ [p0 + 1])
  end.
Definition max_phase_gap (tref P : Q) (ts : list Q) : Q :=
  qmaxl 0 (gaps (qsort (map (phase tref P) ts))).

(* phase_coverage: fraction of the n_bins equal phase bins [k/n, (k+1)/n) that hold an observation *)
Definition in_bin (n : nat) (k : nat) (p : Q) : bool :=
  Qle_bool (inject_Z (Z.of_nat k) / inject_Z (Z.of_nat n)) p &&
  negb (Qle_bool (inject_Z (Z.of_nat (S k)) / inject_Z (Z.of_nat n)) p).
Definition occupied (n : nat) (ph : list Q) : nat :=
  length (filter (fun k => existsb (in_bin n k) ph) (seq 0 n)).
Definition phase_coverage (tref P : Q) (n_bins : nat) (ts : list Q) : Q :=
  inject_Z (Z.of_nat (occupied n_bins (map (phase tref P) ts))) / inject_Z (Z.of_nat n_bins).

Definition qminl (d : Q) (l : list Q) : Q := fold_right (fun a b => if Qle_bool a b then a else b) d l.
Definition periods_spanned (P : Q) (ts : list Q) : Q :=
  match ts with
  | [] => 0
  | t0 :: _ => (qmaxl t0 ts - qminl t0 ts) / P
  end.

(* MAP_sample: index of the first maximum of ln_prior + ln_likelihood (numpy argmax; -inf entries allowed) *)
Definition map_index (lnprior lnlike : list XQ) : nat :=
  gargmax xq_leb (map (fun p => xq_add (fst p) (snd p)) (combine lnprior lnlike)).
