(* C10 -- model of how the samplers use the numpy Generator they are given: a parent stream read in
   consecutive segments, and per-task child generators spawned from the parent's seed sequence
   (multiproc_helpers.run_worker).  No proofs here. *)
From Coq Require Import List Arith Bool.
Import ListNotations.

Record gen := mk_gen { pos : nat; spawned : nat }.          (* parent stream position, children spawned so far *)
Inductive call := CDraw (n : nat) | CSpawn (k : nat).       (* uniform/choice of n values | spawn k children *)

(* positions of the parent stream consumed, child keys handed out *)
Definition do_call (c : call) (g : gen) : gen * list nat * list nat :=
  match c with
  | CDraw n => (mk_gen (pos g + n) (spawned g), seq (pos g) n, [])
  | CSpawn k => (mk_gen (pos g) (spawned g + k), [], seq (spawned g) k)
  end.
Fixpoint run_calls (cs : list call) (g : gen) : gen * list nat * list nat :=
  match cs with
  | [] => (g, [], [])
  | c :: r => let '(g1, d1, k1) := do_call c g in
              let '(g2, d2, k2) := run_calls r g1 in (g2, d1 ++ d2, k1 ++ k2)
  end.
Definition keys_of (cs : list call) (g : gen) : list nat := snd (run_calls cs g).
Definition draws_of (cs : list call) (g : gen) : list nat := snd (fst (run_calls cs g)).

(* observation: the recorded call log of the implementation with the spawn keys numpy handed out (last component
   of each child's spawn_key) and the key each child Generator was actually built from *)
Fixpoint nl_eqb (a b : list nat) : bool :=
  match a, b with [], [] => true | x :: a', y :: b' => Nat.eqb x y && nl_eqb a' b' | _, _ => false end.
Definition rng_check (c : list call * list nat * list nat) : bool :=
  let '(cs, observed_keys, used_keys) := c in
  nl_eqb (keys_of cs (mk_gen 0 0)) observed_keys && nl_eqb observed_keys used_keys.
