(* C12 -- model of the sample-file store (JokerSamples.write / read, samples_helpers.write_table_hdf5,
   utils.read_batch functions) at the level of tables (the HDF5/FITS byte encodings are trusted).  No proofs here. *)
From Coq Require Import QArith ZArith List Bool Arith.
From TJ Require Import Base.XQ Base.Corr Model.RVData.
Import ListNotations.

(* a column header: (name id, unit id); a table: header, metadata (t_ref, poly_trend, n_offsets), rows *)
Definition header := list (nat * nat).
Record meta := mk_meta { m_tref : option XQ; m_poly : nat; m_noff : nat }.
Record tbl := mk_tbl { t_hdr : header; t_meta : meta; t_rows : list (list XQ) }.
Definition store := option tbl.       (* None = no file *)

Definition hdr_eqb (a b : header) : bool :=
  Corr.list_eqb (fun x y => Nat.eqb (fst x) (fst y) && Nat.eqb (snd x) (snd y)) a b.
Definition meta_eqb (a b : meta) : bool :=
  Corr.option_eqb x_ideqb (m_tref a) (m_tref b) && Nat.eqb (m_poly a) (m_poly b) && Nat.eqb (m_noff a) (m_noff b).
Definition row_eqb (a b : list XQ) : bool := Corr.list_eqb x_ideqb a b.
Definition tbl_eqb (a b : tbl) : bool :=
  hdr_eqb (t_hdr a) (t_hdr b) && meta_eqb (t_meta a) (t_meta b) && Corr.list_eqb row_eqb (t_rows a) (t_rows b).

Inductive wres := WOk | WExists | WIncompatible.
Definition wres_eqb (a b : wres) : bool :=
  match a, b with WOk, WOk | WExists, WExists | WIncompatible, WIncompatible => true | _, _ => false end.

(* JokerSamples.write(file, overwrite, append).  With both flags the existing table is replaced (astropy's documented meaning of
   append=True, overwrite=True: only the table, not the file, is overwritten -- and a samples file holds this one table) *)
Definition write (ow app : bool) (t : tbl) (s : store) : store * wres :=
  match s with
  | None => (Some t, WOk)
  | Some old =>
      if app && ow then (Some t, WOk)
      else if app then
        if hdr_eqb (t_hdr old) (t_hdr t) && meta_eqb (t_meta old) (t_meta t)
        then (Some (mk_tbl (t_hdr old) (t_meta old) (t_rows old ++ t_rows t)), WOk)
        else (s, WIncompatible)                       (* refused, file untouched *)
      else if ow then (Some t, WOk)
      else (s, WExists)
  end.

Definition read (s : store) : option tbl := s.

(* ---- read_batch ---- *)
(* rows lo, lo+step, ... < hi  (hi clamped to the table length) *)
Fixpoint slice_idx (fuel lo hi step : nat) : list nat :=
  match fuel with
  | O => []
  | S f => if Nat.ltb lo hi then lo :: slice_idx f (lo + step) hi step else []
  end.
Definition pick_cols (hdr : header) (cols : list nat) (row : list XQ) : list XQ :=
  map (fun c => match find (fun p => Nat.eqb (fst (fst p)) c) (combine hdr row) with
                | Some (_, v) => v
                | None => XNaN
                end) cols.
Definition rows_at (t : tbl) (cols : list nat) (idx : list nat) : list (list XQ) :=
  map (fun i => pick_cols (t_hdr t) cols (nth i (t_rows t) [])) idx.
Definition read_slice (t : tbl) (cols : list nat) (lo hi step : nat) : list (list XQ) :=
  rows_at t cols (slice_idx (length (t_rows t)) lo (Nat.min hi (length (t_rows t))) step).
Definition read_idx (t : tbl) (cols : list nat) (idx : list nat) : list (list XQ) := rows_at t cols idx.

(* unit conversion: each requested column is multiplied by the factor unit_file -> unit_requested
   (a float, computed by astropy: trusted); compared to the implementation with tolerance *)
Definition xq_scale (f : Q) (x : XQ) : XQ := match x with XFin q => XFin (q * f) | y => y end.
Definition convert_row (factors : list Q) (row : list XQ) : list XQ :=
  map (fun p => xq_scale (fst p) (snd p)) (combine factors row).
Definition x_approx (tol : Q) (a b : XQ) : bool :=
  match a, b with
  | XFin p, XFin q => Corr.approx_eqQ tol p q
  | _, _ => x_ideqb a b
  end.
Definition rows_approx (tol : Q) (a b : list (list XQ)) : bool :=
  Corr.list_eqb (Corr.list_eqb (x_approx tol)) a b.

(* ---- op sequences for the correspondence ---- *)
Inductive op :=
| OWrite (ow app : bool) (t : tbl) (observed : wres)
| ORead (observed : option tbl)
| OSlice (cols : list nat) (lo hi step : nat) (factors : list Q) (observed : list (list XQ))
| OIdx (cols : list nat) (idx : list nat) (factors : list Q) (observed : list (list XQ)).

Definition step (s : store) (o : op) : store * bool :=
  match o with
  | OWrite ow app t obs => let '(s', r) := write ow app t s in (s', wres_eqb r obs)
  | ORead obs => (s, Corr.option_eqb tbl_eqb (read s) obs)
  | OSlice cols lo hi stp fs obs =>
      (s, match s with None => false
          | Some t => rows_approx (1 # 100000000000000) (map (convert_row fs) (read_slice t cols lo hi stp)) obs end)
  | OIdx cols idx fs obs =>
      (s, match s with None => false
          | Some t => rows_approx (1 # 100000000000000) (map (convert_row fs) (read_idx t cols idx)) obs end)
  end.
Fixpoint run_ops (s : store) (ops : list op) : bool :=
  match ops with
  | [] => true
  | o :: r => let '(s', ok) := step s o in ok && run_ops s' r
  end.
