(* The numpy / PyTables vocabulary of utils.read_batch_slice / read_batch_idx, as list functions over Model/Store.v.
   Gen/ReadBatchGen.v (tools/py2v_readbatch.py) is written over these; Proofs/ReadBatchGenProofs.v relates it to the row model. *)
From Coq Require Import QArith List Arith.
From TJ Require Import Base.XQ Model.Store.
Import ListNotations.

(* one cell: column label c of row number i (XNaN when the file has no such column / row, as pick_cols) *)
Definition cell (t : tbl) (c i : nat) : XQ :=
  match find (fun p => Nat.eqb (fst (fst p)) c) (combine (t_hdr t) (nth i (t_rows t) [])) with
  | Some (_, v) => v
  | None => XNaN
  end.
(* f.root[path].read(start, stop, step, field=name): that column of rows start, start+step, .. < min(stop, n_rows) *)
Definition tb_read (t : tbl) (lo hi step c : nat) : list XQ :=
  map (cell t c) (slice_idx (length (t_rows t)) lo (Nat.min hi (length (t_rows t))) step).
(* f.root[path].read_coordinates(idx, field=name): that column of the rows idx, in the order of idx *)
Definition tb_read_coordinates (t : tbl) (idx : list nat) (c : nat) : list XQ := map (cell t c) idx.
(* batch = np.zeros((n, len(columns))); batch[:, i] = column_i for every i: the n rows of the matrix with those columns *)
Definition np_from_columns (n : nat) (cols : list (list XQ)) : list (list XQ) :=
  map (fun k => map (fun col => nth k col XNaN) cols) (seq 0 n).
(* for i, name in enumerate(columns): if name in units: batch[:, i] *= factor_i   (factor 1 for a column not converted) *)
Definition np_scale_columns (factors : list Q) (cols : list (list XQ)) : list (list XQ) :=
  map (fun fc => map (xq_scale (fst fc)) (snd fc)) (combine factors cols).
