(* C05 -- execution paths of a likelihood evaluation over a library of prior samples.
   eval : the kernel's value for one row (a function of the row alone: every per-sample quantity is recomputed before use);
   a batched run maps eval over each task's rows and concatenates the results in task order
   (multiproc_helpers.run_worker / marginal_ln_likelihood_helper).  No proofs here. *)
From Coq Require Import ZArith List Bool.
From TJ Require Import Base.Imp Gen.BatchTasksGen Model.BatchSpec.
Import ListNotations. Open Scope Z_scope.

Definition run_batches {A B} (eval : A -> B) (rows : list A) (ts : list task) : list B :=
  concat (map (fun t => map eval (task_rows rows t)) ts).

(* the library evaluated through the file path with the batch list that batch_tasks produces *)
Definition run_file_path {A B} (eval : A -> B) (rows : list A) (n_batches : Z) : list B :=
  run_batches eval rows (batch_tasks_gen (Z.of_nat (length rows)) n_batches 0 true).
(* rows selected by an explicit index array (the accepted samples), batched *)
Definition run_idx_path {A B} (eval : A -> B) (idx : list A) (n_batches : Z) : list B :=
  run_batches eval idx (batch_tasks_gen (Z.of_nat (length idx)) n_batches 0 false).

(* certificate for one observed run: the values a batched path returned are the per-row values in input order *)
Definition check_path (vals : list Z) (n_batches : Z) (observed : list Z) : bool :=
  BatchSpec.list_eqb Z.eqb (run_file_path (fun x => x) vals n_batches) observed.
