(* C08 -- multi-survey data: data_helpers.validate_prepare_data + likelihood_helpers.get_constant_term_design_matrix.
   No proofs here.  Survey keys are natural numbers ordered as numpy.unique orders them
   (list input: 0,1,2,...; dict input: the harness passes the rank-preserving key numbers). *)
From Coq Require Import QArith ZArith List Bool Arith.
From TJ Require Import Base.XQ Base.Corr Model.RVData.
Import ListNotations.

Record lobs := mklobs { l_obs : obs; l_id : nat }.      (* an observation labelled with its survey *)
Definition lobs_eqb (a b : lobs) : bool := obs_eqb (l_obs a) (l_obs b) && Nat.eqb (l_id a) (l_id b).
Definition lobs_d : lobs := mklobs obs_d O.

(* sources in the order the caller's dict/list yields them *)
Definition tag_source (s : nat * list obs) : list lobs := map (fun o => mklobs o (fst s)) (snd s).
Definition concat_sources (srcs : list (nat * list obs)) : list lobs := concat (map tag_source srcs).

(* the model of the merge: concatenate, then ONE stable sort on time applied to rows and labels alike *)
Fixpoint linsert (o : lobs) (l : list lobs) : list lobs :=
  match l with
  | [] => [o]
  | h :: r => if xq_leb (o_t (l_obs o)) (o_t (l_obs h)) then o :: l else h :: linsert o r
  end.
Definition lsort (l : list lobs) : list lobs := fold_right linsert [] l.
Definition merge (srcs : list (nat * list obs)) : list lobs := lsort (concat_sources srcs).

(* numpy.unique of the labels: ascending, no repeats *)
Fixpoint ninsert (x : nat) (l : list nat) : list nat :=
  match l with
  | [] => [x]
  | h :: r => if Nat.ltb x h then x :: l else if Nat.eqb x h then l else h :: ninsert x r
  end.
Definition unique_ids (ids : list nat) : list nat := fold_right ninsert [] ids.

(* constant part of the design matrix: column 0 all ones, column j>=1 the indicator of the j-th smallest key *)
Definition const_row (uniq : list nat) (id : nat) : list Q :=
  1%Q :: map (fun u => if Nat.eqb id u then 1%Q else 0%Q) (tl uniq).
Definition const_matrix (ids : list nat) : list (list Q) :=
  let uniq := unique_ids ids in map (const_row uniq) ids.

(* validate_prepare_data's arity check *)
Definition offsets_ok (srcs : list (nat * list obs)) (n_offsets : nat) : bool :=
  Nat.eqb (length (unique_ids (map l_id (concat_sources srcs))) - 1) n_offsets.

(* ---- certificate: what the implementation returned, with the witness permutation pi ---- *)
Definition q_row_eqb (a b : list Q) : bool := Corr.list_eqb q_ideqb a b.
Fixpoint sorted_l (l : list lobs) : bool :=
  match l with
  | [] => true
  | a :: r => match r with [] => true | b :: _ => xq_leb (o_t (l_obs a)) (o_t (l_obs b)) && sorted_l r end
  end.
(* out: merged rows with the label the implementation holds for each row; cm: constant part of trend_M *)
Definition merge_check (srcs : list (nat * list obs)) (pi : list nat) (out : list lobs) (cm : list (list Q)) : bool :=
  let input := concat_sources srcs in
  enumerates pi (seq 0 (length input)) &&
  Corr.list_eqb lobs_eqb (gather lobs_d pi input) out &&
  sorted_l out &&
  Corr.list_eqb q_row_eqb (const_matrix (map l_id out)) cm.

(* ---- the code AS IT IS on the pinned tree (known finding D5): rows are time-sorted by RVData but
   the label array stays in concatenation order.  Kept as a faithful model so that the
   correspondence still holds on the unchanged tree and the defect is a theorem (Props/C08.v,
   C08_pinned_code_refuted), not an alarm. ---- *)
Definition code_check (srcs : list (nat * list obs)) (pi : list nat) (out : list lobs) (cm : list (list Q)) : bool :=
  let input := concat_sources srcs in
  enumerates pi (seq 0 (length input)) &&
  Corr.list_eqb obs_eqb (gather obs_d pi (map l_obs input)) (map l_obs out) &&
  sorted_l out &&
  Corr.list_eqb Nat.eqb (map l_id out) (map l_id input) &&
  Corr.list_eqb q_row_eqb (const_matrix (map l_id input)) cm.
Definition merge_code (srcs : list (nat * list obs)) : list lobs :=
  let input := concat_sources srcs in
  map (fun p => mklobs (fst p) (snd p)) (combine (sort_t (map l_obs input)) (map l_id input)).
