(* C01 / C03 / C04 / C05 / C07 -- running the GENERATED kernel model (Gen/KernelPyx.v) on exact inputs, next
   to a hand-written SPECIFICATION of what the kernel must compute (the analytic Gaussian marginal and
   the conditional posterior).  No proofs here.

   case -> helper_init (slotting of prior means/variances with the generated slot functions, unit factors)
        -> marginal_one / test_worker_one of the generated model at F := sr (lazy exact reals)
        -> (ll as a symbolic real, chi2, pivots of B, a, Ainv, ...)
   spec -> B = diag(1/ivar + s^2) + M Lambda M^T, chi2 = r^T B^-1 r, det B, Ainv = Lambda^-1 + M^T W M, a. *)
From Coq Require Import Reals QArith ZArith List Bool Arith.
From TJ Require Import Base.Imp Base.Corr Base.RealEnc Base.Fops Base.QMat Base.SymReal Gen.KernelPyx.
Import ListNotations.
Close Scope Z_scope. Open Scope Q_scope.

Record prior_par := mk_pp { pp_mu : Q; pp_std : Q; pp_factor : Q }.    (* raw mean, raw std, unit factor to the data RV unit *)

Record kcase := mk_kcase {
  kc_n_poly : nat; kc_n_offsets : nat;
  kc_t0 : Q;
  kc_rv : list Q; kc_ivar : list Q;                 (* as held by the helper: data.rv.value, data.ivar in 1/unit^2 *)
  kc_trend : list (list Q);                          (* trend_M: n_times rows x (n_linear-1) columns *)
  kc_fixedK : bool;                                  (* custom Normal K prior (true) / default FixedCompanionMass (false) *)
  kc_lin : list prior_par;                           (* K, v0, v1, ... in prior._linear_equiv_units order *)
  kc_off : list prior_par;                           (* dv0_1, dv0_2, ... *)
  kc_sigma_K0 : Q * Q;                               (* raw value, factor to data unit *)
  kc_P0 : Q * Q * Q;                                 (* raw value, factor to the prior's P unit, factor to days *)
  kc_max_K : Q * Q;
  kc_theta : list Q;                                 (* P [day], e, omega, M0 [rad], s [data unit] *)
  kc_kepler : list Q                                 (* rv of a K=1 orbit at each epoch, convention M = 2 pi (t - t_ref)/P - M0 *)
}.

Definition n_times (c : kcase) : nat := length (kc_rv c).
Definition n_linear (c : kcase) : nat := 1 + kc_n_poly c + kc_n_offsets c.
Definition qsr (q : Q) : sr := sr_of q.

(* ---- CJokerHelper.__init__: mu / Lambda slots (generated slot functions), scalars ---- *)
Definition set_slot (a : list Q) (i : option Z) (v : Q) : list Q :=
  match i with
  | None => a
  | Some z => map (fun p => if Nat.eqb (fst p) (Z.to_nat z) then v else snd p) (combine (seq 0 (length a)) a)
  end.
Definition lin_names (n_poly : nat) : list lin_name := NK :: map Nv (seq 0 n_poly).
Definition helper_slots (c : kcase) : list Q * list Q :=
  let size := (n_linear c + kc_n_offsets c)%nat in
  let z0 := repeat 0%Q size in
  let noff := Z.of_nat (kc_n_offsets c) in
  let fk := if kc_fixedK c then 1%Z else 0%Z in
  (* offsets first *)
  let '(mu1, la1) := fold_left (fun ml ip =>
        let '(i, p) := ip in let sl := Some (offset_slot noff (Z.of_nat i)) in
        (set_slot (fst ml) sl (pp_mu p * pp_factor p), set_slot (snd ml) sl ((pp_std p * pp_factor p) * (pp_std p * pp_factor p))))
      (combine (seq 0 (length (kc_off c))) (kc_off c)) (z0, z0) in
  fold_left (fun ml inp =>
        let '(i, nm, p) := inp in
        let '(ms, ls, _) := linear_slot fk noff (Z.of_nat i) nm in
        (set_slot (fst ml) ms (pp_mu p * pp_factor p), set_slot (snd ml) ls ((pp_std p * pp_factor p) * (pp_std p * pp_factor p))))
      (combine (combine (seq 0 (length (kc_lin c))) (lin_names (kc_n_poly c))) (kc_lin c)) (mu1, la1).

Definition helper_P0 (c : kcase) : Q :=
  let '(v, f_prior, f_day) := kc_P0 c in if p0_in_kernel_period_unit then v * f_day else v * f_prior.

Definition init_state (c : kcase) : kst (F := sr) :=
  let z : sr := RC 0 1 in
  let zero1 : arr1 sr := fun _ => z in let zero2 : arr2 sr := fun _ _ => z in
  let '(mu, la) := helper_slots c in
  let MT : arr2 sr := fun i n => if Nat.eqb i 0 then z else qsr (nth (i - 1) (nth n (kc_trend c) []) 0) in
  @mk_kst sr zero2 zero2 zero2 zero2 zero2 zero2 MT zero1 zero1
         (of_list1 z (map qsr mu)) (of_list1 z (map qsr la)) (of_list1 z (map qsr (kc_ivar c))) zero1 (of_list1 z (map qsr (kc_rv c)))
         0%Z 0%Z 0%Z z z z z z z z z z z.

Definition kep_table (c : kcase) : kepler_table :=
  match kc_theta c with
  | [P; e; om; M0; _] => [([qsr P; RC 1 1; qsr e; qsr om; qsr M0; qsr (kc_t0 c)], map qsr (kc_kepler c))]
  | _ => []
  end.

Section Run.
  Variable c : kcase.
  Let fo := sr_fops.
  Let orc := sr_oracles (kep_table c).
  Let nt := Z.of_nat (n_times c).
  Let nl := Z.of_nat (n_linear c).
  Let fk := if kc_fixedK c then 1%Z else 0%Z.
  Let sK0 := qsr (fst (kc_sigma_K0 c) * snd (kc_sigma_K0 c)).
  Let P0 := qsr (helper_P0 c).
  Let mK := qsr (fst (kc_max_K c) * snd (kc_max_K c)).
  Let t0 := qsr (kc_t0 c).
  Let row : arr1 sr := of_list1 (RC 0 1) (map qsr (kc_theta c)).

  Definition run_marginal : kst (F := sr) * sr := k_marginal_one fo orc nt nl fk sK0 P0 mK t0 row (init_state c).
  Definition run_posterior : kst (F := sr) * sr := k_posterior_one fo orc nt nl fk sK0 P0 mK t0 row (init_state c).
  Definition run_test : kst (F := sr) * sr := k_test_worker_one fo orc nt nl fk sK0 P0 mK t0 row (init_state c).
End Run.

(* rational read-outs of a final state (None if something stayed symbolic) *)
Definition out_vec (n : nat) (a : arr1 sr) : option (list Q) := sr_all_q (tab1 n a).
Definition out_mat (n m : nat) (a : arr2 sr) : option qmat := sr_mat_q n m a.

(* ================= the specification ================= *)
(* design matrix in column order (K, v0, offsets, v1, ...): K column from the Kepler values, the rest from trend_M *)
Definition spec_M (c : kcase) : qmat := map (fun nr => nth (fst nr) (kc_kepler c) 0 :: snd nr) (combine (seq 0 (n_times c)) (kc_trend c)).
(* declared prior means and variances in the same column order; K variance by the declared rule *)
Definition spec_K_var (c : kcase) : option Q :=
  if kc_fixedK c then
    match kc_lin c with p :: _ => Some ((pp_std p * pp_factor p) * (pp_std p * pp_factor p)) | [] => None end
  else
    match kc_theta c with
    | [P; e; _; _; _] =>
        let '(v, _, f_day) := kc_P0 c in
        match sr_q (sr_pow_m23 (sr_of (P / (v * f_day)))) with
        | Some pw => let s0 := fst (kc_sigma_K0 c) * snd (kc_sigma_K0 c) in
                     let mk := fst (kc_max_K c) * snd (kc_max_K c) in
                     let var := s0 * s0 * pw / (1 - e * e) in
                     Some (if Qle_bool (mk * mk) var then mk * mk else var)
        | None => None
        end
    | _ => None
    end.
Definition spec_mu (c : kcase) : list Q :=
  match kc_lin c with
  | k :: v0 :: vs => (pp_mu k * pp_factor k) :: (pp_mu v0 * pp_factor v0) :: map (fun p => pp_mu p * pp_factor p) (kc_off c)
                     ++ map (fun p => pp_mu p * pp_factor p) vs
  | _ => []
  end.
Definition spec_Lambda (c : kcase) : option (list Q) :=
  match spec_K_var c, kc_lin c with
  | Some kv, _ :: v0 :: vs =>
      let sq p := (pp_std p * pp_factor p) * (pp_std p * pp_factor p) in
      Some (kv :: sq v0 :: map sq (kc_off c) ++ map sq vs)
  | _, _ => None
  end.
Definition spec_jitter (c : kcase) : Q := nth 4 (kc_theta c) 0.
(* C_s: variances with the jitter added *)
Definition spec_var (c : kcase) : list Q := map (fun w => 1 / w + spec_jitter c * spec_jitter c) (kc_ivar c).

Definition dotq (a b : list Q) : Q := fold_right (fun xy acc => Qred (acc + fst xy * snd xy)) 0 (combine a b).
Definition spec_B (c : kcase) (la : list Q) : qmat :=
  let M := spec_M c in let v := spec_var c in
  map (fun n => map (fun m => Qred ((if Nat.eqb n m then nth n v 0 else 0) +
                                    dotq (map (fun xl => fst xl * snd xl) (combine (nth n M []) la)) (nth m M []))) (seq 0 (n_times c))) (seq 0 (n_times c)).
Definition spec_resid (c : kcase) : list Q :=
  map (fun nr => Qred (dotq (snd nr) (spec_mu c) - nth (fst nr) (kc_rv c) 0)) (combine (seq 0 (n_times c)) (spec_M c)).
Definition qprod (l : list Q) : Q := fold_right (fun x acc => Qred (x * acc)) 1 l.

Record spec_out := mk_spec_out { so_chi2 : Q; so_absdet : Q; so_a : list Q; so_Ainv : qmat }.
Definition spec_run (c : kcase) : option spec_out :=
  match spec_Lambda c with
  | None => None
  | Some la =>
      let B := spec_B c la in
      let r := spec_resid c in
      match qsolve (n_times c) B r, qpivots (n_times c) B with
      | Some x, Some ps =>
          let M := spec_M c in let v := spec_var c in let k := n_linear c in
          let Ainv := map (fun i => map (fun j => Qred ((if Nat.eqb i j then 1 / nth i la 0 else 0) +
                        dotq (map (fun nr => nth i (snd nr) 0 / nth (fst nr) v 0) (combine (seq 0 (n_times c)) M)) (map (fun r => nth j r 0) M)))
                        (seq 0 k)) (seq 0 k) in
          let rhs := map (fun i => Qred (nth i (spec_mu c) 0 / nth i la 0 +
                        dotq (map (fun nr => nth i (snd nr) 0 / nth (fst nr) v 0) (combine (seq 0 (n_times c)) M)) (kc_rv c))) (seq 0 k) in
          match qsolve k Ainv rhs with
          | Some a => Some (mk_spec_out (dotq r x) (let d := qprod ps in if Qle_bool 0 d then d else - d) a Ainv)
          | None => None
          end
      | _, _ => None
      end
  end.
(* ln N(y | M mu, B) = -1/2 (chi2 + ln((2 pi)^n |det B|)) as a symbolic real *)
Definition spec_ll (c : kcase) (o : spec_out) : rexpr :=
  RMul (RC (-1) 2) (RAdd (RQ (so_chi2 o))
     (RAdd (RMul (RC (Z.of_nat (n_times c)) 1) (RLn (RMul (RC 2 1) RPi))) (RLn (RQ (so_absdet o))))).

(* ================= checks ================= *)
Definition qlist_approx (tol : Q) (m o : list Q) : bool := Corr.list_eqb (Corr.approx_eqQ tol) m o.
Definition qmat_approx (tol : Q) (m o : qmat) : bool := Corr.list_eqb (qlist_approx tol) m o.

(* observed: marginal ll (API), and after test_likelihood_worker the public buffers a, Ainv *)
Record kobs := mk_kobs { ko_ll : Q; ko_tol : Q; ko_a : list Q; ko_Ainv : qmat }.

(* (1) the generated model agrees with the binary (translator + binary tie) *)
Definition model_vs_impl (c : kcase) (o : kobs) : bool :=
  let '(_, ll) := run_marginal c in
  let '(st, _) := run_test c in
  rclose 60 (ko_tol o) ll (ko_ll o) &&
  match out_vec (n_linear c) (v_a st), out_mat (n_linear c) (n_linear c) (v_Ainv st) with
  | Some a, Some Ai => qlist_approx (1 # 10000000) a (ko_a o) && qmat_approx (1 # 10000000) Ai (ko_Ainv o)
  | _, _ => false
  end.
(* (2) the generated model computes the specification, exactly (the property, on this input):
   chi^2, |det B|, the matrix B and its inverse on the marginal path; a, Ainv, chi^2, |det B| on the posterior path *)
Definition q_eq_opt (a : option Q) (b : Q) : bool := match a with Some x => Qeq_bool x b | None => false end.
Definition absq (d : Q) : Q := if Qle_bool 0 d then d else - d.
Definition diag_absprod (n : nat) (m : arr2 sr) : option Q :=
  match sr_all_q (map (fun i => m i i) (seq 0 n)) with Some ps => Some (absq (qprod ps)) | None => None end.
Definition model_vs_spec (c : kcase) : bool :=
  match spec_run c, spec_Lambda c with
  | Some so, Some la =>
      let '(st, ll) := run_marginal c in
      let '(st2, ll2) := run_posterior c in
      let n := n_times c in let k := n_linear c in
      q_eq_opt (sr_q (l_chi2 st)) (so_chi2 so) && q_eq_opt (diag_absprod n (v_Btmp st)) (so_absdet so) &&
      match out_mat n n (v_B st), out_mat n n (v_Binv st) with
      | Some B, Some Bi => qmat_eqb B (spec_B c la) && is_inverse n (spec_B c la) Bi
      | _, _ => false
      end &&
      q_eq_opt (sr_q (l_chi2 st2)) (so_chi2 so) && q_eq_opt (diag_absprod n (v_Btmp st2)) (so_absdet so) &&
      match out_vec k (v_a st2), out_mat k k (v_Ainv st2) with
      | Some a, Some Ai => Corr.list_eqb Qeq_bool a (so_a so) && qmat_eqb Ai (so_Ainv so)
      | _, _ => false
      end &&
      rclose 80 (1 # 1000000000000) (RSub ll (spec_ll c so)) (0 # 1)
  | _, _ => false
  end.
