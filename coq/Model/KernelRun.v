(* C01 / C03 / C04 / C05 / C07 -- running the GENERATED kernel model (Gen/KernelPyx.v) on exact inputs, next
   to a hand-written SPECIFICATION of what the kernel must compute (the analytic Gaussian marginal and
   the conditional posterior).  No proofs here.

   case -> helper_init (slotting of prior means/variances with the generated slot functions, unit factors)
        -> marginal_one / test_worker_one of the generated model at F := sr (lazy exact reals)
        -> (ll as a symbolic real, chi2, pivots of B, a, Ainv, ...)
   spec -> B = diag(1/ivar + s^2) + M Lambda M^T, chi2 = r^T B^-1 r, det B, Ainv = Lambda^-1 + M^T W M, a. *)
From Coq Require Import Reals QArith ZArith List Bool Arith.
From Bignums Require Import BigQ.
From TJ Require Import Base.Imp Base.Corr Base.RealEnc Base.Fops Base.QMat Base.SymReal Gen.KernelPyx.
Import ListNotations.
Close Scope Z_scope. Open Scope Q_scope.

Record prior_par := mk_pp { pp_mu : Q; pp_std : Q; pp_factor : Q }.    (* raw mean, raw std, unit factor to the data RV unit *)

Record kcase := mk_kcase {
  kc_n_poly : nat; kc_n_offsets : nat;
  kc_t0 : Q;
  kc_rv : list Q; kc_ivar : list Q;                 (* as held by the helper: data.rv.value, data.ivar in 1/unit^2 *)
  kc_trend : list (list Q);                          (* trend_M: n_times rows x (n_linear-1) columns *)
  kc_fixedK : bool;                                  (* custom Normal K prior (true) / default FixedCompanionMass (false) *)
  kc_lin : list prior_par;                           (* K, v0, v1, ... in prior._linear_equiv_units order *)
  kc_off : list prior_par;                           (* dv0_1, dv0_2, ... *)
  kc_sigma_K0 : Q * Q;                               (* raw value, factor to data unit *)
  kc_P0 : Q * Q * Q;                                 (* raw value, factor to the prior's P unit, factor to days *)
  kc_max_K : Q * Q;
  kc_theta : list Q;                                 (* P [day], e, omega, M0 [rad], s [data unit] *)
  kc_kepler : list Q;                                (* rv of a K=1 orbit at each epoch, convention M = 2 pi (t - t_ref)/P - M0 *)
  kc_pow : list Q                                    (* candidate double(s) for (P/P0)^(-2/3); used only if certified (Base/SymReal.v) *)
}.

Definition n_times (c : kcase) : nat := length (kc_rv c).
Definition n_linear (c : kcase) : nat := 1 + kc_n_poly c + kc_n_offsets c.
Definition qsr (q : Q) : sr := sr_ofQ q.

(* ---- CJokerHelper.__init__: mu / Lambda slots (generated slot functions), scalars ---- *)
Definition set_slot (a : list Q) (i : option Z) (v : Q) : list Q :=
  match i with
  | None => a
  | Some z => map (fun p => if Nat.eqb (fst p) (Z.to_nat z) then v else snd p) (combine (seq 0 (length a)) a)
  end.
Definition lin_names (n_poly : nat) : list lin_name := NK :: map Nv (seq 0 n_poly).
Definition helper_slots (c : kcase) : list Q * list Q :=
  let size := (n_linear c + kc_n_offsets c)%nat in
  let z0 := repeat 0%Q size in
  let noff := Z.of_nat (kc_n_offsets c) in
  let fk := if kc_fixedK c then 1%Z else 0%Z in
  (* offsets first *)
  let '(mu1, la1) := fold_left (fun ml ip =>
        let '(i, p) := ip in let sl := Some (offset_slot noff (Z.of_nat i)) in
        (set_slot (fst ml) sl (pp_mu p * pp_factor p), set_slot (snd ml) sl ((pp_std p * pp_factor p) * (pp_std p * pp_factor p))))
      (combine (seq 0 (length (kc_off c))) (kc_off c)) (z0, z0) in
  fold_left (fun ml inp =>
        let '(i, nm, p) := inp in
        let '(ms, ls, _) := linear_slot fk noff (Z.of_nat i) nm in
        (set_slot (fst ml) ms (pp_mu p * pp_factor p), set_slot (snd ml) ls ((pp_std p * pp_factor p) * (pp_std p * pp_factor p))))
      (combine (combine (seq 0 (length (kc_lin c))) (lin_names (kc_n_poly c))) (kc_lin c)) (mu1, la1).

Definition helper_P0 (c : kcase) : Q :=
  let '(v, f_prior, f_day) := kc_P0 c in if p0_in_kernel_period_unit then v * f_day else v * f_prior.

(* The state a call starts from.  Every scratch cell (work matrices, b, a, s_ivar, the K row of M_T, the default prior's
   Lambda[0], all locals) is filled with JUNK rather than zeros: whatever an earlier call left there must not matter, so a
   cell that is read before it is written shows up as a disagreement with the specification. *)
Definition junk : sr := sr_ofQ (7 # 3).
Definition init_state (c : kcase) : kst (F := sr) :=
  let z : sr := srZ 0 in
  let junk1 : arr1 sr := fun _ => junk in let junk2 : arr2 sr := fun _ _ => junk in
  let '(mu, la) := helper_slots c in
  let MT : arr2 sr := fun i n => if Nat.eqb i 0 then junk else qsr (nth (i - 1) (nth n (kc_trend c) []) 0) in
  let La : arr1 sr := fun i => if Nat.eqb i 0 && negb (kc_fixedK c) then junk else of_list1 z (map qsr la) i in
  @mk_kst sr junk2 junk2 junk2 junk2 junk2 junk2 MT junk1 junk1
         (of_list1 z (map qsr mu)) La (of_list1 z (map qsr (kc_ivar c))) junk1 (of_list1 z (map qsr (kc_rv c)))
         7%Z 7%Z 7%Z junk junk junk junk junk junk junk junk junk junk.

Definition kep_table (c : kcase) : kepler_table :=
  match kc_theta c with
  | [P; e; om; M0; _] => [([qsr P; srZ 1; qsr e; qsr om; qsr M0; qsr (kc_t0 c)], map qsr (kc_kepler c))]
  | _ => []
  end.

Section Run.
  Variable c : kcase.
  Let fo := sr_fops (kc_pow c).
  Let orc := sr_oracles (kep_table c).
  Let nt := Z.of_nat (n_times c).
  Let nl := Z.of_nat (n_linear c).
  Let fk := if kc_fixedK c then 1%Z else 0%Z.
  Let sK0 := qsr (fst (kc_sigma_K0 c) * snd (kc_sigma_K0 c)).
  Let P0 := qsr (helper_P0 c).
  Let mK := qsr (fst (kc_max_K c) * snd (kc_max_K c)).
  Let t0 := qsr (kc_t0 c).
  Let row : arr1 sr := of_list1 (srZ 0) (map qsr (kc_theta c)).

  Definition run_marginal : kst (F := sr) * sr := k_marginal_one fo orc nt nl fk sK0 P0 mK t0 row (init_state c).
  Definition run_posterior : kst (F := sr) * sr := k_posterior_one fo orc nt nl fk sK0 P0 mK t0 row (init_state c).
  Definition run_test : kst (F := sr) * sr := k_test_worker_one fo orc nt nl fk sK0 P0 mK t0 row (init_state c).
End Run.

(* rational read-outs of a final state (None if something stayed symbolic) *)
Definition out_vec (n : nat) (a : arr1 sr) : option (list bq) := sr_all_q (tab1 n a).
Definition out_mat (n m : nat) (a : arr2 sr) : option qmat := sr_mat_q n m a.

(* ================= the specification ================= *)
(* everything below is exact bigQ arithmetic on the case's rational inputs *)
Definition B (q : Q) : bq := bofQ q.
Definition pp_m (p : prior_par) : bq := bmul (B (pp_mu p)) (B (pp_factor p)).
Definition pp_v (p : prior_par) : bq := let s := bmul (B (pp_std p)) (B (pp_factor p)) in bmul s s.
(* design matrix in column order (K, v0, offsets, v1, ...): K column from the Kepler values, the rest from trend_M *)
Definition spec_M (c : kcase) : qmat :=
  map (fun nr => B (nth (fst nr) (kc_kepler c) 0) :: map B (snd nr)) (combine (seq 0 (n_times c)) (kc_trend c)).
(* declared prior means and variances in the same column order; K variance by the declared rule
   Var K = min(sigma_K0^2 (P/P0)^(-2/3) / (1 - e^2), max_K^2), with P and P0 in days *)
Definition spec_K_var (c : kcase) : option bq :=
  if kc_fixedK c then
    match kc_lin c with p :: _ => Some (pp_v p) | [] => None end
  else
    match kc_theta c with
    | [P; e; _; _; _] =>
        let '(v, _, f_day) := kc_P0 c in
        match sr_q (sr_pow_m23 (kc_pow c) (sr_ofQ (P / (v * f_day)))) with
        | Some pw => let s0 := bmul (B (fst (kc_sigma_K0 c))) (B (snd (kc_sigma_K0 c))) in
                     let mk := bmul (B (fst (kc_max_K c))) (B (snd (kc_max_K c))) in
                     let var := bdiv (bmul (bmul s0 s0) pw) (bsub b1 (bmul (B e) (B e))) in
                     Some (if bleb (bmul mk mk) var then bmul mk mk else var)
        | None => None
        end
    | _ => None
    end.
Definition spec_cap_active (c : kcase) : bool :=
  if kc_fixedK c then false else
  match kc_theta c, spec_K_var c with
  | [P; e; _; _; _], Some v => let mk := bmul (B (fst (kc_max_K c))) (B (snd (kc_max_K c))) in beq v (bmul mk mk)
  | _, _ => false
  end.
Definition spec_mu (c : kcase) : list bq :=
  match kc_lin c with
  | k :: v0 :: vs => pp_m k :: pp_m v0 :: map pp_m (kc_off c) ++ map pp_m vs
  | _ => []
  end.
Definition spec_Lambda (c : kcase) : option (list bq) :=
  match spec_K_var c, kc_lin c with
  | Some kv, _ :: v0 :: vs => Some (kv :: pp_v v0 :: map pp_v (kc_off c) ++ map pp_v vs)
  | _, _ => None
  end.
Definition spec_jitter (c : kcase) : bq := B (nth 4 (kc_theta c) 0).
(* C_s: variances with the jitter added *)
Definition spec_var (c : kcase) : list bq := map (fun w => badd (bdiv b1 (B w)) (bmul (spec_jitter c) (spec_jitter c))) (kc_ivar c).
Definition spec_y (c : kcase) : list bq := map B (kc_rv c).

Definition scale_row (r la : list bq) : list bq := map (fun xl => bmul (fst xl) (snd xl)) (combine r la).
Definition spec_B (c : kcase) (la : list bq) : qmat :=
  let M := spec_M c in let v := spec_var c in
  map (fun n => map (fun m => badd (if Nat.eqb n m then nth n v b0 else b0) (dotq (scale_row (nth n M []) la) (nth m M [])))
                    (seq 0 (n_times c))) (seq 0 (n_times c)).
(* residual M mu - y *)
Definition spec_resid (c : kcase) : list bq :=
  map (fun ry => bsub (dotq (fst ry) (spec_mu c)) (snd ry)) (combine (spec_M c) (spec_y c)).
Definition absq (d : bq) : bq := babs d.

Record spec_out := mk_spec_out { so_chi2 : bq; so_absdet : bq; so_a : list bq; so_Ainv : qmat; so_A : qmat }.
Definition spec_run (c : kcase) : option spec_out :=
  match spec_Lambda c with
  | None => None
  | Some la =>
      let Bm := spec_B c la in
      let r := spec_resid c in
      match qsolve (n_times c) Bm r, qpivots (n_times c) Bm with
      | Some x, Some ps =>
          let M := spec_M c in let v := spec_var c in let k := n_linear c in
          let MW := map (fun rv => map (fun x => bdiv x (snd rv)) (fst rv)) (combine M v) in    (* rows of C_s^-1 M *)
          let Ainv := map (fun i => map (fun j => badd (if Nat.eqb i j then bdiv b1 (nth i la b0) else b0)
                                                       (dotq (qcol i MW) (qcol j M))) (seq 0 k)) (seq 0 k) in
          let rhs := map (fun i => badd (bdiv (nth i (spec_mu c) b0) (nth i la b0)) (dotq (qcol i MW) (spec_y c))) (seq 0 k) in
          match qsolve k Ainv rhs, qinv k Ainv with
          | Some a, Some A => Some (mk_spec_out (dotq r x) (absq (qprod ps)) a Ainv A)
          | _, _ => None
          end
      | _, _ => None
      end
  end.
(* ln N(y | M mu, B) = -1/2 (chi2 + ln((2 pi)^n |det B|)) as a closed real expression *)
Definition spec_ll (c : kcase) (o : spec_out) : rexpr :=
  RMul (RC (-1) 2) (RAdd (RQ (btoQ (so_chi2 o)))
     (RAdd (RMul (RC (Z.of_nat (n_times c)) 1) (RLn (RMul (RC 2 1) RPi))) (RLn (RQ (btoQ (so_absdet o)))))).

(* ================= checks ================= *)
Definition approx_b (tol : Q) (m : bq) (o : Q) : bool := Corr.approx_eqQ tol (btoQ m) o.
Definition blist_approx (tol : Q) (m : list bq) (o : list Q) : bool :=
  (fix go (m : list bq) (o : list Q) := match m, o with [], [] => true | x :: m', y :: o' => approx_b tol x y && go m' o' | _, _ => false end) m o.
Definition bmat_approx (tol : Q) (m : qmat) (o : list (list Q)) : bool :=
  (fix go (m : qmat) (o : list (list Q)) := match m, o with [], [] => true | x :: m', y :: o' => blist_approx tol x y && go m' o' | _, _ => false end) m o.

(* observed: marginal ll (API), and after test_likelihood_worker the public buffers a, Ainv *)
Record kobs := mk_kobs { ko_ll : Q; ko_tol : Q; ko_a : list Q; ko_Ainv : list (list Q) }.

Definition b_eq_opt (a : option bq) (b : bq) : bool := match a with Some x => beq x b | None => false end.
Definition diag_absprod (n : nat) (m : arr2 sr) : option bq :=
  match sr_all_q (map (fun i => m i i) (seq 0 n)) with Some ps => Some (absq (qprod ps)) | None => None end.
Definition blist_eqb (a b : list bq) : bool := qrow_eqb a b.

(* bit 0: the generated model agrees with the binary (translator + binary tie): ll (API), a and Ainv (public buffers)
   bit 1: the generated model computes the specification EXACTLY on this input: chi^2, |det B|, the matrix B and its
          inverse on the marginal path; a, Ainv, chi^2, |det B| on the posterior path; ll as a real number *)
Definition check_code (c : kcase) (o : kobs) : nat :=
  let '(st, ll) := run_marginal c in
  let '(st2, ll2) := run_posterior c in
  let '(st3, _) := run_test c in
  let n := n_times c in let k := n_linear c in
  let impl_ok :=
    rclose 60 (ko_tol o) (sr_rx ll) (ko_ll o) &&
    match out_vec k (v_a st3), out_mat k k (v_Ainv st3) with
    | Some a, Some Ai => blist_approx (1 # 10000000) a (ko_a o) && bmat_approx (1 # 10000000) Ai (ko_Ainv o)
    | _, _ => false
    end in
  let spec_ok :=
    match spec_run c, spec_Lambda c with
    | Some so, Some la =>
        b_eq_opt (sr_q (l_chi2 st)) (so_chi2 so) && b_eq_opt (diag_absprod n (v_Btmp st)) (so_absdet so) &&
        match out_mat n n (v_B st), out_mat n n (v_Binv st) with
        | Some Bm, Some Bi => qmat_eqb Bm (spec_B c la) && is_inverse n (spec_B c la) Bi
        | _, _ => false
        end &&
        b_eq_opt (sr_q (l_chi2 st2)) (so_chi2 so) && b_eq_opt (diag_absprod n (v_Btmp st2)) (so_absdet so) &&
        match out_vec k (v_a st2), out_mat k k (v_Ainv st2) with
        | Some a, Some Ai => blist_eqb a (so_a so) && qmat_eqb Ai (so_Ainv so)
        | _, _ => false
        end &&
        rclose 80 (1 # 1000000000000) (RSub (sr_rx ll) (spec_ll c so)) (0 # 1) &&
        rclose 80 (1 # 1000000000000) (RSub (sr_rx ll2) (spec_ll c so)) (0 # 1)
    | _, _ => false
    end in
  ((if impl_ok then 0 else 1) + (if spec_ok then 0 else 2))%nat.

(* ================= C03: the conditional posterior handed to the generator, and the row layout ================= *)
(* observed: the (mean, cov) arguments of rng.multivariate_normal on the posterior path *)
Record pobs := mk_pobs { po_mean : list Q; po_cov : list (list Q) }.
Definition sqb (x : bq) : bq := bmul x x.
(* deviations are measured in units of the posterior width: (m_i - a_i)^2 <= tol2 * A_ii, (cov_ij - A_ij)^2 <= tol2 * A_ii A_jj *)
Definition post_tol2 : bq := bofQ (1 # 100000000).
Definition mean_close (A : qmat) (a : list bq) (m : list Q) : bool :=
  forallb (fun i => bleb (sqb (bsub (B (nth i m 0)) (nth i a b0))) (bmul post_tol2 (nth i (nth i A []) b0))) (seq 0 (length a))
  && Nat.eqb (length a) (length m).
Definition cov_close (k : nat) (A : qmat) (cv : list (list Q)) : bool :=
  forallb (fun i => forallb (fun j =>
      bleb (sqb (bsub (B (nth j (nth i cv []) 0)) (nth j (nth i A []) b0)))
           (bmul post_tol2 (bmul (nth i (nth i A []) b0) (nth j (nth j A []) b0)))) (seq 0 k)) (seq 0 k)
  && Nat.eqb (length cv) k && forallb (fun r => Nat.eqb (length r) k) cv.
(* bit 0: mean handed to the generator = the model's a;  bit 1: covariance handed = inverse of the model's Ainv;
   bit 2: the model's (a, Ainv) on the posterior path are EXACTLY the specification's
          A^-1 = Lambda^-1 + M^T C_s^-1 M,  A^-1 a = Lambda^-1 mu + M^T C_s^-1 y  (same C_s, mu, Lambda, cap as the marginal) *)
Definition check_post (c : kcase) (o : pobs) : nat :=
  let '(st2, _) := run_posterior c in
  let k := n_linear c in
  match out_vec k (v_a st2), out_mat k k (v_Ainv st2) with
  | Some a, Some Ai =>
      match qinv k Ai with
      | Some A =>
          ((if mean_close A a (po_mean o) then 0 else 1) + (if cov_close k A (po_cov o) then 0 else 2) +
           (match spec_run c with
            | Some so => if blist_eqb a (so_a so) && qmat_eqb Ai (so_Ainv so) then 0 else 4
            | None => 4 end))%nat
      | None => 7%nat
      end
  | _, _ => 7%nat
  end.

(* row layout of batch_get_posterior_samples / unpack: sample n contributes n_linear_samples consecutive rows, each the
   nonlinear parameters followed by one draw, columns in design-matrix order *)
Definition layout_rows (thetas : list (list Q)) (draws : list (list (list Q))) : list (list Q) :=
  concat (map (fun td => map (fun d => fst td ++ d) (snd td)) (combine thetas draws)).
Definition qrows_eqb (x y : list (list Q)) : bool := Corr.list_eqb (Corr.list_eqb Qeq_bool) x y.
Definition check_layout (thetas : list (list Q)) (draws : list (list (list Q))) (out : list (list Q)) : bool :=
  qrows_eqb (layout_rows thetas draws) out.

(* ================= C04: one RV curve everywhere, Bayes identity ================= *)
From TJ Require Import Model.RVCurve.
(* observed for one sample row (posterior draw or hand-built): the linear parameters x in kernel units and design-matrix
   order, the implementation's marginal and unmarginalised log-likelihoods, the RV of the reconstructed orbit at the data
   epochs, each epoch's survey number (0 = reference) and dt = t - t_ref *)
Record bobs := mk_bobs { bo_x : list Q; bo_ll_marg : Q; bo_ll_unmarg : Q; bo_orbit_rv : list Q; bo_sid : list nat; bo_dt : list Q }.
Definition qsum (l : list bq) : bq := fold_right badd b0 l.
Definition zip3 {A B C} (a : list A) (b : list B) (c : list C) : list (A * B * C) := combine (combine a b) c.
Definition ln2pi_n (n : nat) : rexpr := RMul (RC (Z.of_nat n) 1) (RLn (RMul (RC 2 1) RPi)).
Definition rq (x : bq) : rexpr := RQ (btoQ x).
Definition tol_rel (t : Q) (o : Q) : Q := t * (if Qle_bool 1 (Corr.Qabs' o) then Corr.Qabs' o else 1).

(* bit 0: orbit RV (+ own survey offset) = design-matrix row . x at every epoch
   bit 1: ln_unmarginalized_likelihood = -1/2 sum[(y - M x)^2/(sigma^2+s^2) + ln(2 pi (sigma^2+s^2))]
   bit 2: Bayes identity with the implementation's two numbers: marg = unmarg + ln p(x | theta) - ln N(x | a, A)
   bit 3: the exact identities behind it hold for the model on this input (chi^2 and determinants, rational arithmetic)
   bit 4: trend_M rows are (1, survey indicators, dt, dt^2, ..) *)
Definition check_bayes (c : kcase) (o : bobs) : nat :=
  match spec_run c, spec_Lambda c with
  | Some so, Some la =>
      let n := n_times c in let k := n_linear c in
      let x := map B (bo_x o) in
      let M := spec_M c in let v := spec_var c in let y := spec_y c in let mu := spec_mu c in
      let Mx := map (fun r => dotq r x) M in
      let noff := kc_n_offsets c in
      let offs := firstn noff (skipn 2 (bo_x o)) in
      let q_lik := qsum (map (fun t => let '(yn, mn, vn) := t in bdiv (sqb (bsub yn mn)) vn) (zip3 y Mx v)) in
      let q_prior := qsum (map (fun t => let '(xi, mi, li) := t in bdiv (sqb (bsub xi mi)) li) (zip3 x mu la)) in
      let d := map (fun xa => bsub (fst xa) (snd xa)) (combine x (so_a so)) in
      let q_post := dotq d (map (fun r => dotq r d) (so_Ainv so)) in
      let detC := qprod v in let detL := qprod la in
      let detAinv := match qpivots k (so_Ainv so) with Some ps => babs (qprod ps) | None => b0 end in
      let orbit_ok :=
        forallb (fun t => let '(mn, sid, orb) := t in
                   approx_b (1 # 1000000000) (bsub mn (B (survey_offset offs sid))) orb) (zip3 Mx (bo_sid o) (bo_orbit_rv o))
        && Nat.eqb (length (bo_orbit_rv o)) n && Nat.eqb (length (bo_sid o)) n in
      let ll_lik := RMul (RC (-1) 2) (RAdd (rq q_lik) (RAdd (ln2pi_n n) (RLn (rq detC)))) in
      let unmarg_ok := rclose 70 (tol_rel (1 # 100000000) (bo_ll_unmarg o)) ll_lik (bo_ll_unmarg o) in
      (* marg - unmarg + 1/2 (q_prior + ln det L) - 1/2 (q_post - ln det Ainv)  =  0 *)
      let resid := RAdd (RSub (RQ (bo_ll_marg o)) (RQ (bo_ll_unmarg o)))
                        (RMul (RC 1 2) (RSub (RAdd (rq q_prior) (RLn (rq detL))) (RSub (rq q_post) (RLn (rq detAinv))))) in
      let bayes_ok := rclose 70 (tol_rel (1 # 1000000) (bo_ll_marg o)) resid (0 # 1) in
      let exact_ok := beq (badd q_lik q_prior) (badd q_post (so_chi2 so)) && beq (so_absdet so) (bmul (bmul detC detL) detAinv) in
      let trend_ok :=
        forallb (fun t => let '(row, sid, dt) := t in
                   Corr.list_eqb (Corr.approx_eqQ (1 # 1000000000000)) (trend_row noff (kc_n_poly c) sid dt) row)
                (zip3 (kc_trend c) (bo_sid o) (bo_dt o)) && Nat.eqb (length (bo_dt o)) n in
      ((if orbit_ok then 0 else 1) + (if unmarg_ok then 0 else 2) + (if bayes_ok then 0 else 4) + (if exact_ok then 0 else 8)
       + (if trend_ok then 0 else 16))%nat
  | _, _ => 31%nat
  end.

(* ================= C11: the pymc model assembled by setup_mcmc, evaluated at a parameter point ================= *)
(* observed at one point (theta = the case's nonlinear parameters, x = linear parameters in kernel units and design-matrix
   order): the model_rv deterministic, the ln_likelihood deterministic, and logp(all) - logp(free variables only) *)
Record mobs := mk_mobs { mo_x : list Q; mo_model_rv : list Q; mo_lnlike : Q; mo_data_term : Q }.
(* bit 0: model_rv = design-matrix row . x at every epoch (same phase, reference-epoch, offset and trend conventions)
   bit 1: the stored ln_likelihood diagnostic = sum ln N(y_n | rv_n, sigma_n^2 + s^2)
   bit 2: the observed variable's term of the model's log-density = that same Gaussian data term *)
Definition check_mcmc (c : kcase) (o : mobs) : nat :=
  let n := n_times c in
  let x := map B (mo_x o) in
  let M := spec_M c in let v := spec_var c in let y := spec_y c in
  let Mx := map (fun r => dotq r x) M in
  let q_lik := qsum (map (fun t => let '(yn, mn, vn) := t in bdiv (sqb (bsub yn mn)) vn) (zip3 y Mx v)) in
  let ll_lik := RMul (RC (-1) 2) (RAdd (rq q_lik) (RAdd (ln2pi_n n) (RLn (rq (qprod v))))) in
  let rv_ok := blist_approx (1 # 100000000) Mx (mo_model_rv o) in
  let like_ok := rclose 70 (tol_rel (1 # 100000000) (mo_lnlike o)) ll_lik (mo_lnlike o) in
  let data_ok := rclose 70 (tol_rel (1 # 10000000) (mo_data_term o)) ll_lik (mo_data_term o) in
  ((if rv_ok then 0 else 1) + (if like_ok then 0 else 2) + (if data_ok then 0 else 4))%nat.
