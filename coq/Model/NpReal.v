(* numpy's floating `%` with a positive modulus, over Coq's reals: the floored remainder x - floor(x / m) * m.
   Used by Gen/SamplesGen.v (tools/py2v_samples.py). *)
From Coq Require Import Reals Lra.
Open Scope R_scope.

Definition np_mod (x m : R) : R := x - IZR (Int_part (x / m)) * m.

Lemma np_mod_range x m : 0 < m -> 0 <= np_mod x m < m.
Proof.
  intros Hm. unfold np_mod. destruct (base_Int_part (x / m)) as [Hlo Hhi].
  assert (E : x = x / m * m) by (field; lra).
  split.
  - apply Rmult_le_compat_r with (r := m) in Hlo; [|lra]. lra.
  - assert (H : (x / m - IZR (Int_part (x / m))) * m < 1 * m) by (apply Rmult_lt_compat_r; lra). lra.
Qed.
Lemma np_mod_shift x m : exists n : Z, np_mod x m = x - IZR n * m.
Proof. exists (Int_part (x / m)). reflexivity. Qed.
