(* The numpy vocabulary of RVData.__init__ / ivar / __copy__ / __getitem__ (thejoker/data.py), as list functions over
   Model/RVData.v.  Gen/DataGen.v (tools/py2v_data.py) is written over these; Proofs/DataGenProofs.v relates it to the model. *)
From Coq Require Import QArith List Bool.
From TJ Require Import Base.XQ Model.RVData.
Import ListNotations.

(* a[idx] with a boolean mask idx *)
Fixpoint np_mask {A} (m : list bool) (l : list A) : list A :=
  match m, l with
  | b :: m', x :: l' => if b then x :: np_mask m' l' else np_mask m' l'
  | _, _ => []
  end.
Definition is_nan (x : XQ) : bool := match x with XNaN => true | _ => false end.
(* a.min(): NaN if any element is NaN, else the first smallest element; XNaN stands for "raises" on an empty array *)
Definition np_min (l : list XQ) : XQ :=
  match l with
  | [] => XNaN
  | x :: r => if existsb is_nan l then XNaN else fold_left (fun m y => if xq_gtb m y then y else m) r x
  end.
