(* C05 -- a pool of workers executing tasks under an arbitrary schedule.
   Every worker has PRIVATE state (its pickled copy of the helper with all scratch buffers; whatever it evaluated before) that each
   task it executes may change; a schedule says in which order tasks complete and on which worker.  pool.map collects the result
   of task i in slot i. *)
From Coq Require Import List Arith Lia Permutation.
Import ListNotations.

Section Sched.
Variables (W T R : Type).
Variable step : W -> T -> W * R.            (* one worker executes one task: its new private state, the task's result *)

Fixpoint upd {A} (l : list A) (i : nat) (x : A) : list A :=
  match l, i with
  | [], _ => []
  | _ :: r, O => x :: r
  | a :: r, S j => a :: upd r j x
  end.

Definition event := (nat * nat)%type.        (* (worker, task index) *)

Fixpoint run_sched (tasks : list T) (ws : list W) (slots : list (option R)) (sch : list event) : list W * list (option R) :=
  match sch with
  | [] => (ws, slots)
  | (w, i) :: rest =>
      match nth_error ws w, nth_error tasks i with
      | Some st, Some t => let '(st', r) := step st t in run_sched tasks (upd ws w st') (upd slots i (Some r)) rest
      | _, _ => run_sched tasks ws slots rest
      end
  end.

Definition pool_map (tasks : list T) (ws : list W) (sch : list event) : list (option R) :=
  snd (run_sched tasks ws (repeat None (length tasks)) sch).

(* every task completes exactly once, on an existing worker *)
Definition complete (n_tasks n_workers : nat) (sch : list event) : Prop :=
  Permutation (map snd sch) (seq 0 n_tasks) /\ Forall (fun e => fst e < n_workers) sch.
End Sched.
