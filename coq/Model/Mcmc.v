(* C11 -- the reading of TheJoker.setup_mcmc + _keplerian_orbit.KeplerianOrbit, over the reals.
   t_peri = P M0 / (2 pi);  orbit built from (period, ecc, omega, t_periastron):  n = 2 pi / P, an internal reference anomaly M0i
   (a function of e and omega), t0 = t_peri + M0i / n, tref = t_peri - t0;  mean anomaly at x = t - t_ref:  (x - t0 - tref) n;
   rv = K (cos w cos f - sin w sin f + e cos w) + trend, f the true anomaly at that mean anomaly.  No proofs here. *)
From Coq Require Import Reals.
Open Scope R_scope.

Definition mc_t_peri (P M0 : R) : R := P * M0 / (2 * PI).
Definition mc_n (P : R) : R := 2 * PI / P.
Definition mc_t0 (P M0 M0i : R) : R := mc_t_peri P M0 + M0i / mc_n P.
Definition mc_tref (P M0 M0i : R) : R := mc_t_peri P M0 - mc_t0 P M0 M0i.
Definition mc_mean_anomaly (P M0 M0i x : R) : R := (x - mc_t0 P M0 M0i - mc_tref P M0 M0i) * mc_n P.
(* the sampler's convention (kernel and twobody): M = 2 pi (t - t_ref) / P - M0 *)
Definition kernel_mean_anomaly (P M0 x : R) : R := 2 * PI * x / P - M0.

Section RV.
Variable true_anom : R -> R -> R.       (* f(M, e) *)
Definition mc_rv_kepler (P e om M0 M0i K x : R) : R :=
  let f := true_anom (mc_mean_anomaly P M0 M0i x) e in K * (cos om * cos f - sin om * sin f + e * cos om).
Definition kernel_rv_kepler (P e om M0 K x : R) : R :=
  let f := true_anom (kernel_mean_anomaly P M0 x) e in K * (cos (om + f) + e * cos om).
End RV.

(* the pieces of the log-density *)
Definition gauss_term (y rv var : R) : R := - (1 / 2) * ((y - rv) ^ 2 / var + ln (2 * PI * var)).
(* what is stored as ln_prior: the model's log-density minus the stored ln_likelihood *)
Definition stored_ln_prior (logp lnlike : R) : R := logp - lnlike.
