(* C18 -- model of the validation performed by JokerPrior.__init__, validate_prepare_data and
   TheJoker.__init__.  No proofs here. *)
From Coq Require Import List Bool Arith.
Import ListNotations.

(* parameter names as numbers: 0 P, 1 e, 2 omega, 3 M0, 4 s, 5 K, 10+i v_i, 100+i dv0_i *)
Definition nP := 0. Definition ne := 1. Definition nomega := 2. Definition nM0 := 3. Definition ns := 4. Definition nK := 5.
Definition nv (i : nat) := 10 + i. Definition ndv (i : nat) := 100 + i.

Inductive dim := DTime | DOne | DAngle | DVel | DVelPerTime (i : nat) | DOtherDim.
Definition dim_eqb (a b : dim) : bool :=
  match a, b with
  | DTime, DTime | DOne, DOne | DAngle, DAngle | DVel, DVel => true
  | DVelPerTime i, DVelPerTime j => Nat.eqb i j
  | DVel, DVelPerTime 0 | DVelPerTime 0, DVel => true
  | _, _ => false
  end.
Inductive kind := KNormal | KFixedCompanionMass | KOtherRandom | KNotRandom.
Definition normal_family (k : kind) : bool := match k with KNormal | KFixedCompanionMass => true | _ => false end.

Record decl := mk_decl { d_name : nat; d_has_unit : bool; d_dim : dim; d_kind : kind }.

Inductive verr := EMissing (n : nat) | ENoUnit (n : nat) | EBadUnit (n : nat) | ENotNormal (n : nat).
Inductive vres := VOk | VErr (e : verr).

Definition nonlinear_req : list (nat * dim) := [(nP, DTime); (ne, DOne); (nomega, DAngle); (nM0, DAngle); (ns, DVel)].
Definition linear_req (poly : nat) : list (nat * dim) := (nK, DVel) :: map (fun i => (nv i, DVelPerTime i)) (seq 0 poly).
Definition offset_req (noff : nat) : list (nat * dim) := map (fun i => (ndv i, DVel)) (seq 1 noff).
(* par_names: nonlinear, then linear, then offsets *)
Definition required (poly noff : nat) : list (nat * dim) := nonlinear_req ++ linear_req poly ++ offset_req noff.
Definition par_names (poly noff : nat) : list nat := map fst (required poly noff).

Definition lookup (decls : list decl) (n : nat) : option decl := find (fun d => Nat.eqb (d_name d) n) decls.

Definition check_presence (decls : list decl) (r : nat * dim) : option verr :=
  match lookup decls (fst r) with
  | None => Some (EMissing (fst r))
  | Some d => if negb (d_has_unit d) then Some (ENoUnit (fst r))
              else if negb (dim_eqb (d_dim d) (snd r)) then Some (EBadUnit (fst r)) else None
  end.
Definition check_normal (decls : list decl) (r : nat * dim) : option verr :=
  match lookup decls (fst r) with
  | None => None
  | Some d => if normal_family (d_kind d) then None else Some (ENotNormal (fst r))
  end.
Fixpoint first_err {A} (f : A -> option verr) (l : list A) : option verr :=
  match l with
  | [] => None
  | x :: r => match f x with Some e => Some e | None => first_err f r end
  end.

(* JokerPrior.__init__: presence/unit loop over par_names, then the Normal-only loop over linear + offsets *)
Definition validate_prior (decls : list decl) (poly noff : nat) : vres :=
  match first_err (check_presence decls) (required poly noff) with
  | Some e => VErr e
  | None => match first_err (check_normal decls) (linear_req poly ++ offset_req noff) with
            | Some e => VErr e
            | None => VOk
            end
  end.

(* ---- data ---- *)
Inductive src := SrcRV (has_cov : bool) | SrcOther.
Inductive derr := DNeedMultiple | DNotRVData | DCovUnsupported | DCountMismatch.
Inductive dres := DOk | DErr (e : derr).
Inductive data_in := Single (s : src) | Many (srcs : list src).

Fixpoint first_bad (srcs : list src) : option derr :=
  match srcs with
  | [] => None
  | SrcOther :: _ => Some DNotRVData
  | SrcRV true :: _ => Some DCovUnsupported
  | SrcRV false :: r => first_bad r
  end.
(* validate_prepare_data (sources non-empty, distinct labels) *)
Definition validate_data (d : data_in) (noff : nat) : dres :=
  match d with
  | Single (SrcRV c) => if negb (Nat.eqb noff 0) then DErr DNeedMultiple
                        else if c then DErr DCovUnsupported      (* passes validate_prepare_data, refused by the kernel helper (1-D ivar only) *)
                        else DOk
  | Single SrcOther => DErr DNotRVData
  | Many [] => DErr DCountMismatch                  (* nothing to concatenate: the code raises *)
  | Many srcs => match first_bad srcs with
                 | Some e => DErr e
                 | None => if Nat.eqb (length srcs - 1) noff then DOk else DErr DCountMismatch
                 end
  end.

(* ---- comparison with the implementation's observation: accepted, or rejected with (check class, name) ---- *)
Definition verr_eqb (a b : verr) : bool :=
  match a, b with
  | EMissing x, EMissing y | ENoUnit x, ENoUnit y | EBadUnit x, EBadUnit y | ENotNormal x, ENotNormal y => Nat.eqb x y
  | _, _ => false
  end.
(* 999 as the observed name = "the exception did not name the parameter" (only its class is compared) *)
Definition verr_matches (m o : verr) : bool :=
  match m, o with
  | EMissing x, EMissing y | ENoUnit x, ENoUnit y | EBadUnit x, EBadUnit y | ENotNormal x, ENotNormal y => Nat.eqb y 999 || Nat.eqb x y
  | _, _ => false
  end.
Definition vres_matches (m o : vres) : bool :=
  match m, o with VOk, VOk => true | VErr a, VErr b => verr_matches a b | _, _ => false end.
Definition derr_eqb (a b : derr) : bool :=
  match a, b with
  | DNeedMultiple, DNeedMultiple | DNotRVData, DNotRVData | DCovUnsupported, DCovUnsupported | DCountMismatch, DCountMismatch => true
  | _, _ => false
  end.
Definition dres_eqb (m o : dres) : bool :=
  match m, o with DOk, DOk => true | DErr a, DErr b => derr_eqb a b | _, _ => false end.
