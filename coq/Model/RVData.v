(* C15 -- model of thejoker.data.RVData: construction (mask, sort), copy, slicing.  No proofs here.
   Values are exact: every finite double enters as the reduced fraction it denotes, so value
   identity is Leibniz equality of (numerator, denominator). *)
From Coq Require Import QArith ZArith List Bool Arith.
From TJ Require Import Base.XQ Base.Corr.
Import ListNotations.

Definition q_ideqb (a b : Q) : bool := Z.eqb (Qnum a) (Qnum b) && Pos.eqb (Qden a) (Qden b).
Definition x_ideqb (x y : XQ) : bool :=
  match x, y with
  | XFin a, XFin b => q_ideqb a b
  | XNaN, XNaN | XPInf, XPInf | XNInf, XNInf => true
  | _, _ => false
  end.

Record obs := mkobs { o_t : XQ; o_rv : XQ; o_err : XQ }.
Definition obs_eqb (a b : obs) : bool :=
  x_ideqb (o_t a) (o_t b) && x_ideqb (o_rv a) (o_rv b) && x_ideqb (o_err a) (o_err b).
Definition obs_finite (o : obs) : bool := xfinite (o_t o) && xfinite (o_rv o) && xfinite (o_err o).
Definition obs_d : obs := mkobs XNaN XNaN XNaN.

(* ---- the model of __init__ (1-D errors): common mask, then common (stable) sort on time ---- *)
Fixpoint insert_t (o : obs) (l : list obs) : list obs :=
  match l with
  | [] => [o]
  | h :: r => if xq_leb (o_t o) (o_t h) then o :: l else h :: insert_t o r
  end.
Definition sort_t (l : list obs) : list obs := fold_right insert_t [] l.
Definition rvdata_init (clean : bool) (l : list obs) : list obs :=
  sort_t (if clean then filter obs_finite l else l).

Fixpoint sorted_t (l : list obs) : bool :=
  match l with
  | [] => true
  | a :: r => match r with [] => true | b :: _ => xq_leb (o_t a) (o_t b) && sorted_t r end
  end.

(* ---- specification with a witness permutation pi (what numpy's unstable argsort may return) ---- *)
Definition gather {A} (d : A) (pi : list nat) (l : list A) : list A := map (fun i => nth i l d) pi.

Fixpoint kept_from (k : nat) (fin : list bool) : list nat :=
  match fin with
  | [] => []
  | b :: r => if b then k :: kept_from (S k) r else kept_from (S k) r
  end.
Definition kept (fin : list bool) : list nat := kept_from 0 fin.

Fixpoint nodupb (l : list nat) : bool :=
  match l with [] => true | a :: r => negb (existsb (Nat.eqb a) r) && nodupb r end.
Definition inclb (l ks : list nat) : bool := forallb (fun a => existsb (Nat.eqb a) ks) l.
(* pi enumerates exactly the index set ks, each index once *)
Definition enumerates (pi ks : list nat) : bool :=
  nodupb pi && inclb pi ks && Nat.eqb (length pi) (length ks).

Definition fin_mask (clean : bool) (l : list obs) : list bool :=
  map (fun o => negb clean || obs_finite o) l.

(* the implementation's output [out] is the input gathered by pi, pi enumerates the kept rows, times ascend *)
Definition init_check (clean : bool) (input : list obs) (pi : list nat) (out : list obs) : bool :=
  enumerates pi (kept (fin_mask clean input)) &&
  Corr.list_eqb obs_eqb (gather obs_d pi input) out &&
  sorted_t out.

(* ---- full covariance: rows and columns permuted together ---- *)
Definition col_finite (cov : list (list XQ)) (j : nat) : bool :=
  forallb (fun row => xfinite (nth j row XNaN)) cov.
Definition fin_mask_cov (clean : bool) (t rv : list XQ) (cov : list (list XQ)) : list bool :=
  map (fun j => negb clean || (xfinite (nth j t XNaN) && xfinite (nth j rv XNaN) && col_finite cov j))
      (seq 0 (length t)).
Definition gather2 (pi : list nat) (cov : list (list XQ)) : list (list XQ) :=
  map (fun i => gather XNaN pi (nth i cov [])) pi.
Fixpoint sorted_x (l : list XQ) : bool :=
  match l with
  | [] => true
  | a :: r => match r with [] => true | b :: _ => xq_leb a b && sorted_x r end
  end.
Definition init_check_cov (clean : bool) (t rv : list XQ) (cov : list (list XQ)) (pi : list nat)
           (ot orv : list XQ) (ocov : list (list XQ)) : bool :=
  enumerates pi (kept (fin_mask_cov clean t rv cov)) &&
  Corr.list_eqb x_ideqb (gather XNaN pi t) ot &&
  Corr.list_eqb x_ideqb (gather XNaN pi rv) orv &&
  Corr.list_eqb (Corr.list_eqb x_ideqb) (gather2 pi cov) ocov &&
  sorted_x ot.

(* ---- reference epoch ---- *)
Inductive tref_arg := TrefDefault | TrefFalse | TrefGiven (q : Q).
(* what __init__ stores in _t_ref_bmjd; None = "no reference epoch" (t_ref attribute is None, offset 0) *)
Definition tref_of (a : tref_arg) (out_t : list XQ) : option XQ :=
  match a with
  | TrefFalse => None
  | TrefGiven q => Some (XFin q)
  | TrefDefault => match out_t with [] => Some XNaN | t0 :: _ => Some t0 end   (* earliest time: head of the sorted times *)
  end.
Definition x_close (tol : Q) (a b : XQ) : bool :=
  match a, b with
  | XFin p, XFin q => Qle_bool (Corr.Qabs' (p - q)) tol
  | _, _ => x_ideqb a b
  end.
Definition tref_check (tol : Q) (a : tref_arg) (out_t : list XQ) (observed : option XQ) : bool :=
  match tref_of a out_t, observed with
  | None, None => true
  | Some m, Some o => x_close tol m o
  | _, _ => false
  end.

(* ---- inverse variances ---- *)
Definition ivar_ok (tol : Q) (err ivar : XQ) : bool :=
  match err, ivar with
  | XFin e, XFin w => Corr.approx_eqQ tol 1 (w * e * e)
  | _, _ => true   (* non-finite errors (clean=false): nothing claimed *)
  end.
Definition ivar_check (tol : Q) (out : list obs) (ivar : list XQ) : bool :=
  Nat.eqb (length out) (length ivar) && forallb (fun p => ivar_ok tol (o_err (fst p)) (snd p)) (combine out ivar).

(* cov * ivar = I to tolerance (finite entries only) *)
Definition qget (m : list (list Q)) (i j : nat) : Q := nth j (nth i m []) 0.
Definition mat_mul_entry (a b : list (list Q)) (n i j : nat) : Q :=
  fold_right Qplus 0 (map (fun k => qget a i k * qget b k j) (seq 0 n)).
Definition inv_check (tol : Q) (a b : list (list Q)) : bool :=
  let n := length a in
  forallb (fun i => forallb (fun j =>
     Qle_bool (Corr.Qabs' (mat_mul_entry a b n i j - (if Nat.eqb i j then 1 else 0))) tol) (seq 0 n)) (seq 0 n).

(* ---- copy and slicing ---- *)
(* copy(): all the observations of the original, none dropped (a re-initialisation may reorder
   equal times: witness pi over the original's rows), and the same reference epoch *)
Definition copy_check (tol : Q) (orig : list obs) (orig_tref : option XQ) (pi : list nat) (cp : list obs) (cp_tref : option XQ) : bool :=
  init_check false orig pi cp && Nat.eqb (length cp) (length orig) &&
  match orig_tref, cp_tref with
  | None, None => true
  | Some a, Some b => x_close tol a b
  | _, _ => false
  end.
(* data[key] on covariance data (key a slice, boolean mask or index array selecting the rows sel, increasing): times and
   velocities of the selected rows, and the sub-matrix of the selected rows AND columns *)
Definition slice_check_cov (t rv : list XQ) (cov : list (list XQ)) (sel : list nat) (st srv : list XQ) (scov : list (list XQ)) : bool :=
  Corr.list_eqb x_ideqb (gather XNaN sel t) st && Corr.list_eqb x_ideqb (gather XNaN sel rv) srv &&
  Corr.list_eqb (Corr.list_eqb x_ideqb) (gather2 sel cov) scov.
(* data[sel]: exactly the selected rows of the original, paired as before, time-sorted *)
Definition slice_check (orig : list obs) (sel : list nat) (pi : list nat) (out : list obs) : bool :=
  enumerates pi sel && Corr.list_eqb obs_eqb (gather obs_d pi orig) out && sorted_t out.
