(* C02 / C06 -- model of the rejection step (likelihood_helpers.rejection_sample_inmem,
   multiproc_helpers.rejection_sample_helper): the rule, the three index spaces, the rows returned,
   the log-probability columns.  No proofs here.

   The acceptance test is  exp(ll_i - max ll) > u_i  on IEEE doubles.  Values enter as exact
   (extended) rationals; the transcendental comparison is made by a decision oracle
   [dec d u : option bool] (Some b = decided, None = too close to call); the instance used in the
   runs is [dec_exp] below, built on Base/RealEnc.v (certified interval arithmetic). *)
From Coq Require Import QArith ZArith List Bool Arith.
From TJ Require Import Base.XQ Base.Corr Base.RealEnc.
Import ListNotations.

Section Rule.
  Variable dec : Q -> Q -> option bool.

  (* numpy max of a non-empty array (NaN propagates) *)
  Definition xmaxl (l : list XQ) : XQ :=
    match l with [] => XNaN | x :: r => fold_left xq_max r x end.

  (* one IEEE acceptance test  exp(ll - m) > u  with 0 <= u < 1 *)
  Definition accept1 (m ll : XQ) (u : Q) : option bool :=
    match xq_sub ll m with
    | XFin d => dec d u
    | XNInf => Some false          (* exp(-inf) = 0 > u is false *)
    | XNaN => Some false           (* comparisons with NaN are false *)
    | XPInf => Some true           (* exp(+inf) = inf > u *)
    end.

  Fixpoint accept_from (k : nat) (m : XQ) (lls : list XQ) (us : list Q) : option (list nat) :=
    match lls, us with
    | ll :: lls', u :: us' =>
        match accept1 m ll u, accept_from (S k) m lls' us' with
        | Some true, Some r => Some (k :: r)
        | Some false, Some r => Some r
        | _, _ => None
        end
    | [], [] => Some []
    | _, _ => None                 (* one uniform draw per evaluated sample *)
    end.
  (* positions (in evaluation order) that pass the rejection step *)
  Definition accept_idx (lls : list XQ) (us : list Q) : option (list nat) :=
    accept_from 0 (xmaxl lls) lls us.

  (* good_samples_idx after truncation to max_posterior_samples *)
  Definition good_idx (lls : list XQ) (us : list Q) (maxpost : nat) : option (list nat) :=
    option_map (firstn maxpost) (accept_idx lls us).

  (* library row numbers of the accepted samples: through the shuffled order if there is one *)
  Definition full_idx (order : option (list nat)) (good : list nat) : list nat :=
    match order with
    | None => good
    | Some ord => map (fun g => nth g ord O) good
    end.

  (* which library rows are evaluated, in evaluation order *)
  Definition eval_rows (n_prior : nat) (order : option (list nat)) : list nat :=
    match order with
    | None => seq 0 n_prior
    | Some ord => ord
    end.
End Rule.

(* output rows: each accepted library row, n_linear consecutive copies, in evaluation order *)
Definition repeat_each {A} (n : nat) (l : list A) : list A := flat_map (fun x => repeat x n) l.
Definition out_rows (n_linear : nat) (full : list nat) : list nat := repeat_each n_linear full.

(* C06: the log-probability columns *)
Definition ln_like_col (n_linear : nat) (lls : list XQ) (good : list nat) : list XQ :=
  repeat_each n_linear (map (fun g => nth g lls XNaN) good).
Definition ln_prior_col (n_linear : nat) (lnprior_lib : list XQ) (full : list nat) : list XQ :=
  repeat_each n_linear (map (fun f => nth f lnprior_lib XNaN) full).

(* ---- the decision oracle used in the runs ----
   exact when d = 0 (exp(0.0) is exactly 1.0 in IEEE), otherwise decided with a relative margin of
   1e-9 so that the implementation's round-off (in ll - max and in exp) cannot flip it *)
Definition margin : Q := 1 # 1000000000.
Definition dec_exp (prec : positive) (d u : Q) : option bool :=
  if Qeq_bool d 0 then Some (negb (Qle_bool 1 u))
  else if rgt prec (RExp (RQ d)) (RQ (u * (1 + margin))) then Some true
  else if rlt prec (RExp (RQ d)) (RQ (u * (1 - margin))) then Some false
  else None.

(* ---- case record for the correspondence (one rejection_sample call) ---- *)
Record rs_case := mk_rs_case {
  rc_lls : list XQ;            (* marginal ln-likelihood of each evaluated sample, evaluation order *)
  rc_us : list Q;              (* the uniform draws observed through the recording Generator *)
  rc_order : option (list nat);(* the recorded choice() result when randomize_prior_order *)
  rc_n_prior : nat;            (* number of evaluated samples *)
  rc_maxpost : nat;            (* max_posterior_samples (len if None) *)
  rc_n_linear : nat;
  rc_lnprior_lib : list XQ;    (* ln_prior column of the library (by library row) *)
  rc_obs_rows : list nat;      (* library row of every returned row (recovered from its unique period) *)
  rc_obs_lnlike : option (list XQ);
  rc_obs_lnprior : option (list XQ)
}.

Definition xlist_eqb := Corr.list_eqb (fun a b : XQ => xq_eqb a b).
Definition nlist_eqb := Corr.list_eqb Nat.eqb.

(* Some true = agrees, Some false = disagrees, None = some decision too close to call (case skipped) *)
Definition rs_check (prec : positive) (c : rs_case) : option bool :=
  if negb (Nat.eqb (length (rc_lls c)) (rc_n_prior c) && Nat.eqb (length (rc_us c)) (rc_n_prior c) &&
           match rc_order c with None => true | Some o => Nat.eqb (length o) (rc_n_prior c) end)
  then Some false else
  match good_idx (dec_exp prec) (rc_lls c) (rc_us c) (rc_maxpost c) with
  | None => None
  | Some good =>
      let full := full_idx (rc_order c) good in
      Some (nlist_eqb (out_rows (rc_n_linear c) full) (rc_obs_rows c) &&
            match rc_obs_lnlike c with
            | None => true
            | Some col => xlist_eqb (ln_like_col (rc_n_linear c) (rc_lls c) good) col
            end &&
            match rc_obs_lnprior c with
            | None => true
            | Some col => xlist_eqb (ln_prior_col (rc_n_linear c) (rc_lnprior_lib c) full) col
            end)
  end.
