(* C04 -- the radial-velocity curve a sample row denotes, in its two readings.
     rv_kernel : what the sampler's design matrix computes: K * (unit Keplerian at the kernel's mean anomaly) + trend row . linear params,
                 the trend row being (1, survey indicators, dt, dt^2, ...) with dt = t - t_ref (get_trend_design_matrix)
     rv_orbit  : what samples.get_orbit reconstructs: KeplerOrbit(P, e, omega, M0, t0 := samples.t_ref) + PolynomialRVTrend((v0, v1, ..), t0)
   g is the unit-amplitude Keplerian RV as a function of (mean anomaly, e, omega); twopi stands for 2 pi.  No proofs here. *)
From Coq Require Import QArith List Arith.
Import ListNotations.
Open Scope Q_scope.

Fixpoint qpow (x : Q) (n : nat) : Q := match n with O => 1 | S m => x * qpow x m end.
Definition qdot (a b : list Q) : Q := fold_right (fun xy acc => fst xy * snd xy + acc) 0 (combine a b).
Definition powers_from (dt : Q) (s m : nat) : list Q := map (qpow dt) (seq s m).        (* dt^s, .., dt^(s+m-1) *)
Definition indicators (n_off sid : nat) : list Q := map (fun k => if Nat.eqb sid k then 1 else 0) (seq 1 n_off).
(* one row of trend_M for an observation of survey number sid (0 = reference survey) at dt days from the reference epoch *)
Definition trend_row (n_off poly sid : nat) (dt : Q) : list Q := 1 :: indicators n_off sid ++ powers_from dt 1 (poly - 1).
(* Horner: c0 + dt (c1 + dt (c2 + ...)) *)
Definition polyval (coeffs : list Q) (dt : Q) : Q := fold_right (fun c acc => c + dt * acc) 0 coeffs.

Section RV.
Variable g : Q -> Q -> Q -> Q.
Variable twopi : Q.
Definition mean_anom (P M0 t t0 : Q) : Q := twopi * (t - t0) / P - M0.
Definition rv_kernel (P e om M0 K v0 : Q) (offs vs : list Q) (poly sid : nat) (t t_ref : Q) : Q :=
  K * g (mean_anom P M0 t t_ref) e om + qdot (trend_row (length offs) poly sid (t - t_ref)) (v0 :: offs ++ vs).
Definition rv_orbit (P e om M0 K v0 : Q) (vs : list Q) (t t0 : Q) : Q :=
  K * g (mean_anom P M0 t t0) e om + polyval (v0 :: vs) (t - t0).
Definition survey_offset (offs : list Q) (sid : nat) : Q := match sid with O => 0 | S k => nth k offs 0 end.
End RV.
