(* C14 -- model of iterative rejection sampling (likelihood_helpers.iterative_rejection_inmem,
   multiproc_helpers.iterative_rejection_helper).  No proofs here.

   The adaptive batch-growth formula involves a float truncation and the property does not depend
   on it, so the sizes of the batches are INPUTS of the model (the harness reads them off the sizes
   of the successive uniform() calls); everything else -- budget, clamp, stop conditions, the rule
   against the maximum of everything evaluated so far with the last iteration's draws, truncation
   to the request, failure modes -- is the model's. *)
From Coq Require Import QArith ZArith List Bool Arith.
From TJ Require Import Base.XQ Base.Corr Base.RealEnc Model.Reject.
Import ListNotations.

Inductive it_error := ErrTooSmall | ErrNoGood | ErrNonFinite | ErrMaxIter | ErrBudget | ErrProtocol.
Inductive it_outcome :=
| ItOk (good : list nat) (evaluated : nat)      (* accepted evaluation positions (truncated to the request), number of rows evaluated *)
| ItRaise (e : it_error)
| ItUndecided.                                  (* some acceptance decision too close to call *)

Section Iter.
  Variable dec : Q -> Q -> option bool.
  Variable inmem : bool.              (* the in-memory path guards against non-finite likelihoods *)
  Variable prof : list XQ.            (* likelihood of the library rows in evaluation order (all_idx order) *)
  Variable n_req : nat.
  Variable budget : nat.              (* max_prior_samples (or the library size) *)
  (* the sampler's own estimate of the next batch size, int(safety_factor * n_need / n_good * n_evaluated), was not positive
     after the last recorded iteration: the loop then ends with what it has.  (Mathematically the estimate is >= 1; in
     floating point (1/n)*n < 1 for n = 49, 98, 103, ..: with every evaluated sample accepted and one sample missing the
     in-memory loop stops early.  The property allows fewer samples than requested when fewer passed.) *)
  Variable early_ok : bool.

  (* one loop iteration per (batch size, draws) pair; [c] = rows evaluated so far *)
  Fixpoint it_loop (fuel : nat) (c : nat) (steps : list (nat * list Q)) : it_outcome :=
    match fuel with
    | O => ItRaise ErrMaxIter
    | S fuel' =>
        match steps with
        | [] => ItRaise ErrProtocol          (* the loop ran an iteration the recording does not show *)
        | (size, us) :: rest =>
            let c' := (c + size)%nat in
            if Nat.ltb budget c' then ItRaise ErrBudget            (* evaluated more than the budget allows *)
            else
              let all := firstn c' prof in
              if inmem && negb (forallb xfinite all) then ItRaise ErrNonFinite
              else if Nat.eqb c' 0 then ItRaise ErrNoGood
              else if negb (Nat.eqb (length us) c') then ItRaise ErrProtocol   (* one uniform draw per sample evaluated so far *)
              else
              match accept_idx dec all us with
              | None => ItUndecided
              | Some [] => ItRaise ErrNoGood
              | Some good =>
                  if Nat.leb n_req (length good) then
                    match rest with [] => ItOk (firstn n_req good) c' | _ => ItRaise ErrProtocol end   (* enough: must stop here *)
                  else if Nat.leb budget c' then
                    match rest with [] => ItOk (firstn n_req good) c' | _ => ItRaise ErrProtocol end   (* budget exhausted: stop with fewer *)
                  else
                    match rest with
                    | [] => if early_ok then ItOk (firstn n_req good) c'   (* the code's next-batch estimate was not positive *)
                            else ItRaise ErrProtocol                   (* stopped although samples were missing and budget was left *)
                    | (size', _) :: _ => if Nat.eqb size' 0 then ItRaise ErrProtocol else it_loop fuel' c' rest
                    end
              end
        end
    end.

  (* the whole call: size check first *)
  Definition it_run (maxiter first_batch : nat) (steps : list (nat * list Q)) : it_outcome :=
    if Nat.ltb budget first_batch then ItRaise ErrTooSmall
    else match steps with
         | (size, _) :: _ => if Nat.eqb size (Nat.min first_batch budget) then it_loop maxiter 0 steps else ItRaise ErrProtocol
         | [] => ItRaise ErrProtocol
         end.
End Iter.

(* ---- case record for the correspondence ---- *)
Inductive it_obs :=
| ObsRows (rows : list nat) (lnlike lnprior : option (list XQ))   (* a JokerSamples came back: library row of each returned row *)
| ObsRaised (e : it_error)
| ObsNonResult.                                                     (* the call RETURNED something that is not a JokerSamples *)

Record it_case := mk_it_case {
  ic_inmem : bool;
  ic_prof : list XQ;                  (* likelihoods in evaluation order *)
  ic_order : option (list nat);       (* recorded choice() when randomize_prior_order *)
  ic_n_req : nat;
  ic_budget : nat;
  ic_first : nat;                     (* init_batch_size or growth_factor * n_requested *)
  ic_maxiter : nat;
  ic_early_ok : bool;                 (* the code's estimate of the next batch size after the last iteration was <= 0 *)
  ic_n_linear : nat;
  ic_lnprior_lib : list XQ;
  ic_steps : list (nat * list Q);     (* per iteration: batch size, uniform draws *)
  ic_obs : it_obs
}.

Definition err_eqb (a b : it_error) : bool :=
  match a, b with
  | ErrTooSmall, ErrTooSmall | ErrNoGood, ErrNoGood | ErrNonFinite, ErrNonFinite
  | ErrMaxIter, ErrMaxIter | ErrBudget, ErrBudget | ErrProtocol, ErrProtocol => true
  | _, _ => false
  end.

Definition it_check (prec : positive) (c : it_case) : option bool :=
  match it_run (dec_exp prec) (ic_inmem c) (ic_prof c) (ic_n_req c) (ic_budget c) (ic_early_ok c) (ic_maxiter c) (ic_first c) (ic_steps c), ic_obs c with
  | ItUndecided, _ => None
  | ItOk good _, ObsRows rows ll lp =>
      let full := full_idx (ic_order c) good in
      Some (nlist_eqb (out_rows (ic_n_linear c) full) rows &&
            match ll with None => true | Some col => xlist_eqb (ln_like_col (ic_n_linear c) (ic_prof c) good) col end &&
            match lp with None => true | Some col => xlist_eqb (ln_prior_col (ic_n_linear c) (ic_lnprior_lib c) full) col end)
  | ItRaise e, ObsRaised e' => Some (err_eqb e e')
  | _, _ => Some false
  end.
