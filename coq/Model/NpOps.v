(* The numpy idioms the rejection code is written in, as list combinators; tools/py2v_reject.py emits Gen/RejectSites.v over these.
   No proofs here. *)
From Coq Require Import QArith List.
From TJ Require Import Base.XQ Model.Reject.
Import ListNotations.

(* np.where(np.exp(L - L.max()) > uu)[0]: positions, in order, where the IEEE comparison holds (None: a decision too close to call) *)
Definition np_where_level_gt (dec : Q -> Q -> option bool) (lls : list XQ) (us : list Q) : option (list nat) := accept_idx dec lls us.
(* X[:bound] *)
Definition np_prefix (bound : nat) (x : option (list nat)) : option (list nat) := option_map (firstn bound) x.
(* ORDER[X] *)
Definition np_through (order : list nat) (x : list nat) : list nat := map (fun g => nth g order O) x.
(* if randomize_prior_order: idx[X] else: X *)
Definition np_cond_through (order : option (list nat)) (x : list nat) : list nat :=
  match order with Some o => np_through o x | None => x end.
(* V[X] *)
Definition np_take (v : list XQ) (x : list nat) : list XQ := map (fun g => nth g v XNaN) x.
(* np.repeat(V, n) *)
Definition np_repeat {A} (n : nat) (v : list A) : list A := flat_map (fun a => repeat a n) v.
