(* C09 -- the densities thejoker defines or configures, over the reals, each with an executable encoding (Base/RealEnc.v
   expressions over rational inputs) whose value is the real definition BY CONSTRUCTION (lemmas *_rx_val, proved by
   unfolding), so that a certified-interval comparison of the encoding with a number the implementation produced is a
   statement about the real-valued definition.  No property proofs here. *)
From Coq Require Import Reals QArith Qreals List Bool.
From TJ Require Import Base.RealEnc.
Import ListNotations.
Open Scope R_scope.

(* ---- log-uniform on [a, b] (distributions.UniformLog) ---- *)
Definition ul_norm (a b : R) : R := ln b - ln a.
Definition ul_draw (a b u : R) : R := exp (u * ul_norm a b + ln a).          (* rng_fn: inverse-CDF transform of u ~ U[0,1) *)
Definition ul_cdf (a b x : R) : R := (ln x - ln a) / ul_norm a b.
Definition ul_pdf (a b x : R) : R := / (x * ul_norm a b).
Definition ul_logp_in (a b x : R) : R := - ln x - ln (ul_norm a b).           (* log-density inside the support *)
(* the full log-density: None stands for minus infinity *)
Definition ul_logp (a b x : R) (inside : bool) : option R := if inside then Some (ul_logp_in a b x) else None.

(* ---- K | P, e  (distributions.FixedCompanionMass): Normal(mu, sigma(P, e)) ---- *)
Definition fcm_x (sK0 P0 P e : R) : R := sK0 * Rpower (P / P0) (- (1 / 3)) / sqrt (1 - e * e).
Definition fcm_sigma (sK0 P0 maxK P e : R) : R := Rmin (Rmax (fcm_x sK0 P0 P e) 0) maxK.
(* what the likelihood kernel marginalises against *)
Definition kernel_K_var (sK0 P0 maxK P e : R) : R := Rmin (sK0 * sK0 * Rpower (P / P0) (- (2 / 3)) / (1 - e * e)) (maxK * maxK).

Definition normal_logp (mu sigma x : R) : R := - (1 / 2) * ((x - mu) / sigma) ^ 2 - ln sigma - (1 / 2) * ln (2 * PI).
(* Beta(alpha, beta) log-density up to its normaliser *)
Definition beta_logkernel (al be x : R) : R := (al - 1) * ln x + (be - 1) * ln (1 - x).

(* a user-supplied prior on the jitter or on an angle (the `s=<variable>` / pars={'omega': ..} options): the factors the
   ln_prior column has to include besides the defaults *)
Inductive xterm := XLogNormal (mu sigma : Q) | XNormal (mu sigma : Q).
Definition xterm_logp (t : xterm) (x : R) : R :=
  match t with
  | XLogNormal mu sg => normal_logp (Q2R mu) (Q2R sg) (ln x) - ln x      (* pm.Lognormal: Normal in ln x, Jacobian 1/x *)
  | XNormal mu sg => normal_logp (Q2R mu) (Q2R sg) x                      (* pm.Normal / TruncatedNormal up to its normaliser *)
  end.

(* Kipping (2013) eccentricity priors as documented *)
Definition kipping_global : Q * Q := (867 # 1000, 303 # 100)%Q.
Definition kipping_short : Q * Q := (697 # 1000, 327 # 100)%Q.
Definition kipping_long : Q * Q := (112 # 100, 309 # 100)%Q.

(* ================= executable encodings ================= *)
Definition ul_norm_rx (a b : Q) : rexpr := RSub (RLn (RQ b)) (RLn (RQ a)).
Definition ul_draw_rx (a b u : Q) : rexpr := RExp (RAdd (RMul (RQ u) (ul_norm_rx a b)) (RLn (RQ a))).
Definition ul_logp_rx (a b x : Q) : rexpr := RSub (RNeg (RLn (RQ x))) (RLn (ul_norm_rx a b)).
Definition ul_cdf_rx (a b x : Q) : rexpr := RDiv (RSub (RLn (RQ x)) (RLn (RQ a))) (ul_norm_rx a b).
Definition rpow_rx (x : rexpr) (p : Q) : rexpr := RExp (RMul (RQ p) (RLn x)).           (* Rpower x p = exp (p ln x) *)
Definition fcm_x_rx (sK0 P0 P e : Q) : rexpr :=
  RDiv (RMul (RQ sK0) (rpow_rx (RDiv (RQ P) (RQ P0)) (- (1 # 3))%Q)) (RSqrt (RSub (RC 1 1) (RMul (RQ e) (RQ e)))).
(* clip(x, 0, maxK) decided by certified comparisons; None when a comparison cannot be decided at this precision *)
Definition fcm_sigma_rx (sK0 P0 maxK P e : Q) : option rexpr :=
  let x := fcm_x_rx sK0 P0 P e in
  if rgt 60 x (RC 0 1) then (if rlt 60 x (RQ maxK) then Some x else if rgt 60 x (RQ maxK) then Some (RQ maxK) else None) else None.
Definition normal_logp_rx (mu sigma x : rexpr) : rexpr :=
  RSub (RSub (RMul (RC (-1) 2) (RMul (RDiv (RSub x mu) sigma) (RDiv (RSub x mu) sigma))) (RLn sigma))
       (RMul (RC 1 2) (RLn (RMul (RC 2 1) RPi))).
Definition beta_logkernel_rx (al be x : Q) : rexpr :=
  RAdd (RMul (RQ (al - 1)%Q) (RLn (RQ x))) (RMul (RQ (be - 1)%Q) (RLn (RSub (RC 1 1) (RQ x)))).

Definition xterm_rx (t : xterm) (x : Q) : rexpr :=
  match t with
  | XLogNormal mu sg => RSub (normal_logp_rx (RQ mu) (RQ sg) (RLn (RQ x))) (RLn (RQ x))
  | XNormal mu sg => normal_logp_rx (RQ mu) (RQ sg) (RQ x)
  end.

(* ---- one row of prior.sample(..., return_logprobs=True): the joint log-density up to a constant ---- *)
Record prior_cfg := mk_pcfg {
  pc_a : Q; pc_b : Q;                       (* period prior bounds, in the prior's period unit *)
  pc_ecc : Q * Q;                           (* Beta parameters of the eccentricity prior *)
  pc_sK0 : Q; pc_P0 : Q; pc_maxK : Q;       (* K prior (P0 in the prior's period unit) *)
  pc_v : list (Q * Q);                      (* (mu, sigma) of v0, v1, .. *)
  pc_x : list xterm                         (* user-supplied priors on s / omega / M0 (empty for the defaults: constant factors) *)
}.
Record prior_row := mk_prow { pr_P : Q; pr_e : Q; pr_K : Q; pr_v : list Q; pr_x : list Q (* values of the pc_x parameters *) }.
Definition sum_rx (l : list rexpr) : rexpr := fold_right RAdd (RC 0 1) l.
Definition row_logdens_rx (c : prior_cfg) (linear : bool) (r : prior_row) : option rexpr :=
  let nl := RAdd (RAdd (ul_logp_rx (pc_a c) (pc_b c) (pr_P r)) (beta_logkernel_rx (fst (pc_ecc c)) (snd (pc_ecc c)) (pr_e r)))
                 (sum_rx (map (fun tx => xterm_rx (fst tx) (snd tx)) (combine (pc_x c) (pr_x r)))) in
  if linear then
    match fcm_sigma_rx (pc_sK0 c) (pc_P0 c) (pc_maxK c) (pr_P r) (pr_e r) with
    | Some sg =>
        Some (RAdd nl (RAdd (normal_logp_rx (RC 0 1) sg (RQ (pr_K r)))
                            (sum_rx (map (fun vx => normal_logp_rx (RQ (fst (fst vx))) (RQ (snd (fst vx))) (RQ (snd vx)))
                                         (combine (pc_v c) (pr_v r))))))
    | None => None
    end
  else Some nl.
(* certificate: ln_prior differences between rows equal log-density differences (a common additive constant is allowed) *)
Definition row_diff_ok (c : prior_cfg) (linear : bool) (r0 r1 : prior_row) (lp0 lp1 tol : Q) : bool :=
  match row_logdens_rx c linear r0, row_logdens_rx c linear r1 with
  | Some d0, Some d1 => rclose 60 tol (RSub d1 d0) (lp1 - lp0)%Q
  | _, _ => false
  end.

(* ================= certificates on numbers the implementation produced ================= *)
From TJ Require Import Base.XQ.
(* pm.logp(UniformLog(a, b), x): the log of the normalised density inside [a, b], minus infinity outside *)
Definition ul_logp_obs_ok (a b x : Q) (obs : XQ) (tol : Q) : bool :=
  if Qle_bool a x && Qle_bool x b
  then match obs with XFin o => rclose 60 tol (ul_logp_rx a b x) o | _ => false end
  else match obs with XNInf => true | _ => false end.
(* rng_fn with the uniform variate u: the inverse-CDF value, inside [a, b) *)
Definition ul_draw_obs_ok (a b u obs tol : Q) : bool :=
  rclose 60 tol (ul_draw_rx a b u) obs && Qle_bool (a - tol) obs && Qle_bool obs (b + tol).
(* the sigma parameter of K's Normal at given (P, e) *)
Definition fcm_sigma_obs_ok (sK0 P0 maxK P e obs tol : Q) : bool :=
  match fcm_sigma_rx sK0 P0 maxK P e with Some sg => rclose 60 tol sg obs | None => false end.
(* ... and its square is the variance the kernel uses: min(sK0^2 (P/P0)^(-2/3) / (1 - e^2), maxK^2) *)
Definition kernel_K_var_rx (sK0 P0 maxK P e : Q) : option rexpr :=
  let v := RDiv (RMul (RMul (RQ sK0) (RQ sK0)) (rpow_rx (RDiv (RQ P) (RQ P0)) (- (2 # 3))%Q)) (RSub (RC 1 1) (RMul (RQ e) (RQ e))) in
  let m := RMul (RQ maxK) (RQ maxK) in
  if rlt 60 v m then Some v else if rgt 60 v m then Some m else None.
Definition fcm_var_matches_kernel (sK0 P0 maxK P e : Q) : bool :=
  match fcm_sigma_rx sK0 P0 maxK P e, kernel_K_var_rx sK0 P0 maxK P e with
  | Some sg, Some kv => rclose 60 (1 # 1000000000) (RSub (RDiv (RMul sg sg) kv) (RC 1 1)) (0 # 1)
  | _, _ => false
  end.
(* pm.logp of the K prior at (K; P, e) *)
Definition fcm_logp_obs_ok (sK0 P0 maxK P e K obs tol : Q) : bool :=
  match fcm_sigma_rx sK0 P0 maxK P e with Some sg => rclose 60 tol (normal_logp_rx (RC 0 1) sg (RQ K)) obs | None => false end.
