(* C13 -- command language and semantics for the control-flow skeleton of utils.tempfile_decorator
   (the skeleton itself is generated from the source: Gen/TempfileSkel.v).  No proofs here.

   File-system state: number of temporary cache files present, whether the user's file is intact.
   Faults: the k-th *faultable* step (writing the cache, the wrapped call -- which stands for
   reading batches, the pool, the workers, unpacking: all read-only) raises.  Creating/closing/
   unlinking the temporary file are OS steps assumed not to fail. *)
From Coq Require Import List Bool Arith.
Import ListNotations.

Inductive cmd :=
| Skip
| Seq (a b : cmd)
| IfObj (obj_branch str_branch : cmd)   (* prior samples passed as an object and not in_memory / as a file name (or in_memory) *)
| TypeCheck                             (* raise TypeError unless the object is a JokerSamples *)
| Create | Close                        (* f = NamedTemporaryFile(delete=False) ; f.close() *)
| Write                                 (* prior_samples.write(f.name, overwrite=True) *)
| UseTemp | UseUser                     (* which file the wrapped function is pointed at *)
| Call                                  (* func( *args, **kwargs ): the wrapped, read-only body *)
| Unlink                                (* os.unlink(f.name) *)
| TryFinally (body fin : cmd)
| Reraise (body : cmd)                  (* try: body except Exception as e: raise e *)
| Return.

Inductive input := InStr | InObj | InBadType.       (* file name (or in_memory) / JokerSamples object / some other object *)
Inductive target := TNone | TTemp | TUser.
Inductive exn := ETypeError | EFault (k : nat) | EMissingFile.
Inductive outcome := Normal | Returned | Raised (e : exn).

Record fs := mk_fs {
  temps : nat;            (* temporary cache files present on disk *)
  tmp_written : bool;     (* the cache holds the samples *)
  user_intact : bool;     (* the user's file is byte-for-byte what it was *)
  tgt : target;
  tick : nat              (* faultable steps executed so far *)
}.
Definition fs0 : fs := mk_fs 0 false true TNone 0.

Definition faults (fault : option nat) (s : fs) : bool :=
  match fault with Some k => Nat.eqb k (tick s) | None => false end.
Definition bump (s : fs) : fs := mk_fs (temps s) (tmp_written s) (user_intact s) (tgt s) (S (tick s)).

Fixpoint exec (c : cmd) (inp : input) (fault : option nat) (s : fs) : fs * outcome :=
  match c with
  | Skip => (s, Normal)
  | Seq a b => match exec a inp fault s with
               | (s', Normal) => exec b inp fault s'
               | r => r
               end
  | IfObj a b => match inp with InStr => exec b inp fault s | _ => exec a inp fault s end
  | TypeCheck => match inp with InBadType => (s, Raised ETypeError) | _ => (s, Normal) end
  | Create => (mk_fs (S (temps s)) false (user_intact s) (tgt s) (tick s), Normal)
  | Close => (s, Normal)
  | Write => if faults fault s then (bump s, Raised (EFault (tick s)))
             else (mk_fs (temps s) true (user_intact s) (tgt s) (S (tick s)), Normal)
  | UseTemp => (mk_fs (temps s) (tmp_written s) (user_intact s) TTemp (tick s), Normal)
  | UseUser => (mk_fs (temps s) (tmp_written s) (user_intact s) TUser (tick s), Normal)
  | Call => if faults fault s then (bump s, Raised (EFault (tick s)))
            else match tgt s with
                 | TTemp => if Nat.ltb 0 (temps s) && tmp_written s then (bump s, Normal) else (bump s, Raised EMissingFile)
                 | TUser => (bump s, Normal)
                 | TNone => (bump s, Raised EMissingFile)
                 end
  | Unlink => (mk_fs (Nat.pred (temps s)) false (user_intact s) (tgt s) (tick s), Normal)
  | TryFinally body fin =>
      match exec body inp fault s with
      | (s', o) => match exec fin inp fault s' with
                   | (s'', Normal) => (s'', o)          (* finally completes: the body's outcome stands *)
                   | r => r                              (* finally itself raised/returned: that wins *)
                   end
      end
  | Reraise body => exec body inp fault s                (* `except Exception as e: raise e` re-raises the same exception *)
  | Return => (s, Returned)
  end.

Definition run (c : cmd) (inp : input) (fault : option nat) : fs * outcome := exec c inp fault fs0.

(* what a user observes after the call *)
Definition no_leak (r : fs * outcome) : bool := Nat.eqb (temps (fst r)) 0.
Definition user_ok (r : fs * outcome) : bool := user_intact (fst r).
Definition ticks (r : fs * outcome) : nat := tick (fst r).
Definition outcome_eqb (a b : outcome) : bool :=
  match a, b with
  | Normal, Normal | Returned, Returned => true
  | Raised ETypeError, Raised ETypeError | Raised EMissingFile, Raised EMissingFile => true
  | Raised (EFault j), Raised (EFault k) => Nat.eqb j k
  | _, _ => false
  end.

(* observed behaviour of one real call with a fault injected at the k-th faultable step *)
Inductive obs_outcome := ObsReturned | ObsRaisedInjected | ObsRaisedTypeError | ObsRaisedOther.
Definition matches (m : outcome) (o : obs_outcome) : bool :=
  match m, o with
  | Returned, ObsReturned => true
  | Raised (EFault _), ObsRaisedInjected => true
  | Raised ETypeError, ObsRaisedTypeError => true
  | _, _ => false
  end.
(* case: input kind, fault position, observed outcome, leaked temp files observed, user file unchanged observed *)
Definition tf_check (skel : cmd) (c : input * option nat * obs_outcome * nat * bool) : bool :=
  let '(inp, fault, o, leaked, intact) := c in
  let r := run skel inp fault in
  matches (snd r) o && Nat.eqb (temps (fst r)) leaked && Bool.eqb (user_intact (fst r)) intact.
