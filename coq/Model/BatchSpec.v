(* C16 -- executable reading of what a list of batch tasks means, on top of the generated
   translation of utils.batch_tasks (Gen/BatchTasksGen.v).  No proofs here. *)
From Coq Require Import ZArith List Bool.
From TJ Require Import Base.Imp Gen.BatchTasksGen.
Import ListNotations. Open Scope Z_scope.

Definition t_lo (t : task) : Z := match t with TIdx a _ _ => a | TArr a _ _ => a end.
Definition t_hi (t : task) : Z := match t with TIdx _ b _ => b | TArr _ b _ => b end.
Definition t_id (t : task) : Z := match t with TIdx _ _ c => c | TArr _ _ c => c end.
Definition t_is_idx (t : task) : bool := match t with TIdx _ _ _ => true | TArr _ _ _ => false end.

(* Python's arr[lo:hi] for 0 <= lo: clamps at the end of the list. *)
Definition pyslice {A} (arr : list A) (lo hi : Z) : list A :=
  firstn (Z.to_nat (hi - lo)) (skipn (Z.to_nat lo) arr).

(* what a worker ends up processing *)
Definition task_rows {A} (arr : list A) (t : task) : list A := pyslice arr (t_lo t) (t_hi t).

(* [chain lo hi ts]: ts is a sequence of non-empty half-open ranges, the first starting at lo,
   each starting where its predecessor ends, the last ending at hi, each carrying its own start
   as task id. *)
Fixpoint chain (lo hi : Z) (ts : list task) : Prop :=
  match ts with
  | [] => lo = hi
  | t :: r => t_lo t = lo /\ t_lo t < t_hi t /\ t_id t = t_lo t /\ chain (t_hi t) hi r
  end.

Fixpoint chainb (lo hi : Z) (ts : list task) : bool :=
  match ts with
  | [] => lo =? hi
  | t :: r => (t_lo t =? lo) && (t_lo t <? t_hi t) && (t_id t =? t_lo t) && chainb (t_hi t) hi r
  end.

(* multiproc_helpers.run_worker: how many rows and how many batches are requested *)
Definition rw_n_samples (file_rows : Z) (n_prior : option Z) (idx_len : option Z) : Z :=
  match idx_len, n_prior with
  | Some l, _ => l
  | None, Some n => n
  | None, None => file_rows
  end.
Definition rw_n_batches (n_batches : option Z) (pool_size : Z) : Z :=
  match n_batches with Some b => b | None => Z.max 1 pool_size end.

(* comparison of the model with what the implementation returned: a task is observed as
   (is_idx, lo, hi, id) -- for array tasks lo/hi are recovered from the slice contents. *)
Definition obs_task := (bool * Z * Z * Z)%type.
Definition task_obs (t : task) : obs_task := (t_is_idx t, t_lo t, t_hi t, t_id t).
Definition obs_eqb (a b : obs_task) : bool :=
  let '(k1, l1, h1, i1) := a in let '(k2, l2, h2, i2) := b in
  Bool.eqb k1 k2 && (l1 =? l2) && (h1 =? h2) && (i1 =? i2).
Fixpoint list_eqb {A} (e : A -> A -> bool) (x y : list A) : bool :=
  match x, y with
  | [], [] => true
  | a :: x', b :: y' => e a b && list_eqb e x' y'
  | _, _ => false
  end.
