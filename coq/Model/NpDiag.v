(* The numpy idioms of the diagnostics (samples_analysis.py), as list combinators over exact rationals; tools/py2v_diag.py emits
   Gen/DiagGen.v over these.  No proofs here. *)
From Coq Require Import QArith Qround ZArith List Bool Arith.
From TJ Require Import Base.Corr Base.XQ Model.Diagnostics.
Import ListNotations.
Open Scope Q_scope.

(* x % 1.0 for Python floats: x - floor(x), in [0, 1) (kept as a reduced fraction, as Model/Diagnostics.v keeps phases) *)
Definition np_mod1 (x : Q) : Q := Qred (qfrac x).
Definition np_sort (l : list Q) : list Q := qsort l.
(* elementwise a - b of two equally long arrays *)
Fixpoint np_sub (a b : list Q) : list Q :=
  match a, b with x :: a', y :: b' => (x - y) :: np_sub a' b' | _, _ => [] end.
(* .max() of a non-empty array of non-negative numbers (the arcs): the fold from 0 *)
Definition np_max (l : list Q) : Q := qmaxl 0 l.
(* np.histogram(x, bins=np.linspace(0, 1, n + 1)) for x in [0, 1): counts per bin [k/n, (k+1)/n) *)
Definition np_histogram01 (n : nat) (x : list Q) : list nat :=
  map (fun k => length (filter (in_bin n k) x)) (seq 0 n).
