(* C17 -- model of JokerSamples table operations (thejoker/samples.py): selection, copy, reductions,
   median_period, pack/unpack, wrap_K, get_time_with_phase.  No proofs here.
   Structure over exact rationals; the trigonometric statements live over R (Proofs/TableProofs.v). *)
From Coq Require Import QArith ZArith List Bool Arith.
From TJ Require Import Base.XQ Base.Corr Base.RealEnc Model.RVData.
Import ListNotations.

(* a column: (name id, unit id, values); a table: columns + metadata (t_ref, poly_trend, n_offsets) *)
Record smeta := mk_smeta { sm_tref : option Q; sm_poly : nat; sm_noff : nat }.
Record scol := mk_scol { sc_name : nat; sc_unit : nat; sc_vals : list Q }.
Record stab := mk_stab { st_cols : list scol; st_meta : smeta }.

Definition smeta_eqb (a b : smeta) : bool :=
  Corr.option_eqb q_ideqb (sm_tref a) (sm_tref b) && Nat.eqb (sm_poly a) (sm_poly b) && Nat.eqb (sm_noff a) (sm_noff b).
Definition scol_eqb (a b : scol) : bool :=
  Nat.eqb (sc_name a) (sc_name b) && Nat.eqb (sc_unit a) (sc_unit b) && Corr.list_eqb q_ideqb (sc_vals a) (sc_vals b).
Definition stab_eqb (a b : stab) : bool :=
  Corr.list_eqb scol_eqb (st_cols a) (st_cols b) && smeta_eqb (st_meta a) (st_meta b).

(* samples[key] for an int, slice, boolean mask or index list: the harness passes the selected row numbers *)
Definition select (idx : list nat) (t : stab) : stab :=
  mk_stab (map (fun c => mk_scol (sc_name c) (sc_unit c) (gather 0%Q idx (sc_vals c))) (st_cols t)) (st_meta t).
Definition tcopy (t : stab) : stab := t.

(* median_period: a row whose period has rank floor(n/2) among the periods *)
Definition count_lt (p : Q) (l : list Q) : nat := length (filter (fun x => negb (Qle_bool p x)) l).
Definition count_le (p : Q) (l : list Q) : nat := length (filter (fun x => Qle_bool x p) l).
Definition rank_ok (ps : list Q) (i : nat) : bool :=
  let p := nth i ps 0%Q in
  Nat.ltb i (length ps) && Nat.leb (count_lt p ps) (length ps / 2) && Nat.ltb (length ps / 2) (count_le p ps).

(* pack: named columns -> row-major matrix (in a requested column order); unpack: the inverse *)
Definition get_col (t : stab) (name : nat) : list Q :=
  match find (fun c => Nat.eqb (sc_name c) name) (st_cols t) with Some c => sc_vals c | None => [] end.
Definition nrows (t : stab) : nat := match st_cols t with [] => O | c :: _ => length (sc_vals c) end.
Definition pack (names : list nat) (t : stab) : list (list Q) :=
  map (fun i => map (fun nm => nth i (get_col t nm) 0%Q) names) (seq 0 (nrows t)).
Definition unpack (hdr : list (nat * nat)) (m : smeta) (rows : list (list Q)) : stab :=
  mk_stab (map (fun jc => mk_scol (fst (snd jc)) (snd (snd jc)) (map (fun r => nth (fst jc) r 0%Q) rows))
               (combine (seq 0 (length hdr)) hdr)) m.

(* wrap_K, structural part: K becomes |K|; which rows have their omega moved *)
Definition qabs (q : Q) : Q := if Qle_bool 0 q then q else Qopp q.
Definition wrapped_rows (ks : list Q) : list bool := map (fun k => negb (Qle_bool 0 k)) ks.

(* wrap_K, numeric part, decided with certified interval arithmetic:
   new omega = omega + PI - 2*PI*n  with n the integer making it land in [0, 2 PI) *)
Definition omega_wrapped (w : Q) (n : Z) : rexpr :=
  RSub (RAdd (RQ w) RPi) (RMul (RC (2 * n) 1) RPi).
Definition wrapk_row_ok (prec : positive) (tol : Q) (k w k' w' : Q) (n : Z) : bool :=
  if Qle_bool 0 k then q_ideqb k k' && q_ideqb w w'                 (* untouched rows: identical *)
  else q_ideqb (Qopp k) k' && rclose prec tol (omega_wrapped w n) w' &&
       rnonneg prec (RAdd (omega_wrapped w n) (RQ tol)) &&
       rpos prec (RSub (RAdd (RMul (RC 2 1) RPi) (RQ tol)) (omega_wrapped w n)).

(* get_time_with_phase: returned time (days after t_ref) for period P, M0, requested phase phi (radians) *)
Definition time_with_phase (P M0 phi : Q) : rexpr :=
  RAdd (RDiv (RMul (RQ P) (RQ M0)) (RMul (RC 2 1) RPi)) (RDiv (RMul (RQ P) (RQ phi)) (RMul (RC 2 1) RPi)).
