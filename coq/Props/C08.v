(* C08 -- Multi-survey data keep every observation tied to its own survey offset.  Statements only.
   [merge] is the executable model of validate_prepare_data's concatenate-and-sort; [merge_check]
   is the certificate Coq evaluates each run on the triple the implementation returned (witness
   permutation recovered from unique velocity tags); [const_matrix] models
   get_constant_term_design_matrix. *)
From Coq Require Import QArith List Bool Arith Permutation Sorted.
From TJ Require Import Base.XQ Base.Corr Model.RVData Model.Surveys Proofs.SurveyProofs.
Import ListNotations.

(* accepted certificate: merged rows (with the labels the implementation attached) are exactly the
   union of the labelled inputs, sorted by time, and the offset columns are built from those labels *)
Theorem C08_certificate_sound srcs pi out cm :
  merge_check srcs pi out cm = true ->
  Permutation out (concat_sources srcs) /\ sorted_l out = true /\
  cm = const_matrix (map l_id out) /\ out = gather lobs_d pi (concat_sources srcs).
Proof. exact (merge_check_sound srcs pi out cm). Qed.

(* each merged row is an observation of the survey whose label it carries; nothing lost, nothing invented *)
Theorem C08_rows_keep_their_survey srcs pi out cm x :
  merge_check srcs pi out cm = true ->
  (In x out <-> exists s, In s srcs /\ l_id x = fst s /\ In (l_obs x) (snd s)).
Proof. exact (merged_rows_keep_their_survey srcs pi out cm x). Qed.

Theorem C08_model_is_union srcs :
  Permutation (merge srcs) (concat_sources srcs) /\ sorted_l (merge srcs) = true.
Proof. exact (merge_model_spec srcs). Qed.

(* offset columns: column 0 all ones; column j>=1 is the indicator of the j-th smallest key *)
Theorem C08_col0 uniq id : nth 0 (const_row uniq id) 0%Q = 1%Q.
Proof. exact (const_row_col0 uniq id). Qed.
Theorem C08_colj uniq id j : (1 <= j < length uniq)%nat ->
  nth j (const_row uniq id) 0%Q = if Nat.eqb id (nth j uniq O) then 1%Q else 0%Q.
Proof. exact (const_row_colj uniq id j). Qed.
(* exactly one survey -- the smallest key -- is offset-free; every other survey has its own single column *)
Theorem C08_reference_has_no_offset ids j :
  (1 <= j < length (unique_ids ids))%nat ->
  nth j (const_row (unique_ids ids) (nth 0 (unique_ids ids) O)) 0%Q = 0%Q.
Proof. exact (const_row_reference (unique_ids ids) j (unique_ids_sorted ids)). Qed.
Theorem C08_one_offset_per_survey ids j k :
  (1 <= j < length (unique_ids ids))%nat -> (1 <= k < length (unique_ids ids))%nat ->
  nth j (const_row (unique_ids ids) (nth k (unique_ids ids) O)) 0%Q = if Nat.eqb j k then 1%Q else 0%Q.
Proof. exact (const_row_own_column (unique_ids ids) j k (unique_ids_sorted ids)). Qed.
Theorem C08_unique_ids_are_the_labels ids y : In y (unique_ids ids) <-> In y ids.
Proof. exact (unique_ids_in ids y). Qed.
(* list input (labels 0..m): first source is the reference, k-th further source owns column k *)
Theorem C08_list_input ids m : (forall k, In k ids <-> (k <= m)%nat) -> unique_ids ids = seq 0 (S m).
Proof. exact (unique_ids_list_input ids m). Qed.

(* KNOWN FINDING D5 (open): the faithful model of the pinned code does NOT have the property -- with two
   interleaved surveys a row ends up labelled with the other survey.  The witness, replayed on the
   implementation, is the finding recorded in known_findings.json. *)
Theorem C08_pinned_code_refuted :
  exists srcs x, In x (merge_code srcs) /\
                 ~ (exists s, In s srcs /\ l_id x = fst s /\ In (l_obs x) (snd s)).
Proof.
  pose (o := fun t v => mkobs (XFin (t#1)) (XFin (v#1)) (XFin (1#2))).
  exists [(O, [o 1 10; o 3 30]%Z); (1%nat, [o 2 20; o 4 40]%Z)], (mklobs (o 2 20)%Z O).
  split; [vm_compute; tauto|].
  intros (s & [<-|[<-|[]]] & Hid & Hin); cbn in Hid, Hin; try discriminate.
  destruct Hin as [H|[H|[]]]; discriminate.
Qed.

(* non-vacuity: two interleaved surveys *)
Example C08_ex :
  let o t v := mkobs (XFin (t#1)) (XFin (v#1)) (XFin (1#2)) in
  let srcs := [(O, [o 1 10; o 3 30]%Z); (1%nat, [o 2 20; o 4 40]%Z)] in
  map l_id (merge srcs) = [0; 1; 0; 1]%nat /\
  merge_check srcs [0; 2; 1; 3]%nat (merge srcs) (const_matrix [0; 1; 0; 1]%nat) = true.
Proof. vm_compute. split; reflexivity. Qed.

Print Assumptions C08_certificate_sound.
Print Assumptions C08_rows_keep_their_survey.
Print Assumptions C08_model_is_union.
Print Assumptions C08_col0.
Print Assumptions C08_colj.
Print Assumptions C08_reference_has_no_offset.
Print Assumptions C08_one_offset_per_survey.
Print Assumptions C08_unique_ids_are_the_labels.
Print Assumptions C08_list_input.
Print Assumptions C08_pinned_code_refuted.
