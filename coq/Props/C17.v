(* C17 -- Sample-table operations preserve the physical orbit and its metadata.  Statements only.
   Model/Table.v: selection, median rank, pack/unpack, and the wrap_K / time-of-phase expressions;
   the trigonometric facts are over Coq's reals, the per-row numeric certificates are decided by
   certified interval arithmetic (Base/RealEnc.v). *)
From Coq Require Import Reals QArith Qreals ZArith List Bool Arith.
From TJ Require Import Base.XQ Base.Corr Base.RealEnc Model.RVData Model.Table Proofs.TableProofs.
Import ListNotations.

(* wrap_K: K -> -K together with omega -> omega + pi (mod 2 pi) leaves every row's RV curve
   K (cos(omega + f) + e cos omega) unchanged, for all true anomalies f, eccentricities e, integers n *)
Theorem C17_wrapK_same_curve (K w e f : R) (n : Z) :
  let w' := (w + PI - 2 * IZR n * PI)%R in
  ((- K) * (cos (w' + f) + e * cos w') = K * (cos (w + f) + e * cos w))%R.
Proof. exact (wrap_same_curve K w e f n). Qed.

(* an accepted per-row certificate: rows with K >= 0 are untouched; rows with K < 0 get K' = -K > 0 and an
   omega within tol of omega + pi - 2 pi n, inside [0, 2 pi) up to tol *)
Theorem C17_wrapK_row prec tol k w k' w' n :
  wrapk_row_ok prec tol k w k' w' n = true ->
  (0 <= k /\ k' = k /\ w' = w) \/
  (k < 0 /\ k' = Qopp k /\
   (Rabs ((Q2R w + PI - 2 * IZR n * PI) - Q2R w') <= Q2R tol)%R /\
   (- Q2R tol <= Q2R w + PI - 2 * IZR n * PI < 2 * PI + Q2R tol)%R).
Proof. exact (wrapk_row_sound prec tol k w k' w' n). Qed.
Theorem C17_absK_nonneg q : 0 <= qabs q.
Proof. exact (qabs_nonneg q). Qed.

(* get_t0 / get_time_with_phase: at the returned time the mean anomaly equals the requested phase *)
Theorem C17_time_with_phase P M0 phi :
  ~ P == 0 -> (2 * PI * rval (time_with_phase P M0 phi) / Q2R P - Q2R M0 = Q2R phi)%R.
Proof. exact (phase_time_correct P M0 phi). Qed.

(* indexing / masking / slicing: same columns, same units, same metadata; values are the selected rows *)
Theorem C17_select_meta idx t : st_meta (select idx t) = st_meta t.
Proof. exact (select_meta idx t). Qed.
Theorem C17_select_header idx t :
  map (fun c => (sc_name c, sc_unit c)) (st_cols (select idx t)) = map (fun c => (sc_name c, sc_unit c)) (st_cols t).
Proof. exact (select_header idx t). Qed.
Theorem C17_select_values idx t j :
  (j < length (st_cols t))%nat ->
  sc_vals (nth j (st_cols (select idx t)) (mk_scol 0 0 [])) = gather 0%Q idx (sc_vals (nth j (st_cols t) (mk_scol 0 0 []))).
Proof. exact (select_values idx t j). Qed.

(* median_period: the returned index is a member row whose period has rank floor(n/2) *)
Theorem C17_median_member ps i :
  rank_ok ps i = true ->
  (i < length ps)%nat /\ In (nth i ps 0%Q) ps /\
  (count_lt (nth i ps 0%Q) ps <= length ps / 2 < count_le (nth i ps 0%Q) ps)%nat.
Proof. exact (rank_ok_spec ps i). Qed.

(* pack followed by unpack reproduces names, units, values and metadata of every well-formed table (distinct column names,
   columns of equal length); unpack followed by pack reproduces every rectangular matrix *)
Theorem C17_unpack_pack t : wf_tab t -> unpack (header t) (st_meta t) (pack (col_names t) t) = t.
Proof. exact (unpack_pack t). Qed.
Theorem C17_pack_unpack hdr m rows :
  hdr <> [] -> NoDup (map fst hdr) -> (forall r, In r rows -> length r = length hdr) ->
  pack (map fst hdr) (unpack hdr m rows) = rows.
Proof. exact (pack_unpack_rows hdr m rows). Qed.
Example C17_unpack_pack_ex :
  let t := mk_stab [mk_scol 0 1 [(1#2); (3#4)]; mk_scol 3 0 [(5#1); (6#1)]; mk_scol 2 2 [(7#1); (8#1)]] (mk_smeta (Some (55000#1)) 1 0) in
  stab_eqb (unpack [(0, 1); (3, 0); (2, 2)]%nat (st_meta t) (pack [0; 3; 2]%nat t)) t = true.
Proof. vm_compute. reflexivity. Qed.

(* non-vacuity: a negative-K row with omega = 5 rad wraps to 5 + pi - 2 pi (n = 1) *)
Example C17_ex : wrapk_row_ok 60 (1#1000000000) (-3#1) (5#1) (3#1) (1858407346410207 # 1000000000000000) 1 = true.
Proof. vm_compute. reflexivity. Qed.

Print Assumptions C17_wrapK_same_curve.
Print Assumptions C17_wrapK_row.
Print Assumptions C17_absK_nonneg.
Print Assumptions C17_time_with_phase.
Print Assumptions C17_select_meta.
Print Assumptions C17_select_header.
Print Assumptions C17_select_values.
Print Assumptions C17_median_member.
Print Assumptions C17_unpack_pack.
Print Assumptions C17_pack_unpack.
