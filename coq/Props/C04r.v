(* C04 over the REAL numbers, no algebraic premise left -- statement only; the proof is `exact <lemma>`.
   C04_bayes_identity_real: for real matrices of every dimension, C_s and Lambda with symmetric inverses and positive determinants,
   A the inverse of Lambda^-1 + M^T C_s^-1 M with positive determinant, and EVERY x (a posterior draw or a hand-built row):
        ln N(y | M mu, B) = ln N(y | M x, C_s) + ln N(x | mu, Lambda) - ln N(x | a, A),
   B = C_s + M Lambda M^T,  B^-1 by Woodbury,  a = A (M^T C_s^-1 y + Lambda^-1 mu).
   (Props/C04.v proves the two algebraic facts over any field and the real identity from them; here they are discharged at R.) *)
From Coq Require Import Reals.
From mathcomp Require Import all_ssreflect all_fingroup all_algebra.
From TJ Require Import Base.Rstruct Proofs.KernelAlg Proofs.CompleteSquare Proofs.RealGauss Proofs.RealKernel.
Set Implicit Arguments. Unset Strict Implicit. Unset Printing Implicit Defensive.
Import GRing.Theory.
Local Open Scope ring_scope.

Theorem C04_bayes_identity_real (n k : nat) (M : 'M[R]_(n, k)) (C Ci : 'M[R]_n) (L Li A : 'M[R]_k) (y : 'cV[R]_n) (mu x : 'cV[R]_k) :
  C *m Ci = 1%:M -> L *m Li = 1%:M -> Ci^T = Ci -> Li^T = Li -> (Li + M^T *m Ci *m M) *m A = 1%:M ->
  Rlt 0 (\det C) -> Rlt 0 (\det L) -> Rlt 0 (\det A) ->
  let B := C + M *m L *m M^T in
  let Binv := Ci - Ci *m M *m A *m M^T *m Ci in
  let Ainv := Li + M^T *m Ci *m M in
  let a := A *m (M^T *m Ci *m y + Li *m mu) in
  gauss_ln B Binv (M *m mu - y) = gauss_ln C Ci (y - M *m x) + gauss_ln L Li (x - mu) - gauss_ln A Ainv (x - a).
Proof. exact (fun HC HL HCs HLs HA HdC HdL HdA => @bayes_identity_real n k M C Ci L Li A y mu HC HL HCs HLs HA HdC HdL HdA x). Qed.

(* non-vacuity: a concrete 1 x 1 problem meets every premise *)
Example C04_real_premises_ex :
  let M : 'M[R]_(1, 1) := 1%:M in let C : 'M[R]_1 := 1%:M in let L : 'M[R]_1 := 1%:M in let A : 'M[R]_1 := (2%:R^-1)%:M in
  [/\ C *m C = 1%:M, L *m L = 1%:M, C^T = C, (L + M^T *m C *m M) *m A = 1%:M & Rlt 0 (\det C) /\ Rlt 0 (\det L) /\ Rlt 0 (\det A)].
Proof. exact bayes_premises_ex. Qed.

Print Assumptions C04_bayes_identity_real.
