(* C02 -- Rejection step keeps a prior sample iff exp(ll_i - max ll) > u_i, unaltered.  Statements only.
   Model/Reject.v is the executable model of rejection_sample_inmem / rejection_sample_helper; the
   transcendental comparison is decided by [dec_exp] (Coq-Interval's verified arithmetic through
   Base/RealEnc.v).  Each run Coq evaluates rs_check on what the implementation did (recorded
   uniform / choice draws, likelihoods, returned rows). *)
From Coq Require Import Reals QArith Qreals List Bool Arith Sorted.
From TJ Require Import Base.XQ Base.Corr Base.RealEnc Model.Reject Proofs.RejectProofs.
Import ListNotations.

(* the decision oracle used in every run is sound for the real-number rule *)
Theorem C02_oracle_sound prec : dec_sound (dec_exp prec).
Proof. exact (dec_exp_sound prec). Qed.

Section C02.
  Variable prec : positive.
  Let dec := dec_exp prec.
  Variables (lls : list XQ) (us : list Q) (r : list nat).
  Hypothesis Hus : Forall (fun u => 0 <= u) us.
  Hypothesis Hr : accept_idx dec lls us = Some r.

  (* sample i is kept exactly when exp(ll_i - max_j ll_j) > u_i; kept positions are in evaluation order, no repeats *)
  Theorem C02_rule :
    length lls = length us /\
    (forall i, In i r <-> (i < length lls)%nat /\ rule (xmaxl lls) (nth i lls XNaN) (nth i us 0)) /\
    StronglySorted lt r.
  Proof. exact (accept_idx_spec dec (dec_exp_sound prec) lls us r Hus Hr). Qed.

  Theorem C02_best_survives j a b :
    (j < length lls)%nat -> nth j lls XNaN = XFin a -> xmaxl lls = XFin b -> a == b -> nth j us 0 < 1 -> In j r.
  Proof. exact (best_survives dec (dec_exp_sound prec) lls us r j a b Hus Hr). Qed.

  Theorem C02_nonfinite_never j b :
    xmaxl lls = XFin b -> (nth j lls XNaN = XNInf \/ nth j lls XNaN = XNaN) -> ~ In j r.
  Proof. exact (ninf_never dec (dec_exp_sound prec) lls us r j b Hus Hr). Qed.

  (* max_posterior_samples keeps the first accepted positions *)
  Theorem C02_truncation maxpost :
    good_idx dec lls us maxpost = Some (firstn maxpost r) /\
    (exists tl, r = firstn maxpost r ++ tl) /\ StronglySorted lt (firstn maxpost r).
  Proof.
    unfold good_idx. fold dec. rewrite Hr. repeat split.
    - exact (firstn_prefix maxpost r).
    - apply sorted_firstn. exact (proj2 (proj2 C02_rule)).
  Qed.
End C02.

(* rows: every returned row is an accepted library row, n_linear consecutive copies each, nothing else *)
Theorem C02_rows_members n (full : list nat) x : In x (out_rows n full) -> In x full.
Proof. exact (in_repeat_each n full x). Qed.
Theorem C02_rows_layout n (a : nat) full : out_rows n (a :: full) = repeat a n ++ out_rows n full.
Proof. exact (repeat_each_cons n a full). Qed.
Theorem C02_rows_count n (full : list nat) : length (out_rows n full) = (n * length full)%nat.
Proof. exact (repeat_each_length n full). Qed.
(* ... and was among the evaluated rows (the first n_prior rows, or the shuffled selection) *)
Theorem C02_rows_evaluated order good n_prior :
  Forall (fun g => (g < n_prior)%nat) good ->
  match order with Some o => length o = n_prior | None => True end ->
  forall f, In f (full_idx order good) -> In f (eval_rows n_prior order).
Proof. exact (full_idx_evaluated order good n_prior). Qed.

(* non-vacuity: spike, tie for the maximum, -inf next to finite values, truncation, shuffled order *)
Example C02_ex :
  let lls := [XFin (-1#1); XFin (0#1); XNInf; XFin (-50#1); XFin (0#1)] in
  let us := [(3#10); (999#1000); (0#1); (1#100); (1#2)] in
  accept_idx (dec_exp 60) lls us = Some [0; 1; 4]%nat /\
  good_idx (dec_exp 60) lls us 2 = Some [0; 1]%nat /\
  out_rows 2 (full_idx (Some [7; 3; 9; 1; 0]%nat) [0; 1]%nat) = [7; 7; 3; 3]%nat.
Proof. vm_compute. repeat split; reflexivity. Qed.

Print Assumptions C02_oracle_sound.
Print Assumptions C02_rule.
Print Assumptions C02_best_survives.
Print Assumptions C02_nonfinite_never.
Print Assumptions C02_truncation.
Print Assumptions C02_rows_members.
Print Assumptions C02_rows_layout.
Print Assumptions C02_rows_count.
Print Assumptions C02_rows_evaluated.
