(* C14 -- Iterative rejection sampling respects request, budget and acceptance rule.  Statements only.
   Model/Iterative.v: the loop with the batch sizes as inputs (the growth formula is irrelevant to
   the property), budget clamp, stop conditions, failure modes.  Each run Coq replays the recorded
   iterations (sizes and draws of the successive uniform() calls) through it_check. *)
From Coq Require Import QArith List Bool Arith Sorted.
From TJ Require Import Base.XQ Base.Corr Base.RealEnc Model.Reject Model.Iterative Proofs.RejectProofs Proofs.IterProofs.
Import ListNotations.

Section C14.
  Variable prec : positive.
  Let dec := dec_exp prec.
  Variables (inmem : bool) (prof : list XQ) (n_req budget maxiter first : nat) (early_ok : bool) (steps : list (nat * list Q)).

  (* a normal return: for ANY sequence of batch sizes *)
  Theorem C14_normal_return good ev :
    it_run dec inmem prof n_req budget early_ok maxiter first steps = ItOk good ev ->
    (first <= budget)%nat /\ (ev <= budget)%nat /\                                 (* never more than the budget evaluated *)
    exists us acc, accept_idx dec (firstn ev prof) us = Some acc /\ good = firstn n_req acc /\   (* accepted by the rule against everything evaluated *)
                   (length good <= n_req)%nat /\                                     (* at most the request *)
                   ((n_req <= length acc)%nat -> length good = n_req) /\             (* exactly the request when enough passed *)
                   ((length acc < n_req)%nat -> ((budget <= ev)%nat \/ early_ok = true) /\ good = acc) /\ (* fewer only when the budget is exhausted or the code's next-batch estimate was not positive *)
                   (inmem = true -> forallb xfinite (firstn ev prof) = true).
  Proof. exact (it_run_ok dec inmem prof n_req budget early_ok maxiter first steps good ev). Qed.

  (* a library (or budget) too small for the first batch raises *)
  Theorem C14_too_small_raises :
    (budget < first)%nat -> it_run dec inmem prof n_req budget early_ok maxiter first steps = ItRaise ErrTooSmall.
  Proof. exact (it_run_too_small dec inmem prof n_req budget early_ok maxiter first steps). Qed.

  (* running out of iterations is a raise, never a normal-looking value *)
  Theorem C14_maxiter_raises c st : it_loop dec inmem prof n_req budget early_ok 0 c st = ItRaise ErrMaxIter.
  Proof. exact (it_loop_fuel0 dec inmem prof n_req budget early_ok c st). Qed.
End C14.

(* evaluated rows are a prefix of an order without repeats: no library row is evaluated twice *)
Theorem C14_no_row_twice {A} n (order : list A) : NoDup order -> NoDup (firstn n order).
Proof. exact (firstn_NoDup n order). Qed.
Theorem C14_unshuffled_order_distinct n : NoDup (seq 0 n).
Proof. exact (seq_NoDup' 0 n). Qed.

(* the outcome type of the model has exactly three shapes -- samples, a raised error, undecided -- the
   implementation's "returned something else" (ObsNonResult) matches none of them *)
Theorem C14_non_result_never_matches prec c :
  ic_obs c = ObsNonResult -> it_check prec c = None \/ it_check prec c = Some false.
Proof.
  intros H. unfold it_check. rewrite H.
  destruct (it_run _ _ _ _ _ _ _ _); [right|right|left]; reflexivity.
Qed.

(* non-vacuity: two iterations (3 rows, then 5), request 2, budget 6 *)
Example C14_ex :
  let prof := [XFin (-9#1); XFin (-1#1); XFin (-40#1); XFin (-2#1); XFin (-1#1); XFin (0#1)] in
  it_run (dec_exp 60) false prof 2 6 false 128 3 [(3, [(1#2); (1#2); (1#2)]); (2, [(9#10); (1#2); (1#2); (1#3); (1#5)])]%nat
  = ItOk [1; 3]%nat 5%nat.
Proof. vm_compute. reflexivity. Qed.

Print Assumptions C14_normal_return.
Print Assumptions C14_too_small_raises.
Print Assumptions C14_maxiter_raises.
Print Assumptions C14_no_row_twice.
Print Assumptions C14_unshuffled_order_distinct.
Print Assumptions C14_non_result_never_matches.
