(* C02 / C06 / C14 -- the rejection sites regenerated from the source on every run (tools/py2v_reject.py -> Gen/RejectSites.v).
   Statements only; every proof is `exact <lemma>`.
   The translator follows uu, aa, good_samples_idx, full_samples_idx and the statements handing rows / ln_likelihood / ln_prior
   to the caller in  rejection_sample_inmem, iterative_rejection_inmem, rejection_sample_helper, iterative_rejection_helper
   and fails closed on any other form.  Proved here about what it emits:
     C02_sites_good     at all four sites good_samples_idx = (positions where exp(ll - max ll) > u)[:bound]  (Model/Reject.v good_idx)
     C02_sites_rows     the rows whose linear parameters are generated are the library rows of those positions
                        (through the shuffled order where the code has one)
     C06_sites_lnlike   the ln_likelihood column holds the value at the accepted evaluation position, n_linear copies each
     C06_sites_lnprior  the ln_prior column holds the library value of the accepted library row, n_linear copies each
     C02_generated_rule end to end: every position the code keeps satisfies the real-number rule; positions strictly increase. *)
From Coq Require Import QArith Qreals List Bool Arith Sorted.
From TJ Require Import Base.XQ Base.Corr Base.RealEnc Model.Reject Model.NpOps Gen.RejectSites Proofs.RejectProofs Proofs.RejectGen.
Import ListNotations.

Theorem C02_sites_good dec lls us bound :
  inmem_good dec lls us bound = good_idx dec lls us bound /\ iter_inmem_good dec lls us bound = good_idx dec lls us bound /\
  file_good dec lls us bound = good_idx dec lls us bound /\ iter_file_good dec lls us bound = good_idx dec lls us bound.
Proof. exact (sites_good dec lls us bound). Qed.

Theorem C02_sites_rows good :
  (forall order, inmem_rows order good = full_idx None good) /\
  (forall order, iter_inmem_rows order good = full_idx (Some order) good) /\
  (forall order, file_rows order good = full_idx order good) /\
  (forall order, iter_file_rows order good = full_idx (Some order) good).
Proof. exact (sites_rows good). Qed.

Theorem C06_sites_lnlike n lls good :
  (forall order, inmem_lnlike n lls order good = ln_like_col n lls good) /\
  (forall order, iter_inmem_lnlike n lls order good = ln_like_col n lls good) /\
  (forall order, file_lnlike n lls order good = ln_like_col n lls good) /\
  (forall order, iter_file_lnlike n lls order good = ln_like_col n lls good).
Proof. exact (sites_lnlike n lls good). Qed.

Theorem C06_sites_lnprior n lib good :
  (forall order, inmem_lnprior n lib order good = ln_prior_col n lib (full_idx None good)) /\
  (forall order, iter_inmem_lnprior n lib order good = ln_prior_col n lib (full_idx (Some order) good)) /\
  (forall order, file_lnprior n lib order good = ln_prior_col n lib (full_idx order good)) /\
  (forall order, iter_file_lnprior n lib order good = ln_prior_col n lib (full_idx (Some order) good)).
Proof. exact (sites_lnprior n lib good). Qed.

Theorem C02_generated_rule prec lls us bound r :
  Forall (fun u => 0 <= u) us ->
  file_good (dec_exp prec) lls us bound = Some r ->
  length lls = length us /\ StronglySorted lt r /\
  forall i, In i r -> (i < length lls)%nat /\ rule (xmaxl lls) (nth i lls XNaN) (nth i us 0).
Proof. exact (generated_rule prec lls us bound r). Qed.

(* non-vacuity: the generated site evaluated on numbers *)
Example C02_sites_ex :
  file_good (dec_exp 60) [XFin (-1#1); XFin (0#1); XNInf; XFin (0#1)] [(3#10); (999#1000); (0#1); (1#2)] 2 = Some [0; 1]%nat /\
  file_rows (Some [7; 3; 9; 1]%nat) [0; 1]%nat = [7; 3]%nat /\
  file_lnprior 2 [XFin 10; XFin 11; XFin 12; XFin 13; XFin 14; XFin 15; XFin 16; XFin 17] (Some [7; 3; 9; 1]%nat) [0; 1]%nat
    = [XFin 17; XFin 17; XFin 13; XFin 13].
Proof. vm_compute. repeat split; reflexivity. Qed.

Print Assumptions C02_sites_good.
Print Assumptions C02_sites_rows.
Print Assumptions C06_sites_lnlike.
Print Assumptions C06_sites_lnprior.
Print Assumptions C02_generated_rule.
