(* C12 -- Sample files round-trip exactly and batch reads return the rows asked for.  Statements only.
   Model/Store.v is the executable model of the store at table level; every run Coq replays random
   operation sequences (write / overwrite / append / incompatible appends / read / read_batch) that
   were executed on real HDF5 files through run_ops. *)
From Coq Require Import QArith List Bool Arith.
From TJ Require Import Base.XQ Base.Corr Model.RVData Model.Store Proofs.StoreProofs.
Import ListNotations.

(* round trip: what is read back is what was written (columns, order, units, metadata, values) *)
Theorem C12_read_write t s : read (fst (write true false t s)) = Some t.
Proof. exact (read_after_write t s). Qed.
Theorem C12_write_new_file ow app t : write ow app t None = (Some t, WOk).
Proof. exact (write_fresh ow app t). Qed.

(* appending: accepted iff column names, order, units and the metadata agree; then rows are concatenated *)
Theorem C12_append t old :
  write false true t (Some old) =
    if hdr_eqb (t_hdr old) (t_hdr t) && meta_eqb (t_meta old) (t_meta t)
    then (Some (mk_tbl (t_hdr old) (t_meta old) (t_rows old ++ t_rows t)), WOk)
    else (Some old, WIncompatible).
Proof. exact (append_spec t old). Qed.
Theorem C12_header_compatibility_is_equality a b : hdr_eqb a b = true <-> a = b.
Proof. exact (hdr_eqb_eq a b). Qed.
Theorem C12_fewer_columns_incompatible a b c : hdr_eqb (a ++ c :: b) a = false.
Proof. exact (hdr_prefix_incompatible a b c). Qed.
Theorem C12_appends_concatenate h m chunks rows0 :
  fold_left (fun s c => fst (write false true (mk_tbl h m c) s)) chunks (Some (mk_tbl h m rows0))
  = Some (mk_tbl h m (rows0 ++ concat chunks)).
Proof. exact (appends_concat h m chunks rows0). Qed.

(* overwrite=True together with append=True replaces the table: reading back yields the table just written *)
Theorem C12_overwrite_and_append t s : write true true t s = (Some t, WOk).
Proof. exact (write_both_flags t s). Qed.

(* a refused write does not alter the file *)
Theorem C12_refused_unchanged ow app t s s' r : write ow app t s = (s', r) -> r <> WOk -> s' = s.
Proof. exact (refused_unchanged ow app t s s' r). Qed.

(* batch reads *)
Theorem C12_slice_rows fuel lo hi step :
  (0 < step)%nat -> (hi <= lo + fuel * step)%nat ->
  forall i, In i (slice_idx fuel lo hi step) <-> (exists k, i = lo + k * step /\ i < hi)%nat.
Proof. exact (slice_idx_spec fuel lo hi step). Qed.
Theorem C12_contiguous_range fuel lo hi : (hi <= lo + fuel)%nat -> slice_idx fuel lo hi 1 = seq lo (hi - lo).
Proof. exact (slice_idx_contiguous fuel lo hi). Qed.
Theorem C12_index_rows t cols idx :
  length (read_idx t cols idx) = length idx /\
  forall k, (k < length idx)%nat ->
    nth k (read_idx t cols idx) [] = pick_cols (t_hdr t) cols (nth (nth k idx O) (t_rows t) []).
Proof. exact (read_idx_rows t cols idx). Qed.

(* non-vacuity: write, compatible append, prefix-column append refused, out-of-order index read with a repeat *)
Example C12_ex :
  let h := [(0, 1); (1, 0); (2, 2)]%nat in
  let m := mk_meta (Some (XFin (55000#1))) 1 0 in
  let t1 := mk_tbl h m [[XFin (1#1); XFin (2#1); XFin (3#1)]; [XFin (4#1); XFin (5#1); XFin (6#1)]] in
  let t2 := mk_tbl h m [[XFin (7#1); XFin (8#1); XFin (9#1)]] in
  let t3 := mk_tbl [(0, 1); (1, 0)]%nat m [[XFin (7#1); XFin (8#1)]] in
  run_ops None [OWrite false false t1 WOk; OWrite false true t2 WOk; OWrite false true t3 WIncompatible;
                OWrite false false t2 WExists;
                OIdx [2; 0]%nat [2; 0; 2]%nat [1; 1] [[XFin (9#1); XFin (7#1)]; [XFin (3#1); XFin (1#1)]; [XFin (9#1); XFin (7#1)]];
                OSlice [1]%nat 1 9 1 [(1#2)] [[XFin (5#2)]; [XFin (4#1)]]] = true.
Proof. vm_compute. reflexivity. Qed.

Print Assumptions C12_read_write.
Print Assumptions C12_write_new_file.
Print Assumptions C12_append.
Print Assumptions C12_header_compatibility_is_equality.
Print Assumptions C12_fewer_columns_incompatible.
Print Assumptions C12_appends_concatenate.
Print Assumptions C12_overwrite_and_append.
Print Assumptions C12_refused_unchanged.
Print Assumptions C12_slice_rows.
Print Assumptions C12_contiguous_range.
Print Assumptions C12_index_rows.
