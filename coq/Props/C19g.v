(* C19 -- the diagnostics regenerated from the source on every run (tools/py2v_diag.py -> Gen/DiagGen.v: RVData.phase, MAP_sample,
   max_phase_gap, phase_coverage, periods_spanned, accepted only in exactly the statement forms of the pinned source) ARE the model
   of Model/Diagnostics.v: every theorem of Props/C19.v is a statement about the code's own expressions.  Statements only. *)
From Coq Require Import QArith List.
From TJ Require Import Base.XQ Model.Diagnostics Model.NpDiag Gen.DiagGen Proofs.DiagGenProofs.

Theorem C19_generated_is_model :
  (forall tref P t, phase_gen tref P t = phase tref P t) /\
  (forall tref P ts, max_phase_gap_gen tref P ts = max_phase_gap tref P ts) /\
  (forall tref P n ts, phase_coverage_gen tref P n ts = phase_coverage tref P n ts) /\
  (forall P ts, periods_spanned_gen P ts = periods_spanned P ts) /\
  (forall lp ll, map_index_gen lp ll = map_index lp ll).
Proof.
  exact (conj phase_gen_eq (conj max_phase_gap_gen_eq (conj phase_coverage_gen_eq (conj periods_spanned_gen_eq map_index_gen_eq)))).
Qed.
Print Assumptions C19_generated_is_model.
