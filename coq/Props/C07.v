(* C07 -- physical results are invariant under the choice of units.
   Statements only; every proof is `exact <lemma>`.
     C07_reexpress / C07_pack_unpack / C07_internal_scaling  (Q): unit conversion as scale factors -- re-expressing any
         quantity in an equivalent unit leaves the value the kernel receives unchanged; changing the kernel's own velocity unit
         multiplies every velocity-valued internal number by one factor c.
     C07_scale_B / _Binv / _chi2 / _det / _posterior  (MathComp, any field, all n k): under that factor c
         B -> c^2 B, B^-1 -> c^-2 B^-1, chi^2 unchanged, det B -> c^(2n) det B, A^-1 -> c^-2 A^-1, a -> c a.
     C07_jacobian (reals): the log-density changes by exactly - n ln c.
     C07_accept_shift (Model/Reject.v): adding one constant to every log-likelihood leaves the accepted set unchanged,
         for every decision oracle that depends on the value of ll_i - max ll only.
     C07_P0_in_days (generated code): P0 is converted to the unit the kernel receives periods in.
   Tied to the code per run by twin problems (same physics, other units) on the implementation, each twin also compared with the
   generated kernel model and the closed form as in C01, and the Jacobian relation between the twins' values certified by Coq. *)
From mathcomp Require Import all_ssreflect all_fingroup all_algebra.
From Coq Require Import Reals QArith List.
From TJ Require Import Base.XQ Base.Units Gen.KernelPyx Model.Reject Proofs.KernelChar Proofs.KernelAlg Proofs.RealGauss Proofs.ShiftProofs.
Set Implicit Arguments. Unset Strict Implicit. Unset Printing Implicit Defensive.

Theorem C07_reexpress (v s1 s1' s2 : Q) : (~ s1' == 0 -> ~ s2 == 0 -> to_value (to_value v s1 s1') s1' s2 == to_value v s1 s2)%Q.
Proof. exact (reexpress_invariant v s1 s1' s2). Qed.
Theorem C07_pack_unpack (v s1 s2 : Q) : (~ s1 == 0 -> ~ s2 == 0 -> to_value (to_value v s1 s2) s2 s1 == v)%Q.
Proof. exact (pack_unpack v s1 s2). Qed.
Theorem C07_internal_scaling (v s1 s2 s2' : Q) : (~ s2 == 0 -> ~ s2' == 0 -> to_value v s1 s2' == (s2 / s2') * to_value v s1 s2)%Q.
Proof. exact (internal_scaling v s1 s2 s2'). Qed.

Theorem C07_P0_in_days : p0_in_kernel_period_unit = true.
Proof. exact P0_in_days. Qed.

Section Alg.
Import GRing.Theory.
Local Open Scope ring_scope.
Variables (F : fieldType) (n k : nat).
Variables (M : 'M[F]_(n, k)) (C Ci : 'M[F]_n) (L A Li : 'M[F]_k) (r : 'cV[F]_n) (h a : 'cV[F]_k) (c : F).
Hypothesis Hc : c != 0.

Theorem C07_scale_B : (c ^+ 2 *: C) + M *m (c ^+ 2 *: L) *m M^T = c ^+ 2 *: (C + M *m L *m M^T).
Proof. exact (scale_B M C L c). Qed.
Theorem C07_scale_Binv :
  (c ^- 2 *: Ci) - (c ^- 2 *: Ci) *m M *m (c ^+ 2 *: A) *m M^T *m (c ^- 2 *: Ci) = c ^- 2 *: (Ci - Ci *m M *m A *m M^T *m Ci).
Proof. exact (scale_Binv M Ci A Hc). Qed.
Theorem C07_scale_chi2 :
  (c *: r)^T *m ((c ^- 2 *: Ci) - (c ^- 2 *: Ci) *m M *m (c ^+ 2 *: A) *m M^T *m (c ^- 2 *: Ci)) *m (c *: r)
  = r^T *m (Ci - Ci *m M *m A *m M^T *m Ci) *m r.
Proof. exact (scale_chi2 M Ci A r Hc). Qed.
Theorem C07_scale_det : \det ((c ^+ 2 *: C) + M *m (c ^+ 2 *: L) *m M^T) = (c ^+ 2) ^+ n * \det (C + M *m L *m M^T).
Proof. exact (scale_det M C L c). Qed.
Theorem C07_scale_posterior :
  (Li + M^T *m Ci *m M) *m a = h ->
  ((c ^- 2 *: Li) + M^T *m (c ^- 2 *: Ci) *m M) *m (c *: a) = c ^-1 *: h.
Proof. exact (scale_a (M:=M) (Ci:=Ci) Hc (Li:=Li) (h:=h) (a:=a)). Qed.
End Alg.

Theorem C07_jacobian (n : nat) (chi2 det c : R) :
  (0 < c -> 0 < det -> lnN n chi2 ((c ^ 2) ^ n * det) = lnN n chi2 det - INR n * ln c)%R.
Proof. exact (jacobian n chi2 det c). Qed.

Theorem C07_accept_shift (dec : Q -> Q -> option bool) :
  (forall d d' u, (d == d')%Q -> dec d u = dec d' u) ->
  forall (k : Q) (lls : list XQ) (us : list Q), accept_idx dec (map (xshift k) lls) us = accept_idx dec lls us.
Proof. exact (@accept_idx_shift dec). Qed.

Print Assumptions C07_reexpress.
Print Assumptions C07_pack_unpack.
Print Assumptions C07_internal_scaling.
Print Assumptions C07_P0_in_days.
Print Assumptions C07_scale_B.
Print Assumptions C07_scale_Binv.
Print Assumptions C07_scale_chi2.
Print Assumptions C07_scale_det.
Print Assumptions C07_scale_posterior.
Print Assumptions C07_jacobian.
Print Assumptions C07_accept_shift.
