(* C15 -- RVData.__init__ / ivar / copy / slicing as regenerated from the source on every run (tools/py2v_data.py ->
   Gen/DataGen.v), for EVERY sorting permutation numpy's unstable argsort may return (a section variable constrained only to be a
   permutation of the positions that puts the times in ascending order).  Statements only.
     C15_init_generated      the stored observations are exactly the kept inputs (all of them when clean=False, the finite ones
                             when clean=True), each still paired with its own velocity and error, in time order
     C15_init_generated_model  the generated constructor and the hand model hold the same observations
     C15_copy_generated      copy() drops nothing and hands over the reference epoch (False when there is none)
     C15_getitem_generated   data[sel] holds exactly the selected observations, in time order
     C15_tref_generated      the default reference epoch self.t.min() is the first of the time-sorted epochs
     C15_ivar_generated      1 / rv_err^2 meets the inverse-variance certificate for every non-zero error *)
From Coq Require Import QArith List Bool Permutation.
From TJ Require Import Base.XQ Model.RVData Model.NpData Gen.DataGen Proofs.RVDataProofs Proofs.DataGenProofs.
Import ListNotations.

Section AnyArgsort.
Variable argsort : list XQ -> list nat.
Hypothesis argsort_perm : forall ts, Permutation (argsort ts) (seq 0 (length ts)).
Hypothesis argsort_sorts : forall ts, sorted_x (gather XNaN (argsort ts) ts) = true.

Theorem C15_init_generated clean l :
  Permutation (rvdata_init_gen argsort clean l) (filter (keep clean) l) /\ sorted_t (rvdata_init_gen argsort clean l) = true.
Proof. exact (rvdata_init_gen_spec argsort argsort_perm argsort_sorts clean l). Qed.

Theorem C15_init_generated_model clean l : Permutation (rvdata_init_gen argsort clean l) (rvdata_init clean l).
Proof. exact (rvdata_init_gen_model argsort argsort_perm argsort_sorts clean l). Qed.

Theorem C15_copy_generated l tref :
  Permutation (fst (copy_gen argsort l tref)) l /\ sorted_t (fst (copy_gen argsort l tref)) = true /\
  snd (copy_gen argsort l tref) = match tref with None => TrefFalse | Some q => TrefGiven q end.
Proof. exact (copy_gen_spec argsort argsort_perm argsort_sorts l tref). Qed.

Theorem C15_getitem_generated sel l :
  Permutation (fst (getitem_gen argsort sel l)) (gather obs_d sel l) /\ sorted_t (fst (getitem_gen argsort sel l)) = true.
Proof. exact (getitem_gen_spec argsort argsort_perm argsort_sorts sel l). Qed.
End AnyArgsort.

Theorem C15_tref_generated ts : ts <> [] -> sorted_x ts = true -> existsb is_nan ts = false ->
  tref_gen TrefDefault ts = tref_of TrefDefault ts.
Proof. exact (tref_gen_default ts). Qed.

Theorem C15_ivar_generated tol e : 0 <= tol -> ~ e == 0 -> ivar_ok tol (XFin e) (XFin (ivar_gen e)) = true.
Proof. exact (ivar_gen_ok tol e). Qed.

(* the premises are satisfiable: insertion sort's positions are such an argsort on this input *)
Example C15g_ex :
  let l := [mkobs (XFin 3) (XFin 30) (XFin 1); mkobs (XFin 1) XNaN (XFin 1); mkobs (XFin 2) (XFin 20) (XFin 2)] in
  rvdata_init_gen (fun _ => [1; 0]%nat) true l = [mkobs (XFin 2) (XFin 20) (XFin 2); mkobs (XFin 3) (XFin 30) (XFin 1)].
Proof. vm_compute. reflexivity. Qed.

Print Assumptions C15_init_generated.
Print Assumptions C15_init_generated_model.
Print Assumptions C15_copy_generated.
Print Assumptions C15_getitem_generated.
Print Assumptions C15_tref_generated.
Print Assumptions C15_ivar_generated.
