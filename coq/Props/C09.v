(* C09 -- prior draws and reported ln_prior follow the declared densities.
   Statements only; every proof is `exact <lemma>`.  Over the reals (Coquelicot for the derivative and the integral).
     log-uniform period prior on [a, b], 0 < a < b:
       C09_draw_support      every draw exp(u (ln b - ln a) + ln a), 0 <= u < 1, lies in [a, b)
       C09_draw_inverse_cdf  the transform inverts the CDF (ln x - ln a)/(ln b - ln a), which is increasing from 0 at a to 1 at b:
                             draws of a uniform u have that CDF
       C09_cdf_derive        its derivative is the density 1/(x (ln b - ln a))
       C09_logp_is_log_pdf   -ln x - ln(ln b - ln a) is the log of that density
       C09_normalised        the density integrates to 1 over [a, b]
     K prior:
       C09_fcm_variance_rule sigma(P, e)^2 = min(sigma_K0^2 (P/P0)^(-2/3) / (1 - e^2), max_K^2): the prior the draws come from is the
                             prior the likelihood kernel marginalises against (C01)
     C09_*_rx_val            the executable encodings compared with the implementation's numbers denote these real definitions.
   Tied to the code per run by certified-interval certificates: pm.logp of UniformLog inside / at the edges / outside the support,
   rng_fn driven by chosen uniform variates, the sigma parameter and logp of the K prior at chosen (P, e), Beta parameters of the
   eccentricity priors, and differences of the ln_prior column of prior.sample(return_logprobs=True) between rows against
   differences of the joint log-density at those rows (generate_linear on and off).
   Trusted: numpy / pymc draw from the built-in distributions they are asked for (uniform, Beta, Normal). *)
From Coq Require Import Reals QArith Qreals.
From Coquelicot Require Import Coquelicot.
From TJ Require Import Base.RealEnc Model.Densities Proofs.DensProofs.
Open Scope R_scope.

Theorem C09_draw_support a b u : 0 < a -> a < b -> 0 <= u < 1 -> a <= ul_draw a b u < b.
Proof. exact (fun Ha Hab => ul_draw_support a b Ha Hab u). Qed.
Theorem C09_draw_inverse_cdf a b u : 0 < a -> a < b -> ul_cdf a b (ul_draw a b u) = u.
Proof. exact (fun Ha Hab => ul_draw_inverse_cdf a b Ha Hab u). Qed.
Theorem C09_cdf_increasing a b x y : 0 < a -> a < b -> 0 < x -> x < y -> ul_cdf a b x < ul_cdf a b y.
Proof. exact (fun Ha Hab => ul_cdf_increasing a b Ha Hab x y). Qed.
Theorem C09_cdf_ends a b : 0 < a -> a < b -> ul_cdf a b a = 0 /\ ul_cdf a b b = 1.
Proof. exact (ul_cdf_ends a b). Qed.
Theorem C09_cdf_derive a b x : 0 < a -> a < b -> 0 < x -> is_derive (ul_cdf a b) x (ul_pdf a b x).
Proof. exact (fun Ha Hab => ul_cdf_derive a b Ha Hab x). Qed.
Theorem C09_logp_is_log_pdf a b x : 0 < a -> a < b -> 0 < x -> ul_logp_in a b x = ln (ul_pdf a b x).
Proof. exact (fun Ha Hab => ul_logp_is_log_pdf a b Ha Hab x). Qed.
Theorem C09_normalised a b : 0 < a -> a < b -> is_RInt (ul_pdf a b) a b 1.
Proof. exact (ul_normalised a b). Qed.
Theorem C09_fcm_variance_rule sK0 P0 maxK P e :
  0 < sK0 -> 0 < P0 -> 0 < P -> 0 <= maxK -> e * e < 1 ->
  fcm_sigma sK0 P0 maxK P e * fcm_sigma sK0 P0 maxK P e = kernel_K_var sK0 P0 maxK P e.
Proof. exact (fcm_variance_rule sK0 P0 maxK P e). Qed.

Theorem C09_logp_rx_val a b x : rval (ul_logp_rx a b x) = ul_logp_in (Q2R a) (Q2R b) (Q2R x).
Proof. exact (ul_logp_rx_val a b x). Qed.
Theorem C09_draw_rx_val a b u : rval (ul_draw_rx a b u) = ul_draw (Q2R a) (Q2R b) (Q2R u).
Proof. exact (ul_draw_rx_val a b u). Qed.
Theorem C09_sigma_rx_val sK0 P0 maxK P e sg :
  fcm_sigma_rx sK0 P0 maxK P e = Some sg -> rval sg = fcm_sigma (Q2R sK0) (Q2R P0) (Q2R maxK) (Q2R P) (Q2R e).
Proof. exact (fcm_sigma_rx_val sK0 P0 maxK P e sg). Qed.
Theorem C09_xterm_rx_val t x : rval (xterm_rx t x) = xterm_logp t (Q2R x).
Proof. exact (xterm_rx_val t x). Qed.

(* non-vacuity: a concrete draw inside a concrete support, decided by certified interval arithmetic *)
Example C09_ex : ul_draw_obs_ok 2 1024 (1 # 2) (4525483399593904 # 100000000000000) (1 # 1000000000) = true.
Proof. vm_compute. reflexivity. Qed.

Print Assumptions C09_draw_support.
Print Assumptions C09_draw_inverse_cdf.
Print Assumptions C09_cdf_increasing.
Print Assumptions C09_cdf_ends.
Print Assumptions C09_cdf_derive.
Print Assumptions C09_logp_is_log_pdf.
Print Assumptions C09_normalised.
Print Assumptions C09_fcm_variance_rule.
Print Assumptions C09_logp_rx_val.
Print Assumptions C09_draw_rx_val.
Print Assumptions C09_sigma_rx_val.
Print Assumptions C09_xterm_rx_val.
