(* C04 -- a sample row denotes one RV curve everywhere; the Bayes identity holds.
   Statements only; every proof is `exact <lemma>`.
     C04_rv_same_curve   (any unit Keplerian g): with samples.t_ref = data t_ref, the sampler's design-matrix model of an
                         observation equals the reconstructed orbit (KeplerOrbit + PolynomialRVTrend at t_ref) plus the
                         observation's own survey offset; poly_trend and the number of offsets arbitrary.
     C04_bayes_quadratic (MathComp, any field, all n k): chi^2_lik(x) + chi^2_prior(x) = chi^2_post(x) + chi^2_marg for EVERY x
                         (posterior draw or hand-built row).
     C04_bayes_det       det B det A = det C_s det Lambda.
     C04_bayes_identity  (reals) those two facts and positivity give
                         ln N(marg) = ln N(y | theta, x) + ln N(x | mu, Lambda) - ln N(x | a, A).
   C04_bayes_identity takes the two algebraic facts as premises; Props/C04r.v (C04_bayes_identity_real) discharges them at R
   through the MathComp field structure on Coq's reals (Base/Rstruct.v), so the identity holds for real matrices of every
   dimension with no premise beyond invertibility, symmetry and positive determinants.  On every generated input Coq also checks
   the exact rational identities on the numbers at hand (check_bayes bit 3) together with the identity on the implementation's
   own log-likelihood values (bit 2). *)
From mathcomp Require Import all_ssreflect all_fingroup all_algebra.
From Coq Require Import Reals QArith.
From TJ Require Import Model.RVCurve Proofs.RVCurveProofs Proofs.KernelAlg Proofs.CompleteSquare Proofs.RealGauss.
Set Implicit Arguments. Unset Strict Implicit. Unset Printing Implicit Defensive.

Theorem C04_rv_same_curve (g : Q -> Q -> Q -> Q) (twopi P e om M0 K v0 : Q) (offs vs : list Q) (poly sid : nat) (t t_ref : Q) :
  length vs = (poly - 1)%coq_nat -> (sid <= length offs)%coq_nat ->
  (rv_kernel g twopi P e om M0 K v0 offs vs poly sid t t_ref ==
   rv_orbit g twopi P e om M0 K v0 vs t t_ref + survey_offset offs sid)%Q.
Proof. exact (@rv_same_curve g twopi P e om M0 K v0 offs vs poly sid t t_ref). Qed.

Section Alg.
Import GRing.Theory.
Local Open Scope ring_scope.
Variables (F : fieldType) (n k : nat).
Variables (M : 'M[F]_(n, k)) (C Ci : 'M[F]_n) (L Li A : 'M[F]_k) (y : 'cV[F]_n) (mu : 'cV[F]_k).
Hypothesis HC : C *m Ci = 1%:M.
Hypothesis HL : L *m Li = 1%:M.
Hypothesis HCs : Ci^T = Ci.
Hypothesis HLs : Li^T = Li.
Hypothesis HA : (Li + M^T *m Ci *m M) *m A = 1%:M.

Theorem C04_bayes_quadratic (x : 'cV[F]_k) :
  qf Ci (y - M *m x) + qf Li (x - mu)
  = qf (Li + M^T *m Ci *m M) (x - A *m (M^T *m Ci *m y + Li *m mu))
    + qf (Ci - Ci *m M *m A *m M^T *m Ci) (M *m mu - y).
Proof. exact (complete_square y mu HCs HLs HA x). Qed.

Theorem C04_bayes_det : \det (C + M *m L *m M^T) * \det A = \det C * \det L.
Proof. exact (det_B_A HC HL HA). Qed.
End Alg.

Theorem C04_bayes_identity (n k : nat) (q_marg q_lik q_prior q_post dB dC dL dA : R) :
  (0 < dB -> 0 < dC -> 0 < dL -> 0 < dA ->
   q_lik + q_prior = q_post + q_marg -> dB * dA = dC * dL ->
   lnN n q_marg dB = lnN n q_lik dC + lnN k q_prior dL - lnN k q_post dA)%R.
Proof. exact (bayes_identity n k q_marg q_lik q_prior q_post dB dC dL dA). Qed.

(* non-vacuity: a two-survey, poly_trend = 3 instance of the curve identity evaluated on numbers *)
Example C04_curve_ex :
  let g := fun (m e om : Q) => (m + e * om)%Q in
  (rv_kernel g 6 10 (1#4) 2 1 3 5 (7 :: 11 :: nil) (2 :: 1 :: nil) 3 2 58 50 ==
   rv_orbit g 6 10 (1#4) 2 1 3 5 (2 :: 1 :: nil) 58 50 + 11)%Q.
Proof. vm_compute. reflexivity. Qed.

Print Assumptions C04_rv_same_curve.
Print Assumptions C04_bayes_quadratic.
Print Assumptions C04_bayes_det.
Print Assumptions C04_bayes_identity.
