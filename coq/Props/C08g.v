(* C08 / C04 -- the design-matrix builders regenerated from the source on every run (tools/py2v_design.py -> Gen/DesignGen.v) are
   the models the C08 and C04 theorems speak about.  Statements only.
     C08_const_matrix_generated   get_constant_term_design_matrix = Model/Surveys.v const_matrix: column 0 all ones, column j the
                                  indicator of the j-th smallest survey label (so the smallest label is the offset-free survey)
     C08_trend_rows_generated     every row of get_trend_design_matrix is that constant row followed by dt, dt^2, ..,
                                  dt^(poly_trend - 1) with dt = t - t_ref: offsets directly after v0, trend terms last *)
From Coq Require Import QArith List Arith.
From TJ Require Import Model.Surveys Model.RVCurve Gen.DesignGen Proofs.DesignGenProofs.
Import ListNotations.

Theorem C08_const_matrix_generated ids : const_matrix_gen ids = const_matrix ids.
Proof. exact (const_matrix_gen_eq ids). Qed.

Theorem C08_trend_rows_generated ids ts t_ref poly :
  trend_matrix_gen ids ts t_ref poly
  = map (fun it => const_row (unique_ids ids) (fst it) ++ powers_from (snd it - t_ref) 1 (poly - 1)) (combine ids ts).
Proof. exact (trend_matrix_gen_rows ids ts t_ref poly). Qed.

Example C08_design_ex :
  trend_matrix_gen [20; 37; 20]%nat [(1#1); (3#1); (5#1)] (1#1) 3
  = [[1; 0; 0; 0 * 1]; [1; 1; 2; 2 * (2 * 1)]; [1; 0; 4; 4 * (4 * 1)]]%Q.
Proof. vm_compute. reflexivity. Qed.

Print Assumptions C08_const_matrix_generated.
Print Assumptions C08_trend_rows_generated.
