(* C14 -- "never evaluates more than max_prior_samples (or the library size) and never the same library row twice", on the block
   bookkeeping GENERATED from the two iterative samplers (tools/py2v_iter.py -> Gen/IterBook.v).  Statements only.
   For every growth estimate (the floating-point expression is left abstract), every request, every limit and every sequence of
   accepted-sample counts observed after the rounds: the blocks of evaluation-order positions the rounds evaluate are contiguous
   from position 0, non-empty, pairwise disjoint and end at or below the limit.  Together with C14_no_row_twice (the evaluation
   order has no repeats) no library row is evaluated twice and at most `limit` rows are evaluated. *)
From Coq Require Import ZArith List Bool.
From TJ Require Import Gen.IterBook Proofs.IterBookProofs.
Import ListNotations. Open Scope Z_scope.

Theorem C14_inmem_blocks growth fuel n_req limit first goods :
  0 < first -> inmem_too_small first limit = false ->
  contiguous 0 limit (blocks (inmem_next growth) inmem_block fuel n_req limit 0 first goods).
Proof. exact (inmem_blocks_contiguous growth fuel n_req limit first goods). Qed.

Theorem C14_file_blocks growth fuel n_req limit first goods :
  0 < first -> file_too_small first limit = false ->
  contiguous 0 limit (blocks (file_next growth) file_block fuel n_req limit 0 first goods).
Proof. exact (file_blocks_contiguous growth fuel n_req limit first goods). Qed.

Theorem C14_blocks_within_budget lo limit bs a b : contiguous lo limit bs -> In (a, b) bs -> lo <= a /\ a < b /\ b <= limit.
Proof. exact (fun H => contiguous_bounds lo limit bs H a b). Qed.

Theorem C14_blocks_disjoint lo limit bs1 a b bs2 c d bs3 :
  contiguous lo limit (bs1 ++ (a, b) :: bs2 ++ (c, d) :: bs3) -> b <= c.
Proof. exact (contiguous_disjoint lo limit bs1 a b bs2 c d bs3). Qed.

(* non-vacuity: three rounds with a doubling growth estimate, request 10, limit 20, first block 3 *)
Example C14_blocks_ex :
  blocks (file_next (fun need good evals => 2 * evals)) file_block 5 10 20 0 3 [1; 2; 4; 11] = [(0, 3); (3, 9); (9, 20)].
Proof. vm_compute. reflexivity. Qed.

Print Assumptions C14_inmem_blocks.
Print Assumptions C14_file_blocks.
Print Assumptions C14_blocks_within_budget.
Print Assumptions C14_blocks_disjoint.
