(* C07 over the REAL numbers -- statement only; the proof is `exact <lemma>`.
   C07_jacobian_real: re-expressing the velocities in a unit c > 0 times smaller (data, C_s, Lambda scaled by c, c^2, c^2; the
   conditional covariance by c^2) changes ln N(y | M mu, B) by exactly - n ln c, for real matrices of every dimension. *)
From Coq Require Import Reals.
From mathcomp Require Import all_ssreflect all_fingroup all_algebra.
From TJ Require Import Base.Rstruct Proofs.KernelAlg Proofs.RealGauss Proofs.RealKernel.
Set Implicit Arguments. Unset Strict Implicit. Unset Printing Implicit Defensive.
Import GRing.Theory.
Local Open Scope ring_scope.

Theorem C07_jacobian_real (n k : nat) (M : 'M[R]_(n, k)) (C Ci : 'M[R]_n) (L A : 'M[R]_k) (r : 'cV[R]_n) (c : R) :
  Rlt 0 c -> Rlt 0 (\det (C + M *m L *m M^T)) ->
  gauss_ln ((c ^+ 2 *: C) + M *m (c ^+ 2 *: L) *m M^T)
           ((c ^- 2 *: Ci) - (c ^- 2 *: Ci) *m M *m (c ^+ 2 *: A) *m M^T *m (c ^- 2 *: Ci)) (c *: r)
  = gauss_ln (C + M *m L *m M^T) (Ci - Ci *m M *m A *m M^T *m Ci) r - INR n * ln c.
Proof. exact (@jacobian_real n k M C Ci L A r c). Qed.

Print Assumptions C07_jacobian_real.
