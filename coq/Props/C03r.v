(* C03 over the REAL numbers -- statement only; the proof is `exact <lemma>`.
   C03_conditional_density_real: for real matrices of every dimension, the density of the linear parameters x given the data and
   the nonlinear parameters, p(y | x) p(x) / p(y), is the Gaussian N(x | a, A) with A^-1 = Lambda^-1 + M^T C_s^-1 M and
   a = A (M^T C_s^-1 y + Lambda^-1 mu) -- the (mean, covariance) the generated posterior path computes (Props/C03.v) and the
   implementation hands to Generator.multivariate_normal (per-run certificates).  A rearrangement of C04_bayes_identity_real. *)
From Coq Require Import Reals Lra.
From mathcomp Require Import all_ssreflect all_fingroup all_algebra.
From TJ Require Import Base.Rstruct Proofs.KernelAlg Proofs.CompleteSquare Proofs.RealGauss Proofs.RealKernel.
Set Implicit Arguments. Unset Strict Implicit. Unset Printing Implicit Defensive.
Import GRing.Theory.
Local Open Scope ring_scope.

Theorem C03_conditional_density_real (n k : nat) (M : 'M[R]_(n, k)) (C Ci : 'M[R]_n) (L Li A : 'M[R]_k) (y : 'cV[R]_n) (mu x : 'cV[R]_k) :
  C *m Ci = 1%:M -> L *m Li = 1%:M -> Ci^T = Ci -> Li^T = Li -> (Li + M^T *m Ci *m M) *m A = 1%:M ->
  Rlt 0 (\det C) -> Rlt 0 (\det L) -> Rlt 0 (\det A) ->
  let B := C + M *m L *m M^T in
  let Binv := Ci - Ci *m M *m A *m M^T *m Ci in
  let Ainv := Li + M^T *m Ci *m M in
  let a := A *m (M^T *m Ci *m y + Li *m mu) in
  gauss_ln A Ainv (x - a) = gauss_ln C Ci (y - M *m x) + gauss_ln L Li (x - mu) - gauss_ln B Binv (M *m mu - y).
Proof. exact (fun HC HL HCs HLs HA HdC HdL HdA => @conditional_density_real n k M C Ci L Li A y mu HC HL HCs HLs HA HdC HdL HdA x). Qed.

Print Assumptions C03_conditional_density_real.
