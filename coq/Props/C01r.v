(* C01 over the REAL numbers -- statement only; the proof is `exact <lemma>`.
   C01_real_value: the field of Props/C01.v's capstone instantiated with Coq's R (Base/Rstruct.v), libc log = ln, M_PI = PI,
   fabs = Rabs: the value the GENERATED entry point returns for one prior sample is
        ln N(y | M mu, B) = -1/2 ( r^T B^-1 r + n ln(2 pi) + ln det B ),   B = diag(sigma^2 + s^2) + M Lambda M^T,  r = M mu - y,
   for every number of epochs and linear parameters and every initial state, given the oracle contracts: the inversion oracle
   returned a right inverse of Lambda^-1 + M^T C_s^-1 M, and the LU oracle's diagonal multiplies to det B > 0 with no zero pivot
   (LAPACK dgetrf: P B = L U with unit lower-triangular L, so |det B| = prod |U_ii|; B is positive definite). *)
From Coq Require Import Reals.
From mathcomp Require Import all_ssreflect all_fingroup all_algebra.
From Coq Require Import ZArith List.
From TJ Require Import Base.Rstruct Base.Imp Base.Fops Gen.KernelPyx Proofs.KernelChar Proofs.KernelBridge Proofs.KernelLoops Proofs.KernelPrelude Proofs.KernelBridge2 Proofs.RealGauss Proofs.RealKernel Gen.BatchTasksGen Model.BatchSpec Model.Sched Proofs.SchedProofs Proofs.KernelSched Proofs.RealSched.
Set Implicit Arguments. Unset Strict Implicit. Unset Printing Implicit Defensive.
Import GRing.Theory.
Local Open Scope ring_scope.

Theorem C01_real_value (pw : R -> R) (inf : R) (orc : oracles R) (nt nl : nat) (fk : Z) (sK0 P0 mK t0 : R) (row : arr1 R)
    (s : kst (F := R)) (Y U : arr2 R) :
  let fo := mc_fops ln PI pw Rmin Rabs inf in
  let s1 := prelude_state fo orc nt fk sK0 P0 mK t0 row s in
  o_inv orc nl (Atmp_arg fo nt nl s1) = Some Y ->
  o_lu orc nt (Btmp_arg fo nt nl s1) = Some U ->
  (forall n : 'I_nt, v_s_ivar s1 n != 0) -> (forall i : 'I_nl, v_Lambda s1 i != 0) ->
  mx2 nl nl (pAinv fo nt (v_M_T s1) (v_s_ivar s1) (v_Lambda s1)) *m mx2 nl nl Y = 1%:M ->
  let B := dg nt (fun n => (v_s_ivar s1 n)^-1) + Mx nt nl (v_M_T s1) *m dg nl (v_Lambda s1) *m (Mx nt nl (v_M_T s1))^T in
  let r := resid nt nl (v_M_T s1) (v_mu s1) (v_rv s1) in
  (forall i, (i < nt)%nat -> U i i != 0) -> \prod_(i < nt) Rabs (U i i) = \det B -> Rlt 0 (\det B) ->
  exists Bi : 'M[R]_nt,
    B *m Bi = 1%:M /\ Bi *m B = 1%:M /\
    snd (k_marginal_one fo orc (Z.of_nat nt) (Z.of_nat nl) fk sK0 P0 mK t0 row s) = gauss_ln B Bi r.
Proof. exact (@marginal_one_real pw inf orc nt nl fk sK0 P0 mK t0 row s Y U). Qed.

(* C01 and C05 together: what TheJoker.marginal_ln_likelihood's cache-file path returns for a library -- cut into batches by the
   generated batch_tasks for any n_batches >= 1, evaluated by any pool of configuration-equal helper copies under EVERY complete
   schedule -- is, row by row in library order, the Gaussian log-density ln N(y | M mu, B_row) of that row (is_gauss), given the
   oracle contracts of C01_real_value for each row (row_ok). *)
Theorem C01_C05_real_every_schedule (pw : R -> R) (inf : R) (orc : oracles R) (nt nl : nat) (fk : Z) (sK0 P0 mK t0 : R)
    (w0 : kst (F := R)) (rows : list (arr1 R)) (n_batches : Z) (ws : list (kst (F := R))) (sch : list (nat * nat)) :
  let fo := mc_fops ln PI pw Rmin Rabs inf in
  let batches := map (task_rows rows) (batch_tasks_gen (Z.of_nat (length rows)) n_batches 0 true) in
  (forall row s, exists Y U, o_inv orc nl (Atmp_arg fo nt nl (pre fo orc nt fk sK0 P0 mK t0 row s)) = Some Y /\
                             o_lu orc nt (Btmp_arg fo nt nl (pre fo orc nt fk sK0 P0 mK t0 row s)) = Some U) ->
  oracles_local orc ->
  rows <> nil -> (1 <= n_batches)%Z -> Forall (cfg_eq nt fk w0) ws -> complete (length batches) (length ws) sch ->
  (forall row, In row rows -> row_ok pw inf orc nt nl fk sK0 P0 mK t0 w0 row) ->
  exists vals : list R,
    pool_map (kst (F := R)) (list (arr1 R)) (list R) (step_batch fo orc nt nl fk sK0 P0 mK t0) batches ws sch
      = map (fun b => Some (map (value fo orc nt nl fk sK0 P0 mK t0 w0) b)) batches /\
    concat (map (map (value fo orc nt nl fk sK0 P0 mK t0 w0)) batches) = vals /\
    Forall2 (is_gauss pw inf orc nt nl fk sK0 P0 mK t0 w0) rows vals.
Proof. exact (@file_path_real_every_schedule pw inf orc nt nl fk sK0 P0 mK t0 w0 rows n_batches ws sch). Qed.

(* gauss_ln is the Gaussian log-density written with the quadratic form of the inverse *)
Theorem C01_gauss_ln_def (n : nat) (S Si : 'M[R]_n) (r : 'cV[R]_n) :
  gauss_ln S Si r = Ropp (Rdiv 1 2) * ((r^T *m Si *m r) ord0 ord0 + INR n * ln (Rmult 2 PI) + ln (\det S)).
Proof. reflexivity. Qed.

Print Assumptions C01_real_value.
Print Assumptions C01_C05_real_every_schedule.
Print Assumptions C01_gauss_ln_def.
