(* C11 -- setup_mcmc and the KeplerianOrbit it builds, as regenerated from the source on every run (tools/py2v_mcmc.py ->
   Gen/McmcGen.v), over Coq's reals.  Statements only.
     C11_mean_anomaly_generated   with t_periastron = P M0 / (2 pi) the orbit's mean anomaly at x = t - t_ref is 2 pi x / P - M0, the
                                  sampler's convention, whatever internal reference anomaly the orbit class uses
     C11_model_rv_generated       model_rv = the sampler's Keplerian term K (cos(omega + f) + e cos omega) + design row . velocity
                                  parameters, for any true-anomaly function
     C11_vpars_order_generated    the velocity parameters are stacked as v0, offsets, v1, v2, .. -- the column order of the design matrix
     C11_obs_term_generated       the observed variable's log-density is the Gaussian data term with variance err^2 + s^2
     C11_stored_ln_prior_generated  the stored ln_prior is the model's log-density minus the stored ln_likelihood *)
From Coq Require Import Reals List.
From TJ Require Import Model.Mcmc Gen.McmcGen Proofs.McmcGenProofs.
Import ListNotations.
Open Scope R_scope.

Theorem C11_mean_anomaly_generated P M0 M0i x : P <> 0 ->
  orbit_mean_anomaly_gen P (t_peri_gen P M0) M0i x = kernel_mean_anomaly P M0 x.
Proof. exact (mean_anomaly_gen_kernel P M0 M0i x). Qed.

Theorem C11_model_rv_generated (true_anom : R -> R -> R) P e om M0 M0i K x row vpars : P <> 0 ->
  model_rv_gen true_anom P e om M0 M0i K x row vpars
  = kernel_rv_kepler true_anom P e om M0 K x + fold_right Rplus 0 (map (fun p => fst p * snd p) (combine row vpars)).
Proof. exact (model_rv_gen_kernel true_anom P e om M0 M0i K x row vpars). Qed.

Theorem C11_vpars_order_generated {A} (v0 : A) (vrest offsets : list A) : vpars_gen (v0 :: vrest) offsets = v0 :: offsets ++ vrest.
Proof. exact (vpars_gen_order v0 vrest offsets). Qed.

Theorem C11_obs_term_generated y rv err s : obs_term_gen y rv err s = gauss_term y rv (err ^ 2 + s ^ 2).
Proof. exact (obs_term_gen_gauss y rv err s). Qed.

Theorem C11_stored_ln_prior_generated logp lnlike : stored_ln_prior_gen logp lnlike = stored_ln_prior logp lnlike.
Proof. exact (stored_ln_prior_gen_eq logp lnlike). Qed.

Print Assumptions C11_mean_anomaly_generated.
Print Assumptions C11_model_rv_generated.
Print Assumptions C11_vpars_order_generated.
Print Assumptions C11_obs_term_generated.
Print Assumptions C11_stored_ln_prior_generated.
