(* C06 (and the budget clause of C14) -- the argument routing of TheJoker.marginal_ln_likelihood / rejection_sample /
   iterative_rejection_sample as regenerated from the source on every run (tools/py2v_entry.py -> Gen/EntryGen.v).
   Statements only.
     C06_truncation_keeps_pairs   the in-memory iterative sampler cuts the library and its ln_prior column at the same row:
                                  afterwards row i is still paired with its own ln_prior
     C06_truncation_is_prefix     and the rows kept are the first max_prior_samples library rows, in order, unchanged
     C06_inmem_lnprior_own_column with return_logprobs, the ln_prior handed to the in-memory helpers is the library object's own column
                                  (a count is first turned into samples); a packed array carries none
     C06_entry_routing            in_memory selects the helper; generator and pool are the sampler's own at every call site *)
From Coq Require Import List Bool Arith.
From TJ Require Import Gen.EntryGen Proofs.EntryGenProofs.
Import ListNotations.

Theorem C06_truncation_keeps_pairs {A B} (rows : list A) (lnp : list B) (mx : option nat) :
  let '(rows', lnp') := it_inmem_truncate rows (Some lnp) mx in
  exists l, lnp' = Some l /\
    combine rows' l = match mx with None => combine rows lnp | Some m => firstn m (combine rows lnp) end.
Proof. exact (it_inmem_truncate_pairs rows lnp mx). Qed.

Theorem C06_truncation_is_prefix {A B} (d : A) (rows : list A) (lnp : option (list B)) (m i : nat) :
  i < m -> nth i (fst (it_inmem_truncate rows lnp (Some m))) d = nth i rows d.
Proof. exact (fun H => eq_trans (f_equal (fun l => nth i l d) (it_inmem_truncate_rows rows lnp (Some m))) (firstn_nth d m i rows H)). Qed.

Theorem C06_inmem_lnprior_own_column a rl :
  inmem_lnprior (rs_prior_arg a) rl =
  match a with
  | PaSamples | PaCount => if rl then LpOwnColumn else LpNone
  | PaArray | PaFile => LpFlag rl
  end.
Proof. exact (inmem_lnprior_spec a rl). Qed.

Theorem C06_entry_routing in_memory :
  entry_helper in_memory = (if in_memory then HInMem else HFile) /\ entry_rng = GenOwn /\ entry_pool = PoolOwn.
Proof. exact (entry_routing in_memory). Qed.

Example C06g_ex : it_inmem_truncate [10; 20; 30] (Some [1; 2; 3]) (Some 2) = ([10; 20], Some [1; 2]).
Proof. reflexivity. Qed.

Print Assumptions C06_truncation_keeps_pairs.
Print Assumptions C06_truncation_is_prefix.
Print Assumptions C06_inmem_lnprior_own_column.
Print Assumptions C06_entry_routing.
