(* C02 -- the survival PROBABILITY L_i / L_max.  Statements only; every proof is `exact <lemma>`.
   For a draw u uniform on [0, 1) the set of u on which the rule exp(ll_i - max ll) > u keeps sample i has measure
   exp(ll_i - max ll) = L_i / L_max: the Riemann integral (Coquelicot) over [0, 1] of the rule's indicator.
   C02_rule_is_indicator ties the indicator to the rule of Props/C02.v (C02_rule: a position is kept iff the rule holds).
   Trusted: numpy's Generator.uniform draws from the uniform distribution on [0, 1). *)
From Coq Require Import Reals QArith Qreals.
From Coquelicot Require Import Coquelicot.
From TJ Require Import Base.XQ Model.Reject Proofs.RejectProofs Proofs.RejectProb.
Open Scope R_scope.

Theorem C02_keep_measure (p : R) : 0 <= p <= 1 -> is_RInt (keep_ind p) 0 1 p.
Proof. exact (keep_measure p). Qed.

Theorem C02_survival_probability (ll m : R) :
  ll <= m -> is_RInt (fun u => if Rlt_dec u (exp (ll - m)) then 1 else 0) 0 1 (exp ll / exp m).
Proof. exact (survival_probability ll m). Qed.

Theorem C02_rule_is_indicator (m ll u : Q) :
  rule (XFin m) (XFin ll) u <-> keep_ind (exp (Q2R (ll - m))) (Q2R u) = 1.
Proof. exact (rule_is_indicator m ll u). Qed.

Print Assumptions C02_keep_measure.
Print Assumptions C02_survival_probability.
Print Assumptions C02_rule_is_indicator.
