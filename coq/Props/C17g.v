(* C17 -- wrap_K, get_time_with_phase / get_t0 and median_period as regenerated from the source on every run
   (tools/py2v_samples.py -> Gen/SamplesGen.v), over Coq's reals, for EVERY row.  Statements only.
     C17_wrap_K_generated          every K becomes non-negative; a row with K >= 0 is untouched; a row with K < 0 gets -K and
                                   omega + pi reduced by whole turns into [0, 2 pi); the RV curve K (cos(omega + f) + e cos omega) is
                                   the same function of the true anomaly f for every eccentricity
     C17_time_with_phase_generated at the returned time the mean anomaly 2 pi (t - t_ref) / P - M0 equals the requested phase
     C17_t0_generated              get_t0 returns a time of zero mean anomaly
     C17_median_rank_generated     the row accepted by the certificate rank_ok has the rank the source asks argpartition for *)
From Coq Require Import Reals QArith List Arith.
From TJ Require Import Model.NpReal Model.Table Gen.SamplesGen Proofs.SamplesGenProofs Proofs.TableProofs.

Theorem C17_wrap_K_generated (K w : R) :
  let '(K', w') := wrap_K_row_gen K w in
  (0 <= K' /\
   (0 <= K -> K' = K /\ w' = w) /\
   (K < 0 -> K' = - K /\ 0 <= w' < 2 * PI /\ exists n : Z, w' = w + PI - 2 * IZR n * PI) /\
   forall e f, K' * (cos (w' + f) + e * cos w') = K * (cos (w + f) + e * cos w))%R.
Proof. exact (wrap_K_row_gen_spec K w). Qed.

Theorem C17_time_with_phase_generated (t_ref P M0 phase : R) : P <> 0%R ->
  (2 * PI * (time_with_phase_gen t_ref P M0 phase - t_ref) / P - M0 = phase)%R.
Proof. exact (time_with_phase_gen_spec t_ref P M0 phase). Qed.

Theorem C17_t0_generated (t_ref P M0 : R) : P <> 0%R ->
  (2 * PI * (t0_gen t_ref P M0 - t_ref) / P - M0 = 0)%R.
Proof. exact (t0_gen_spec t_ref P M0). Qed.

Theorem C17_median_rank_generated ps i :
  rank_ok ps i = true ->
  (count_lt (nth i ps 0%Q) ps <= median_rank_gen (length ps) < count_le (nth i ps 0%Q) ps)%nat.
Proof. exact (fun H => proj2 (proj2 (rank_ok_spec ps i H))). Qed.

Print Assumptions C17_wrap_K_generated.
Print Assumptions C17_time_with_phase_generated.
Print Assumptions C17_t0_generated.
Print Assumptions C17_median_rank_generated.
