(* C11 -- MCMC continuation targets the same model and posterior as the sampler.
   Statements only; every proof is `exact <lemma>`.
     C11_mean_anomaly    (reals) whatever internal reference anomaly the orbit object uses, its mean anomaly at x = t - t_ref is
                         2 pi x / P - M0, the sampler's convention (t_peri = P M0 / 2 pi).
     C11_rv_eq_kernel    hence K (cos w cos f - sin w sin f + e cos w) is the kernel's K (cos(w + f) + e cos w), for any
                         true-anomaly function.
     C11_stored_ln_prior the stored ln_prior = logp - ln_likelihood is the prior part of the log-density iff the stored
                         ln_likelihood is the Gaussian data term.
     C11_jitter_variance the observation model Normal(rv, sqrt(sigma^2 + s^2)) has variance sigma^2 + s^2.
     C11_init_member     (C17's table model) the median-period sample is a member of the input samples.
   Tied to the code per run (Model/KernelRun.v check_mcmc, evaluated by Coq): the pymc model built by setup_mcmc is evaluated at
   parameter points -- model_rv against the design-matrix model M x of the sampler (K column from twobody at the sampler's
   convention), the ln_likelihood deterministic and logp(all) - logp(free variables) against sum ln N(y | M x, sigma^2 + s^2);
   the returned initial point against the chosen sample in the prior's units.
   Trusted: pymc's model.logp is the sum of the declared log-densities of free and observed variables; exoplanet_core's Kepler
   solver returns the true anomaly of the mean anomaly it is given. *)
From Coq Require Import Reals QArith List.
From TJ Require Import Model.Mcmc Proofs.McmcProofs Model.Table Proofs.TableProofs.
Open Scope R_scope.

Theorem C11_mean_anomaly P M0 M0i x : P <> 0 -> mc_mean_anomaly P M0 M0i x = kernel_mean_anomaly P M0 x.
Proof. exact (mcmc_mean_anomaly P M0 M0i x). Qed.
Theorem C11_rv_eq_kernel (true_anom : R -> R -> R) P e om M0 M0i K x :
  P <> 0 -> mc_rv_kepler true_anom P e om M0 M0i K x = kernel_rv_kepler true_anom P e om M0 K x.
Proof. exact (mcmc_rv_eq_kernel true_anom P e om M0 M0i K x). Qed.
Theorem C11_stored_ln_prior logp_prior data_term lnlike :
  stored_ln_prior (logp_prior + data_term) lnlike = logp_prior <-> lnlike = data_term.
Proof. exact (stored_ln_prior_is_prior logp_prior data_term lnlike). Qed.
Theorem C11_jitter_variance y rv sigma s : gauss_term y rv (sigma ^ 2 + s ^ 2) = gauss_term y rv (sqrt (sigma ^ 2 + s ^ 2) ^ 2).
Proof. exact (gauss_term_jitter y rv sigma s). Qed.

(* the initial point: a certificate rank_ok ps i = true (evaluated per run on the implementation's choice) means the returned
   sample is a member of the input samples whose period has rank floor(n/2) *)
Theorem C11_init_member (ps : list Q) (i : nat) :
  rank_ok ps i = true ->
  (i < length ps)%nat /\ In (nth i ps 0%Q) ps /\
  (count_lt (nth i ps 0%Q) ps <= length ps / 2 < count_le (nth i ps 0%Q) ps)%nat.
Proof. exact (rank_ok_spec ps i). Qed.

Print Assumptions C11_init_member.
Print Assumptions C11_mean_anomaly.
Print Assumptions C11_rv_eq_kernel.
Print Assumptions C11_stored_ln_prior.
Print Assumptions C11_jitter_variance.
