(* C18 -- Only priors and data that satisfy the sampler's assumptions are accepted.  Statements only.
   Model/Validate.v mirrors JokerPrior.__init__'s two validation loops and validate_prepare_data's
   source checks; each run Coq compares its verdict (accept, or the first failing check and the
   parameter it names) with the implementation on a systematic grid of perturbed configurations. *)
From Coq Require Import List Bool Arith.
From TJ Require Import Model.Validate Proofs.ValidateProofs.
Import ListNotations.

(* the accept set is EXACTLY the well-formed priors: every required parameter present with a unit convertible to
   the canonical one, every linear and offset parameter with a Normal-family prior (soundness and completeness) *)
Theorem C18_prior_accept_set decls poly noff :
  validate_prior decls poly noff = VOk <->
  (forall r, In r (required poly noff) -> present_ok decls r) /\
  (forall r, In r (linear_req poly ++ offset_req noff) -> normal_ok decls r).
Proof. exact (validate_prior_exact decls poly noff). Qed.

Theorem C18_par_names_order poly noff :
  par_names poly noff = [nP; ne; nomega; nM0; ns] ++ (nK :: map nv (seq 0 poly)) ++ map ndv (seq 1 noff).
Proof. exact (par_names_order poly noff). Qed.

(* data: accepted iff a single diagonal-error RVData with no offsets, or k+1 diagonal-error RVData sources with k offsets *)
Theorem C18_data_accept_set d noff :
  validate_data d noff = DOk <->
  (d = Single (SrcRV false) /\ noff = 0) \/
  (exists srcs, d = Many srcs /\ Forall (fun s => s = SrcRV false) srcs /\ length srcs = S noff).
Proof. exact (validate_data_exact d noff). Qed.

(* non-vacuity: a valid poly_trend=2, one-offset prior; the same with a Uniform prior on v1; with K missing *)
Example C18_ex :
  let base := [mk_decl nP true DTime KOtherRandom; mk_decl ne true DOne KOtherRandom; mk_decl nomega true DAngle KOtherRandom;
               mk_decl nM0 true DAngle KOtherRandom; mk_decl ns true DVel KNotRandom; mk_decl nK true DVel KFixedCompanionMass;
               mk_decl (nv 0) true DVel KNormal; mk_decl (ndv 1) true DVel KNormal] in
  validate_prior (base ++ [mk_decl (nv 1) true (DVelPerTime 1) KNormal]) 2 1 = VOk /\
  validate_prior (base ++ [mk_decl (nv 1) true (DVelPerTime 1) KOtherRandom]) 2 1 = VErr (ENotNormal (nv 1)) /\
  validate_prior (base ++ [mk_decl (nv 1) true DVel KNormal]) 2 1 = VErr (EBadUnit (nv 1)) /\
  validate_prior (tl base) 1 1 = VErr (EMissing nP).
Proof. vm_compute. repeat split; reflexivity. Qed.

Print Assumptions C18_prior_accept_set.
Print Assumptions C18_par_names_order.
Print Assumptions C18_data_accept_set.
