(* C06 -- Reported ln_prior / ln_likelihood stay attached to their own sample.  Statements only.
   Same executable model as C02 (Model/Reject.v): three index spaces -- evaluation positions
   ([good]), the shuffled order, library rows ([full]) -- and the two columns built from them.
   rs_check compares rows AND columns with the implementation on every run. *)
From Coq Require Import QArith List Bool Arith.
From TJ Require Import Base.XQ Base.Corr Model.Reject Proofs.RejectProofs Proofs.LogprobProofs.
Import ListNotations.

Section C06.
  Variables (n_linear : nat) (lls lnprior_lib : list XQ) (order : option (list nat)) (good : list nat).
  Hypothesis Hn : (0 < n_linear)%nat.
  Let full := full_idx order good.
  Let rows := out_rows n_linear full.

  Theorem C06_one_value_per_row :
    length rows = (n_linear * length good)%nat /\
    length (ln_like_col n_linear lls good) = length rows /\
    length (ln_prior_col n_linear lnprior_lib full) = length rows.
  Proof. exact (cols_lengths n_linear lls lnprior_lib order good Hn). Qed.

  (* output row j is a copy of library row full[j/n]; its ln_likelihood is the value computed at the
     evaluation position of that sample; its ln_prior is the library's value for that library row *)
  Theorem C06_attached j :
    (j < n_linear * length good)%nat ->
    let g := nth (j / n_linear) good O in
    nth j rows O = nth (j / n_linear) full O /\
    nth j (ln_like_col n_linear lls good) XNaN = nth g lls XNaN /\
    nth j (ln_prior_col n_linear lnprior_lib full) XNaN = nth (nth j rows O) lnprior_lib XNaN.
  Proof. exact (row_attached n_linear lls lnprior_lib order good Hn j). Qed.

  (* the likelihood at evaluation position g was computed for exactly that library row *)
  Theorem C06_likelihood_of_that_row n_prior k :
    (k < length good)%nat -> (nth k good O < n_prior)%nat ->
    nth (nth k good O) (eval_rows n_prior order) O = nth k full O.
  Proof. exact (eval_row_of_good order good n_prior k). Qed.

  Theorem C06_shuffled ord k :
    order = Some ord -> (k < length good)%nat -> nth k full O = nth (nth k good O) ord O.
  Proof. exact (full_is_order_of_good n_linear order good k ord). Qed.
  Theorem C06_unshuffled : order = None -> full = good.
  Proof. exact (full_is_good_unshuffled n_linear order good). Qed.
End C06.

(* non-vacuity: shuffled order, two copies per sample *)
Example C06_ex :
  let lls := [XFin (-5#1); XFin (-1#1); XFin (-9#1)] in
  let lib := [XFin (-30#1); XFin (-31#1); XFin (-32#1); XFin (-33#1)] in
  let ord := Some [3; 0; 2]%nat in
  out_rows 2 (full_idx ord [1; 2]%nat) = [0; 0; 2; 2]%nat /\
  ln_like_col 2 lls [1; 2]%nat = [XFin (-1#1); XFin (-1#1); XFin (-9#1); XFin (-9#1)] /\
  ln_prior_col 2 lib (full_idx ord [1; 2]%nat) = [XFin (-30#1); XFin (-30#1); XFin (-32#1); XFin (-32#1)].
Proof. vm_compute. repeat split; reflexivity. Qed.

Print Assumptions C06_one_value_per_row.
Print Assumptions C06_attached.
Print Assumptions C06_likelihood_of_that_row.
Print Assumptions C06_shuffled.
Print Assumptions C06_unshuffled.
