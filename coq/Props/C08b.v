(* C08 (continued) -- why the row order of the merged data does not matter to the sampler, and hence why it is the LABELS that must
   follow the rows: the marginal likelihood is invariant under a simultaneous permutation of the epochs (rows of y and M, rows and
   columns of C).  MathComp, any field, all dimensions.  Statements only. *)
From mathcomp Require Import all_ssreflect all_fingroup all_algebra.
From TJ Require Import Proofs.KernelAlg.
Set Implicit Arguments. Unset Strict Implicit. Unset Printing Implicit Defensive.
Import GRing.Theory.
Local Open Scope ring_scope.

Section Perm.
Variables (F : fieldType) (n k : nat).
Variables (M : 'M[F]_(n, k)) (C : 'M[F]_n) (L : 'M[F]_k) (s : 'S_n).
Let P := perm_mx s : 'M[F]_n.

Theorem C08_perm_B : (P *m C *m P^T) + (P *m M) *m L *m (P *m M)^T = P *m (C + M *m L *m M^T) *m P^T.
Proof. exact (perm_B M C L s). Qed.
Theorem C08_perm_det : \det ((P *m C *m P^T) + (P *m M) *m L *m (P *m M)^T) = \det (C + M *m L *m M^T).
Proof. exact (perm_det M C L s). Qed.
Theorem C08_perm_inverse (Binv : 'M[F]_n) :
  (C + M *m L *m M^T) *m Binv = 1%:M -> ((P *m C *m P^T) + (P *m M) *m L *m (P *m M)^T) *m (P *m Binv *m P^T) = 1%:M.
Proof. exact (@perm_inv F n k M C L s Binv). Qed.
Theorem C08_perm_chi2 (Binv : 'M[F]_n) (r : 'cV[F]_n) : (P *m r)^T *m (P *m Binv *m P^T) *m (P *m r) = r^T *m Binv *m r.
Proof. exact (perm_chi2 s Binv r). Qed.
End Perm.

Print Assumptions C08_perm_B.
Print Assumptions C08_perm_det.
Print Assumptions C08_perm_inverse.
Print Assumptions C08_perm_chi2.
