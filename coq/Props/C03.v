(* C03 -- linear parameters are drawn from the exact conditional posterior N(a, A).
   Statements only; every proof is `exact <lemma>`.
   Proved for all dimensions / inputs:
     - (generated code) the posterior path prepares the same per-sample state as the marginal path: same jittered
       inverse variances, same prior slots, same K-variance rule INCLUDING its cap;
     - (algebra) completing the square: p(y|x) p(x) = N(x | a, A) x const with A^-1 = Lambda^-1 + M^T C_s^-1 M,
       A^-1 a = Lambda^-1 mu + M^T C_s^-1 y, the constant being the marginal chi^2 -- i.e. N(a, A) IS the conditional;
     - (layout) row n * n_linear_samples + j of the output is sample n's nonlinear parameters followed by its j-th draw.
   Certified per run and per input (Model/KernelRun.v check_post): the generated loops compute exactly that (a, A^-1);
   the (mean, cov) handed to numpy's multivariate_normal are that a and the inverse of that A^-1; the drawn rows come back
   unchanged and in order.  Trusted: numpy draws from the N(mean, cov) it is given. *)
From mathcomp Require Import all_ssreflect all_fingroup all_algebra.
From Coq Require Import ZArith QArith List.
From TJ Require Import Base.Imp Base.Fops Gen.KernelPyx Model.KernelRun Proofs.KernelChar Proofs.KernelAlg Proofs.CompleteSquare Proofs.PostLayout Proofs.KernelLoops Proofs.KernelBridge Proofs.KernelBridge2.
Set Implicit Arguments. Unset Strict Implicit. Unset Printing Implicit Defensive.
Import GRing.Theory.
Local Open Scope ring_scope.

Theorem C03_same_state_as_marginal {F} (fo : fops F) (orc : oracles F) (nt nl fk : Z) (sK0 P0 mK t0 : F) :
  exists prelude : arr1 F -> kst -> kst,
    (forall row s, k_marginal_one fo orc nt nl fk sK0 P0 mK t0 row s = likelihood_worker fo orc nt nl 0 (prelude row s)) /\
    (forall row s, k_posterior_one fo orc nt nl fk sK0 P0 mK t0 row s = likelihood_worker fo orc nt nl 1 (prelude row s)) /\
    (forall row s, k_test_worker_one fo orc nt nl fk sK0 P0 mK t0 row s = likelihood_worker fo orc nt nl 1 (prelude row s)).
Proof. exact (posterior_same_prelude fo orc nt nl fk sK0 P0 mK t0). Qed.

(* the generated posterior path, all sizes, every initial state: the linear system handed to the solver is
   (Lambda^-1 + M^T C_s^-1 M) a = M^T C_s^-1 y + Lambda^-1 mu  (entrywise, sums in loop order), `a` holds the solver's answer,
   Ainv is left holding that matrix, and the returned value is the marginal path's *)
Theorem C03_worker_posterior {F} (fo : fops F) (orc : oracles F) (nt nl : nat) (s0 : kst) (Y U : arr2 F) (x : arr1 F) :
  o_inv orc nl (Atmp_arg fo nt nl s0) = Some Y ->
  o_lu orc nt (Btmp_arg fo nt nl s0) = Some U ->
  o_solve orc nl (fun a b => if in2 nl nl a b then pAinv fo nt (v_M_T s0) (v_s_ivar s0) (v_Lambda s0) a b else Y a b)
              (fun a => if Nat.ltb a nl then pa_rhs fo nt (v_M_T s0) (v_s_ivar s0) (v_mu s0) (v_Lambda s0) (v_rv s0) a else v_a s0 a) = Some x ->
  snd (likelihood_worker fo orc (Z.of_nat nt) (Z.of_nat nl) 1%Z s0) = pvalue fo nt nl (v_M_T s0) (v_s_ivar s0) (v_mu s0) (v_rv s0) Y U /\
  v_a (fst (likelihood_worker fo orc (Z.of_nat nt) (Z.of_nat nl) 1%Z s0)) = x /\
  (forall i j, (i < nl)%coq_nat -> (j < nl)%coq_nat ->
     v_Ainv (fst (likelihood_worker fo orc (Z.of_nat nt) (Z.of_nat nl) 1%Z s0)) i j = pAinv fo nt (v_M_T s0) (v_s_ivar s0) (v_Lambda s0) i j).
Proof. exact (worker_posterior fo orc nt nl s0 Y U x). Qed.

(* ... and in matrix form over any MathComp field (Proofs/KernelBridge2.v): after the posterior path the generated worker holds
   Ainv = Lambda^-1 + M^T C_s^-1 M and a vector a with  Ainv a = M^T C_s^-1 y + Lambda^-1 mu  (given the solver's contract), and
   returns the marginal path's value: the (a, A) of C03_exact_conditional, with the same C_s, mu, Lambda as the marginal likelihood *)
Theorem C03_posterior_is_conditional (F : fieldType) lg pi_ pw mn ab inf (orc : oracles F) (nt nl : nat) (s0 : kst (F := F)) (Y U : arr2 F) (x : arr1 F) :
  let fo := mc_fops lg pi_ pw mn ab inf in
  let MT := v_M_T s0 in let w := v_s_ivar s0 in let mu := v_mu s0 in let La := v_Lambda s0 in let y := v_rv s0 in
  o_inv orc nl (Atmp_arg fo nt nl s0) = Some Y ->
  o_lu orc nt (Btmp_arg fo nt nl s0) = Some U ->
  o_solve orc nl (fun a b => if in2 nl nl a b then pAinv fo nt MT w La a b else Y a b)
              (fun a => if Nat.ltb a nl then pa_rhs fo nt MT w mu La y a else v_a s0 a) = Some x ->
  let Ainv := dg nl (fun i => (La i)^-1) + (Mx nt nl MT)^T *m dg nt w *m Mx nt nl MT in
  Ainv *m cv nl x = cv nl (pa_rhs fo nt MT w mu La y) ->
  let s' := fst (likelihood_worker fo orc (Z.of_nat nt) (Z.of_nat nl) 1%Z s0) in
  mx2 nl nl (v_Ainv s') = Ainv /\
  Ainv *m cv nl (v_a s') = (Mx nt nl MT)^T *m dg nt w *m cv nt y + dg nl (fun i => (La i)^-1) *m cv nl mu /\
  snd (likelihood_worker fo orc (Z.of_nat nt) (Z.of_nat nl) 1%Z s0) = snd (likelihood_worker fo orc (Z.of_nat nt) (Z.of_nat nl) 0%Z s0).
Proof. exact (@worker_posterior_is_conditional F lg pi_ pw mn ab inf orc nt nl s0 Y U x). Qed.

Theorem C03_layout_as_modelled : posterior_layout_as_modelled = true.
Proof. exact posterior_layout. Qed.

Section Alg.
Variables (F : fieldType) (n k : nat).
Variables (M : 'M[F]_(n, k)) (Ci : 'M[F]_n) (Li A : 'M[F]_k) (y : 'cV[F]_n) (mu : 'cV[F]_k).
Hypothesis HCs : Ci^T = Ci.
Hypothesis HLs : Li^T = Li.
Hypothesis HA : (Li + M^T *m Ci *m M) *m A = 1%:M.

(* the vector the worker solves for: A^-1 a = Lambda^-1 mu + M^T C_s^-1 y *)
Theorem C03_posterior_mean :
  (Li + M^T *m Ci *m M) *m (A *m (M^T *m Ci *m y + Li *m mu)) = M^T *m Ci *m y + Li *m mu.
Proof. exact (Ainv_a y mu HA). Qed.

Theorem C03_exact_conditional (x : 'cV[F]_k) :
  qf Ci (y - M *m x) + qf Li (x - mu)
  = qf (Li + M^T *m Ci *m M) (x - A *m (M^T *m Ci *m y + Li *m mu))
    + qf (Ci - Ci *m M *m A *m M^T *m Ci) (M *m mu - y).
Proof. exact (complete_square y mu HCs HLs HA x). Qed.
End Alg.

Local Close Scope ring_scope.
Theorem C03_rows_count (nls : nat) thetas draws :
  length thetas = length draws -> Forall (fun d => length d = nls) draws ->
  length (layout_rows thetas draws) = (length thetas * nls)%nat.
Proof. exact (layout_length nls thetas draws). Qed.

Theorem C03_row_position (nls : nat) thetas draws (n j : nat) t ds d :
  Forall (fun x => length x = nls) draws ->
  nth_error thetas n = Some t -> nth_error draws n = Some ds -> nth_error ds j = Some d ->
  nth_error (layout_rows thetas draws) (n * nls + j)%nat = Some (t ++ d).
Proof. exact (layout_nth nls thetas draws n j t ds d). Qed.

Theorem C03_rows_only_copies thetas draws row :
  In row (layout_rows thetas draws) ->
  exists n t ds d, nth_error thetas n = Some t /\ nth_error draws n = Some ds /\ In d ds /\ row = t ++ d.
Proof. exact (layout_sound thetas draws row). Qed.

Example C03_layout_ex :
  layout_rows ((1::2::nil) :: (3::4::nil) :: nil)%Q (((10::nil) :: (11::nil) :: nil) :: ((12::nil) :: (13::nil) :: nil) :: nil)%Q
  = ((1::2::10::nil) :: (1::2::11::nil) :: (3::4::12::nil) :: (3::4::13::nil) :: nil)%Q.
Proof. reflexivity. Qed.

Print Assumptions C03_same_state_as_marginal.
Print Assumptions C03_worker_posterior.
Print Assumptions C03_posterior_is_conditional.
Print Assumptions C03_layout_as_modelled.
Print Assumptions C03_posterior_mean.
Print Assumptions C03_exact_conditional.
Print Assumptions C03_rows_count.
Print Assumptions C03_row_position.
Print Assumptions C03_rows_only_copies.
