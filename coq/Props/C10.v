(* C10 -- Seeded runs are reproducible and randomness is confined to the given generator.  Statements only.
   Model/Rng.v: the generator as (parent stream position, spawn counter); the samplers' use of it is a
   sequence of draw / spawn calls.  The tie to the code is (a) a fail-closed static scan of every
   module (tools/rng_scan.py: all randomness flows through the rng parameter) and (b) dynamic runs:
   bit-identical repeats, untouched global state, recorded spawn keys compared with this model. *)
From Coq Require Import List Arith Bool.
From TJ Require Import Model.Rng Proofs.RngProofs.
Import ListNotations.

(* over ANY sequence of calls and batch counts, from any generator state: every child generator ever handed to a
   batch has its own key (no two batches or calls share a stream under numpy's spawn contract) ... *)
Theorem C10_child_keys_distinct cs g : NoDup (keys_of cs g).
Proof.
  unfold keys_of. destruct (run_calls cs g) as [[g' ds] ks] eqn:E.
  exact (proj2 (proj2 (proj2 (proj2 (proj2 (run_calls_bounds cs g g' ds ks E)))))).
Qed.

(* ... and successive calls read disjoint segments of the parent stream *)
Theorem C10_parent_segments_disjoint cs g : NoDup (draws_of cs g).
Proof.
  unfold draws_of. destruct (run_calls cs g) as [[g' ds] ks] eqn:E.
  exact (proj1 (proj2 (proj2 (proj2 (proj2 (run_calls_bounds cs g g' ds ks E)))))).
Qed.

(* keys handed out are exactly the next unused counters: nothing before the current state is ever re-issued *)
Theorem C10_keys_are_fresh cs g k : In k (keys_of cs g) -> (spawned g <= k)%nat.
Proof.
  unfold keys_of. destruct (run_calls cs g) as [[g' ds] ks] eqn:E. cbn [snd]. intros Hin.
  pose proof (proj1 (proj2 (proj2 (proj2 (run_calls_bounds cs g g' ds ks E))))) as H.
  rewrite Forall_forall in H. apply (H k Hin).
Qed.

(* non-vacuity: a rejection_sample call with 3 batches followed by one with 2: five distinct child keys *)
Example C10_ex : keys_of [CDraw 100; CSpawn 3; CDraw 100; CSpawn 2] (mk_gen 0 0) = [0; 1; 2; 3; 4].
Proof. vm_compute. reflexivity. Qed.

Print Assumptions C10_child_keys_distinct.
Print Assumptions C10_parent_segments_disjoint.
Print Assumptions C10_keys_are_fresh.
