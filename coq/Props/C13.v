(* C13 -- Failures propagate and never leak cache files or damage user files.  Statements only.
   [wrapper_skel] is the control-flow skeleton of utils.tempfile_decorator.wrapper, REGENERATED from
   the source on every run (tools/py2v_tempfile.py); [exec] (Model/TempFile.v) is its semantics over a
   file-system state with a fault injected at the k-th faultable step (writing the cache; the wrapped
   call, which stands for reading batches, the pool, the workers and unpacking -- all read-only by the
   extracted side condition).  Each run also injects faults into the real implementation. *)
From Coq Require Import List Bool Arith.
From TJ Require Import Model.TempFile Gen.TempfileSkel Proofs.TempProofs.

(* for every kind of input and every fault position (or none): no temporary cache file is left behind *)
Theorem C13_no_leak inp fault : no_leak (run wrapper_skel inp fault) = true.
Proof. exact (skel_no_leak inp fault). Qed.

(* ... and the user's file is untouched *)
Theorem C13_user_file_untouched inp fault : user_ok (run wrapper_skel inp fault) = true.
Proof. exact (skel_user_intact inp fault). Qed.
Theorem C13_bodies_open_readonly : body_opens_readonly = true.
Proof. exact readonly_side_condition. Qed.

(* a fault at any step on the path reaches the caller as that very exception *)
Theorem C13_propagates inp k :
  (k < n_faultable inp)%nat -> snd (run wrapper_skel inp (Some k)) = Raised (EFault k).
Proof. exact (skel_propagates inp k). Qed.

(* without a fault: the wrapped function's value is returned; a non-JokerSamples object is rejected *)
Theorem C13_normal inp :
  snd (run wrapper_skel inp None) = match inp with InBadType => Raised ETypeError | _ => Returned end.
Proof. exact (skel_normal inp). Qed.

(* re-entrancy: the file system is as before the call (no temp files, user file intact) whatever happened,
   so the next call starts from the same state as the first *)
Theorem C13_reentrant inp fault :
  temps (fst (run wrapper_skel inp fault)) = temps fs0 /\ user_intact (fst (run wrapper_skel inp fault)) = user_intact fs0.
Proof.
  split.
  - apply Nat.eqb_eq. exact (skel_no_leak inp fault).
  - exact (skel_user_intact inp fault).
Qed.

Theorem C13_never_falls_through inp fault : snd (run wrapper_skel inp fault) <> Normal.
Proof. exact (skel_never_falls_through inp fault). Qed.
Theorem C13_cache_present_when_used inp fault : snd (run wrapper_skel inp fault) <> Raised EMissingFile.
Proof. exact (skel_never_missing inp fault). Qed.

(* non-vacuity: the object path really creates a file and really has two faultable steps *)
Example C13_ex :
  temps (fst (exec (Seq Create Close) InObj None fs0)) = 1 /\
  snd (run wrapper_skel InObj (Some 1)) = Raised (EFault 1) /\ ticks (run wrapper_skel InObj None) = 2.
Proof. vm_compute. repeat split; reflexivity. Qed.

Print Assumptions C13_no_leak.
Print Assumptions C13_user_file_untouched.
Print Assumptions C13_bodies_open_readonly.
Print Assumptions C13_propagates.
Print Assumptions C13_normal.
Print Assumptions C13_reentrant.
Print Assumptions C13_never_falls_through.
Print Assumptions C13_cache_present_when_used.
