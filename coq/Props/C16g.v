(* C16 -- run_worker, regenerated from the source on every run (tools/py2v_runworker.py -> Gen/RunWorkerGen.v).
   Statements only; every proof is `exact <lemma>`.
     C16_rw_counts   the generated row / batch counts are the hand model's (Model/BatchSpec.v rw_n_samples, rw_n_batches); the
                     call raises exactly when both n_prior_samples and samples_idx are given
     C16_rw_chain    for every file size, option combination and pool size with at least one row and one batch: the tasks handed
                     to pool.map are a chain of non-empty contiguous ranges from 0 to the number of rows (or of the positions of
                     the supplied index array, in the supplied order), each carrying its own start, index-pair tasks without and array tasks with a supplied array -- C16_chain about the
                     generated batch_tasks, composed with the generated run_worker
     C16_rw_results  results are the pool's results in task order. *)
From Coq Require Import ZArith List Bool Lia.
From TJ Require Import Base.Imp Gen.BatchTasksGen Gen.RunWorkerGen Model.BatchSpec Proofs.BatchProofs Proofs.RunWorkerProofs.
Import ListNotations. Open Scope Z_scope.

Theorem C16_rw_counts file_rows n_prior idx_len n_batches pool_size :
  rw_n_samples_gen file_rows n_prior idx_len
    = (match n_prior, idx_len with Some _, Some _ => None | _, _ => Some (rw_n_samples file_rows n_prior idx_len) end)
  /\ rw_n_batches_gen n_batches pool_size = rw_n_batches n_batches pool_size.
Proof. exact (rw_gen_counts file_rows n_prior idx_len n_batches pool_size). Qed.

Theorem C16_rw_chain file_rows n_prior idx_len n_batches pool_size ts :
  rw_tasks_gen file_rows n_prior idx_len n_batches pool_size = Some ts ->
  1 <= rw_n_samples file_rows n_prior idx_len -> 1 <= rw_n_batches n_batches pool_size ->
  chain 0 (rw_n_samples file_rows n_prior idx_len) ts /\
  Forall (fun t => t_is_idx t = match idx_len with None => true | Some _ => false end) ts.
Proof. exact (rw_gen_chain file_rows n_prior idx_len n_batches pool_size ts). Qed.

Theorem C16_rw_results : rw_results_in_task_order = true.
Proof. reflexivity. Qed.

Example C16_rw_ex : rw_tasks_gen 37 None (Some 5) (Some 2) 0 = Some [TArr 0 3 0; TArr 3 5 3]
  /\ rw_tasks_gen 37 (Some 4) (Some 5) None 3 = None /\ rw_tasks_gen 7 None None None 0 = Some [TIdx 0 7 0].
Proof. vm_compute. repeat split; reflexivity. Qed.

Print Assumptions C16_rw_counts.
Print Assumptions C16_rw_chain.
