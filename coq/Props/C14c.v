(* C14 -- the loop bound of the iterative sampler as the SOURCE has it now (tools/consts2v.py -> Gen/ConstsGen.v): both the
   in-memory and the cache-file loop give up after the same number of iterations, which the per-run certificates use as the fuel
   of Model/Iterative.v (it_run); the theorems of Props/C14.v hold for every fuel.  Statement only. *)
From Coq Require Import QArith ZArith.
From Coq Require Import PrimFloat Uint63.
From TJ Require Import Gen.ConstsGen Proofs.GrowthCorner.

Theorem C14_loop_bounds_agree : maxiter_inmem_gen = maxiter_file_gen /\ (1 <= maxiter_inmem_gen)%nat.
Proof. split; [reflexivity|]. unfold maxiter_inmem_gen. repeat constructor. Qed.
(* the sampler's estimate of the next batch size: mathematically >= 1 (the loop cannot stall), but 0 in binary64 at
   safety_factor = n_need = 1, n_good = n_evals = 49 -- the early end Model/Iterative.v accepts through its flag early_ok *)
Theorem C14_growth_estimate_ge_1 (safety n_need n_good n_evals : Z) :
  (1 <= safety)%Z -> (1 <= n_need)%Z -> (1 <= n_good)%Z -> (n_good <= n_evals)%Z ->
  (1 <= inject_Z safety * inject_Z n_need / inject_Z n_good * inject_Z n_evals)%Q.
Proof. exact (growth_estimate_ge_1 safety n_need n_good n_evals). Qed.
Theorem C14_growth_estimate_float_corner :
  let est := PrimFloat.mul (PrimFloat.div (PrimFloat.mul (of_uint63 1) (of_uint63 1)) (of_uint63 49)) (of_uint63 49) in
  PrimFloat.ltb est (of_uint63 1) = true /\ PrimFloat.leb (of_uint63 0) est = true.
Proof. exact growth_estimate_float_corner. Qed.
Print Assumptions C14_loop_bounds_agree.
Print Assumptions C14_growth_estimate_ge_1.
Print Assumptions C14_growth_estimate_float_corner.
