(* C14 -- the loop bound of the iterative sampler as the SOURCE has it now (tools/consts2v.py -> Gen/ConstsGen.v): both the
   in-memory and the cache-file loop give up after the same number of iterations, which the per-run certificates use as the fuel
   of Model/Iterative.v (it_run); the theorems of Props/C14.v hold for every fuel.  Statement only. *)
From TJ Require Import Gen.ConstsGen.

Theorem C14_loop_bounds_agree : maxiter_inmem_gen = maxiter_file_gen /\ 1 <= maxiter_inmem_gen.
Proof. split; [reflexivity|]. unfold maxiter_inmem_gen. repeat constructor. Qed.
Print Assumptions C14_loop_bounds_agree.
