(* C18 -- JokerPrior.__init__'s validation loops and par_names as regenerated from the source on every run
   (tools/py2v_prior.py -> Gen/PriorGen.v).  Statements only.
     C18_validate_generated     the generated loops are the model validate_prior (same verdict, same first error)
     C18_accept_set_generated   they accept EXACTLY the priors in which every required parameter is present with a unit of the
                                canonical dimension and every linear and offset parameter has a Normal-family prior
     C18_par_names_generated    parameters are listed nonlinear, linear (K, v0, v1, ..), offsets (dv0_1, dv0_2, .. in numeric order) *)
From Coq Require Import List Bool Arith.
From TJ Require Import Model.Validate Gen.PriorGen Proofs.ValidateProofs Proofs.PriorGenProofs.
Import ListNotations.

Theorem C18_validate_generated decls poly noff : validate_prior_gen decls poly noff = validate_prior decls poly noff.
Proof. exact (validate_prior_gen_eq decls poly noff). Qed.

Theorem C18_accept_set_generated decls poly noff :
  validate_prior_gen decls poly noff = VOk <->
  (forall r, In r (required poly noff) -> present_ok decls r) /\
  (forall r, In r (linear_req poly ++ offset_req noff) -> normal_ok decls r).
Proof. exact (validate_prior_gen_exact decls poly noff). Qed.

Theorem C18_par_names_generated poly noff :
  par_names_gen poly noff = [nP; ne; nomega; nM0; ns] ++ (nK :: map nv (seq 0 poly)) ++ map ndv (seq 1 noff).
Proof. exact (par_names_gen_order poly noff). Qed.

Example C18g_ex : par_names_gen 2 11 = [0; 1; 2; 3; 4; 5; 10; 11; 101; 102; 103; 104; 105; 106; 107; 108; 109; 110; 111].
Proof. reflexivity. Qed.

Print Assumptions C18_validate_generated.
Print Assumptions C18_accept_set_generated.
Print Assumptions C18_par_names_generated.
