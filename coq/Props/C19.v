(* C19 -- Time-sampling diagnostics equal their definitions.  Statements only.
   Model/Diagnostics.v is the executable reading over exact rationals; each run Coq compares it
   with the implementation's floats (tolerance) on generated observation sets. *)
From Coq Require Import QArith ZArith List Bool Arith Permutation.
From TJ Require Import Base.Corr Base.XQ Base.ArgMax Model.Diagnostics Proofs.DiagProofs Proofs.DiagReverse Proofs.DiagCoverage.
Import ListNotations.
Open Scope Q_scope.

Section MPG.
  Variables tref P : Q.
  Variable ts : list Q.
  Hypothesis Hne : ts <> [].
  Let arcs := gaps (qsort (map (phase tref P) ts)).
  Let mpg := max_phase_gap tref P ts.

  (* the arcs between consecutive observations (including the one across phase 1 -> 0) tile the circle *)
  Theorem C19_arcs_sum_one : qsum arcs == 1.
  Proof. exact (mpg_arcs_sum_one tref P ts Hne). Qed.
  Theorem C19_arcs_nonneg x : In x arcs -> 0 <= x.
  Proof. exact (mpg_arcs_nonneg tref P ts x). Qed.
  Theorem C19_one_arc_per_observation : length arcs = length ts.
  Proof. unfold arcs. rewrite length_gaps, (Permutation_length (qsort_perm _)), map_length. reflexivity. Qed.
  (* max_phase_gap is the largest of them *)
  Theorem C19_mpg_ge_each x : In x arcs -> x <= mpg.
  Proof. exact (mpg_ge_each tref P ts x). Qed.
  Theorem C19_mpg_is_an_arc : In mpg arcs.
  Proof. exact (mpg_is_an_arc tref P ts Hne). Qed.
  Theorem C19_mpg_bounds : 1 <= inject_Z (Z.of_nat (length ts)) * mpg /\ mpg <= 1.
  Proof. exact (conj (mpg_ge_inv_n tref P ts Hne) (mpg_le_one tref P ts Hne)). Qed.
End MPG.

Theorem C19_phase_range tref P t : 0 <= phase tref P t /\ phase tref P t < 1.
Proof. exact (phase_range tref P t). Qed.

(* none of the phase diagnostics depends on the order of the observations *)
Theorem C19_mpg_order_independent tref P ts ts' :
  Permutation ts ts' -> max_phase_gap tref P ts = max_phase_gap tref P ts'.
Proof. exact (mpg_perm_invariant tref P ts ts'). Qed.
Theorem C19_coverage_order_independent tref P n ts ts' :
  Permutation ts ts' -> phase_coverage tref P n ts = phase_coverage tref P n ts'.
Proof. exact (coverage_perm_invariant tref P n ts ts'). Qed.
(* time reversal of the observing pattern, t -> a - t (a arbitrary, e.g. t_max + t_min), with ANY reference epochs before and
   after: the largest empty arc is the same number; in particular it does not depend on the reference epoch at all *)
Theorem C19_mpg_time_reversal tref tref0 P a ts :
  ~ P == 0 -> max_phase_gap tref P (map (fun t => a - t) ts) == max_phase_gap tref0 P ts.
Proof. exact (mpg_time_reversal tref tref0 P a ts). Qed.
Theorem C19_mpg_shift_invariant tref tref' P ts :
  ~ P == 0 -> max_phase_gap tref P ts == max_phase_gap tref' P ts.
Proof. exact (mpg_shift_invariant tref tref' P ts). Qed.
(* phase_coverage bounds: an observation occupies exactly one bin, so between 1 and min(n_bins, n_obs) bins are occupied *)
Theorem C19_coverage_at_most_obs n ph : (occupied n ph <= length ph)%nat.
Proof. exact (occupied_le_obs n ph). Qed.
Theorem C19_coverage_at_least_one n ph :
  (0 < n)%nat -> ph <> [] -> (forall p, In p ph -> 0 <= p /\ p < 1) -> (1 <= occupied n ph)%nat.
Proof. exact (occupied_pos n ph). Qed.
Theorem C19_coverage_counts_bins n ph : (occupied n ph <= n)%nat.
Proof. exact (occupied_le n ph). Qed.

(* MAP_sample: the returned row maximises ln_prior + ln_likelihood (in the IEEE order, -inf lowest), and is the first such row *)
Theorem C19_map_is_max (l : list XQ) : l <> [] ->
  let r := gargmax xq_leb l in
  (r < length l)%nat /\ (forall i, (i < length l)%nat -> xq_leb (nth i l XNInf) (nth r l XNInf) = true) /\
  (forall i, (i < r)%nat -> xq_leb (nth r l XNInf) (nth i l XNInf) = false).
Proof. exact (map_index_spec l). Qed.

(* non-vacuity: phases .4 .5 .6 -- the largest empty arc is the one across the wrap, 0.8 *)
Example C19_ex_wrap : max_phase_gap 0 1 [(4#10); (6#10); (5#10)] == (8#10).
Proof. vm_compute. reflexivity. Qed.
Example C19_ex_reversal : max_phase_gap 0 1 (map (fun t => (7#2) - t) [(4#10); (6#10); (5#10)]) == (8#10).
Proof. vm_compute. reflexivity. Qed.
Example C19_ex_map : map_index [XFin (1#1); XNInf; XFin (0#1); XFin (2#1)] [XFin (1#1); XFin (9#1); XFin (3#1); XFin (1#1)] = 2%nat.
Proof. vm_compute. reflexivity. Qed.
Example C19_ex_cov : phase_coverage 0 1 10 [(4#10); (6#10); (5#10); (55#100)] == (3#10).
Proof. vm_compute. reflexivity. Qed.

Print Assumptions C19_arcs_sum_one.
Print Assumptions C19_arcs_nonneg.
Print Assumptions C19_one_arc_per_observation.
Print Assumptions C19_mpg_ge_each.
Print Assumptions C19_mpg_is_an_arc.
Print Assumptions C19_mpg_bounds.
Print Assumptions C19_phase_range.
Print Assumptions C19_mpg_order_independent.
Print Assumptions C19_coverage_order_independent.
Print Assumptions C19_mpg_time_reversal.
Print Assumptions C19_mpg_shift_invariant.
Print Assumptions C19_coverage_counts_bins.
Print Assumptions C19_coverage_at_most_obs.
Print Assumptions C19_coverage_at_least_one.
Print Assumptions C19_map_is_max.
