(* C12 (and the index-array path of C05 / C06) -- the batch readers regenerated from the source on every run
   (tools/py2v_readbatch.py -> Gen/ReadBatchGen.v) return the rows of the row model of Model/Store.v.  Statements only.
     C12_read_batch_idx_generated    read_batch_idx, column by column with read_coordinates, = read_idx + convert_row
     C12_read_batch_slice_generated  read_batch_slice, column by column with read(start, stop, step), = read_slice + convert_row
     C12_read_batch_dispatch         tuple / slice -> that range; array -> those rows; int -> the rows the generator chose; else raise
     C12_idx_rows_in_given_order     row j of the batch is table row idx[j] (requested columns, converted), and there are len(idx) rows *)
From Coq Require Import QArith List Arith.
From TJ Require Import Base.XQ Model.Store Model.NpStore Gen.ReadBatchGen Proofs.ReadBatchGenProofs.
Import ListNotations.

Theorem C12_read_batch_idx_generated t cols idx fs :
  read_batch_idx_gen t cols idx fs = map (convert_row fs) (read_idx t cols idx).
Proof. exact (read_batch_idx_gen_eq t cols idx fs). Qed.

Theorem C12_read_batch_slice_generated t cols lo hi step fs :
  read_batch_slice_gen t cols lo hi step fs = map (convert_row fs) (read_slice t cols lo hi step).
Proof. exact (read_batch_slice_gen_eq t cols lo hi step fs). Qed.

Theorem C12_read_batch_dispatch choice t cols a fs :
  read_batch_gen choice t cols a fs =
  match a with
  | RbTuple lo hi step | RbSlice lo hi step => Some (map (convert_row fs) (read_slice t cols lo hi step))
  | RbInt size => Some (map (convert_row fs) (read_idx t cols (choice (length (t_rows t)) size)))
  | RbArray idx => Some (map (convert_row fs) (read_idx t cols idx))
  | RbOther => None
  end.
Proof. exact (read_batch_gen_spec choice t cols a fs). Qed.

Theorem C12_idx_rows_in_given_order t cols idx fs :
  length (read_batch_idx_gen t cols idx fs) = length idx /\
  forall j, (j < length idx)%nat ->
    nth j (read_batch_idx_gen t cols idx fs) [] = convert_row fs (pick_cols (t_hdr t) cols (nth (nth j idx 0%nat) (t_rows t) [])).
Proof. exact (conj (read_batch_idx_gen_length t cols idx fs) (read_batch_idx_gen_nth t cols idx fs)). Qed.

Example C12_readbatch_ex :
  let t := mk_tbl [(0, 0); (1, 0)]%nat (mk_meta None 0 0)
                  [[XFin 1; XFin 10]; [XFin 2; XFin 20]; [XFin 3; XFin 30]] in
  read_batch_idx_gen t [1; 0]%nat [2; 0]%nat [1; 2]
  = [[XFin (30 * 1); XFin (3 * 2)]; [XFin (10 * 1); XFin (1 * 2)]].
Proof. vm_compute. reflexivity. Qed.

Print Assumptions C12_read_batch_idx_generated.
Print Assumptions C12_read_batch_slice_generated.
Print Assumptions C12_read_batch_dispatch.
Print Assumptions C12_idx_rows_in_given_order.
