(* C01 -- the marginal log-likelihood equals the analytic Gaussian marginal.
   Statements only; every proof is `exact <lemma>`.

   What is proved here, for ALL dimensions / inputs:
     (a) about the kernel model GENERATED from fast_likelihood.pyx on every run (Gen/KernelPyx.v):
         jitter folding (get_ivar), the mu/Lambda slots of __init__, P0's unit, and that the marginal, posterior and test
         entry points hand the same per-sample state (K column, jittered inverse variances, capped K variance) to the worker;
     (b) about the algorithm the worker implements, in matrix form over any field (MathComp): the Woodbury expression the
         worker uses for B^-1 is the inverse of B = C_s + M Lambda M^T, and the determinant identities.
     (c) about the generated loop nests (Proofs/KernelLoops.v, all sizes, every initial state): C01_worker_value -- if the
         inversion oracle returns Y for the matrix Ainv[i,j] = delta_ij / Lambda_i + sum_n M_T[j,n] w_n M_T[i,n] and the LU oracle
         returns U for B[n,m] = delta_nm / w_n + sum_i M_T[i,n] Lambda_i M_T[i,m], the worker returns
         -1/2 (chi^2 + sum_i ln(2 pi |U_ii|)) with chi^2 = sum_nm (b_m - y_m) Binv[n,m] (b_n - y_n), b = M mu and
         Binv[n,m] = delta_nm w_n - sum_ij w_n M_T[i,n] Y[i,j] M_T[j,m] w_m -- sums in the loops' own order, no ring law used.
   What is NOT proved (partial): the passage from those loop-order sums to the MathComp matrices of (b) (a bigop bridge), the
   LAPACK oracles' specifications, floating point.  Each generated input is still certified end to end by Coq
   (Model/KernelRun.v check_code bit 1: exact equality of chi^2, |det B|, B, B^-1, a, Ainv with the closed form). *)
From mathcomp Require Import all_ssreflect all_fingroup all_algebra.
From Coq Require Import ZArith.
From TJ Require Import Base.Imp Base.Fops Gen.KernelPyx Proofs.KernelChar Proofs.KernelBridge Proofs.KernelAlg Proofs.KernelLoops.
Set Implicit Arguments. Unset Strict Implicit. Unset Printing Implicit Defensive.
Import GRing.Theory.
Local Open Scope ring_scope.

(* ---------- (a) generated code ---------- *)
Theorem C01_jitter_cells {F} (fo : fops F) (len : Z) (ivar new_ivar : arr1 F) (s : F) :
  (0 <= len)%Z ->
  forall i : nat, get_ivar fo len ivar s new_ivar i = if (Z.of_nat i <? len)%Z then jittered fo ivar s i else new_ivar i.
Proof. exact (@get_ivar_char F fo len ivar s new_ivar). Qed.

Theorem C01_jitter_is_added_variance (F : fieldType) lg pi_ pw mn ab inf (len : Z) (ivar new_ivar : arr1 F) (s : F) (i : nat) :
  (0 <= len)%Z -> (Z.of_nat i < len)%Z -> ivar i != 0 -> 1 + s * s * ivar i != 0 ->
  (get_ivar (mc_fops lg pi_ pw mn ab inf) len ivar s new_ivar i)^-1 = (ivar i)^-1 + s * s.
Proof. exact (@get_ivar_variance F lg pi_ pw mn ab inf len ivar new_ivar s i). Qed.

Theorem C01_slot_mean fixedK noff i nm :
  (nm = NK -> i = 0%Z) -> (nm = Nv O -> i = 1%Z) ->
  fst (fst (linear_slot fixedK noff i nm)) = Some (column_of noff i nm).
Proof. exact (slot_mean fixedK noff i nm). Qed.

Theorem C01_slot_var fixedK noff i nm :
  (nm = NK -> i = 0%Z) -> (nm = Nv O -> i = 1%Z) ->
  snd (fst (linear_slot fixedK noff i nm)) = if is_K nm && (fixedK =? 0)%Z then None else Some (column_of noff i nm).
Proof. exact (slot_var fixedK noff i nm). Qed.

Theorem C01_slot_offset noff i : offset_slot noff i = (2 + i)%Z.
Proof. exact (slot_offset noff i). Qed.

Theorem C01_slots_distinct noff (i j : nat) :
  (0 <= noff)%Z ->
  let col (p : nat) := column_of noff (Z.of_nat p) (match p with O => NK | S q => Nv q end) in
  i <> j -> col i <> col j.
Proof. exact (slots_injective noff i j). Qed.

Theorem C01_slots_miss_offsets noff (i : nat) (k : Z) :
  (0 <= k < noff)%Z ->
  column_of noff (Z.of_nat i) (match i with O => NK | S q => Nv q end) <> offset_slot noff k.
Proof. exact (slots_vs_offsets noff i k). Qed.

Theorem C01_P0_in_days : p0_in_kernel_period_unit = true.
Proof. exact P0_in_days. Qed.

Theorem C01_same_state_on_all_paths {F} (fo : fops F) (orc : oracles F) (nt nl fk : Z) (sK0 P0 mK t0 : F) :
  exists prelude : arr1 F -> kst -> kst,
    (forall row s, k_marginal_one fo orc nt nl fk sK0 P0 mK t0 row s = likelihood_worker fo orc nt nl 0 (prelude row s)) /\
    (forall row s, k_posterior_one fo orc nt nl fk sK0 P0 mK t0 row s = likelihood_worker fo orc nt nl 1 (prelude row s)) /\
    (forall row s, k_test_worker_one fo orc nt nl fk sK0 P0 mK t0 row s = likelihood_worker fo orc nt nl 1 (prelude row s)).
Proof. exact (posterior_same_prelude fo orc nt nl fk sK0 P0 mK t0). Qed.

(* ---------- (c) the generated loop nests, all sizes, every initial state ---------- *)
Theorem C01_worker_value {F} (fo : fops F) (orc : oracles F) (nt nl : nat) (s0 : kst) (Y U : arr2 F) :
  o_inv orc nl (Atmp_arg fo nt nl s0) = Some Y ->
  o_lu orc nt (Btmp_arg fo nt nl s0) = Some U ->
  snd (likelihood_worker fo orc (Z.of_nat nt) (Z.of_nat nl) 0%Z s0)
  = pvalue fo nt nl (v_M_T s0) (v_s_ivar s0) (v_mu s0) (v_rv s0) Y U.
Proof. exact (worker_value_marginal fo orc nt nl s0 Y U). Qed.

(* ---------- (b) the algorithm, all dimensions ---------- *)
Section Alg.
Variables (F : fieldType) (n k : nat).
Variables (M : 'M[F]_(n, k)) (C Ci : 'M[F]_n) (L Li A : 'M[F]_k).
Hypothesis HC : C *m Ci = 1%:M.
Hypothesis HL : L *m Li = 1%:M.
Hypothesis HA : (Li + M^T *m Ci *m M) *m A = 1%:M.

(* the matrix the worker builds as Binv is the inverse of the matrix it builds as B *)
Theorem C01_woodbury : (C + M *m L *m M^T) *m (Ci - Ci *m M *m A *m M^T *m Ci) = 1%:M.
Proof. exact (woodbury HC HL HA). Qed.

Theorem C01_det : \det (C + M *m L *m M^T) = \det C * \det L * \det (Li + M^T *m Ci *m M).
Proof. exact (det_B M HC HL). Qed.
End Alg.

Print Assumptions C01_jitter_cells.
Print Assumptions C01_jitter_is_added_variance.
Print Assumptions C01_slot_mean.
Print Assumptions C01_slot_var.
Print Assumptions C01_slot_offset.
Print Assumptions C01_slots_distinct.
Print Assumptions C01_slots_miss_offsets.
Print Assumptions C01_P0_in_days.
Print Assumptions C01_same_state_on_all_paths.
Print Assumptions C01_worker_value.
Print Assumptions C01_woodbury.
Print Assumptions C01_det.
