(* C01 -- the marginal log-likelihood equals the analytic Gaussian marginal.
   Statements only; every proof is `exact <lemma>`.

   What is proved here, for ALL dimensions / inputs:
     (a) about the kernel model GENERATED from fast_likelihood.pyx on every run (Gen/KernelPyx.v):
         jitter folding (get_ivar), the mu/Lambda slots of __init__, P0's unit, and that the marginal, posterior and test
         entry points hand the same per-sample state (K column, jittered inverse variances, capped K variance) to the worker;
     (b) about the algorithm the worker implements, in matrix form over any field (MathComp): the Woodbury expression the
         worker uses for B^-1 is the inverse of B = C_s + M Lambda M^T, and the determinant identities.
     (c) about the generated loop nests (Proofs/KernelLoops.v, all sizes, every initial state): C01_worker_value -- if the
         inversion oracle returns Y for the matrix Ainv[i,j] = delta_ij / Lambda_i + sum_n M_T[j,n] w_n M_T[i,n] and the LU oracle
         returns U for B[n,m] = delta_nm / w_n + sum_i M_T[i,n] Lambda_i M_T[i,m], the worker returns
         -1/2 (chi^2 + sum_i ln(2 pi |U_ii|)) with chi^2 = sum_nm (b_m - y_m) Binv[n,m] (b_n - y_n), b = M mu and
         Binv[n,m] = delta_nm w_n - sum_ij w_n M_T[i,n] Y[i,j] M_T[j,m] w_m -- sums in the loops' own order, no ring law used.
     (d) C01_marginal_is_gaussian (Proofs/KernelBridge2.v): (a)-(c) put together over any MathComp field, for every number of
         epochs and linear parameters and every state: the value returned by the generated entry point of one sample
         (prelude: K column from the Kepler oracle, jitter folded into the inverse variances, K-prior variance by the declared rule
         with its cap; then the worker) is  -1/2 ( r^T B^-1 r + sum_i ln(2 pi |U_ii|) )  with r = M mu - y,
         B = diag(1/w) + M Lambda M^T, w = the jittered inverse variances (1/w = sigma^2 + s^2 by C01_jitter_is_added_variance),
         B^-1 a two-sided inverse of B -- provided the inversion oracle returned a right inverse of Lambda^-1 + M^T C_s^-1 M.
   What remains assumed (partial): the LU oracle's diagonal gives ln|det B| (LAPACK contract; the determinant identities of (b)
   say what det B is), the oracles succeed, IEEE rounding.  Each generated input is additionally certified end to end by Coq
   (Model/KernelRun.v check_code bit 1: exact equality of chi^2, |det B|, B, B^-1, a, Ainv with the closed form, where the
   executable oracles are exact Gauss-Jordan and |det B| is compared exactly). *)
From mathcomp Require Import all_ssreflect all_fingroup all_algebra.
From Coq Require Import ZArith.
From TJ Require Import Base.Imp Base.Fops Gen.KernelPyx Proofs.KernelChar Proofs.KernelBridge Proofs.KernelAlg Proofs.KernelLoops Proofs.KernelPrelude Proofs.KernelBridge2.
Set Implicit Arguments. Unset Strict Implicit. Unset Printing Implicit Defensive.
Import GRing.Theory.
Local Open Scope ring_scope.

(* ---------- (a) generated code ---------- *)
Theorem C01_jitter_cells {F} (fo : fops F) (len : Z) (ivar new_ivar : arr1 F) (s : F) :
  (0 <= len)%Z ->
  forall i : nat, get_ivar fo len ivar s new_ivar i = if (Z.of_nat i <? len)%Z then jittered fo ivar s i else new_ivar i.
Proof. exact (@get_ivar_char F fo len ivar s new_ivar). Qed.

Theorem C01_jitter_is_added_variance (F : fieldType) lg pi_ pw mn ab inf (len : Z) (ivar new_ivar : arr1 F) (s : F) (i : nat) :
  (0 <= len)%Z -> (Z.of_nat i < len)%Z -> ivar i != 0 -> 1 + s * s * ivar i != 0 ->
  (get_ivar (mc_fops lg pi_ pw mn ab inf) len ivar s new_ivar i)^-1 = (ivar i)^-1 + s * s.
Proof. exact (@get_ivar_variance F lg pi_ pw mn ab inf len ivar new_ivar s i). Qed.

Theorem C01_slot_mean fixedK noff i nm :
  (nm = NK -> i = 0%Z) -> (nm = Nv O -> i = 1%Z) ->
  fst (fst (linear_slot fixedK noff i nm)) = Some (column_of noff i nm).
Proof. exact (slot_mean fixedK noff i nm). Qed.

Theorem C01_slot_var fixedK noff i nm :
  (nm = NK -> i = 0%Z) -> (nm = Nv O -> i = 1%Z) ->
  snd (fst (linear_slot fixedK noff i nm)) = if is_K nm && (fixedK =? 0)%Z then None else Some (column_of noff i nm).
Proof. exact (slot_var fixedK noff i nm). Qed.

Theorem C01_slot_offset noff i : offset_slot noff i = (2 + i)%Z.
Proof. exact (slot_offset noff i). Qed.

Theorem C01_slots_distinct noff (i j : nat) :
  (0 <= noff)%Z ->
  let col (p : nat) := column_of noff (Z.of_nat p) (match p with O => NK | S q => Nv q end) in
  i <> j -> col i <> col j.
Proof. exact (slots_injective noff i j). Qed.

Theorem C01_slots_miss_offsets noff (i : nat) (k : Z) :
  (0 <= k < noff)%Z ->
  column_of noff (Z.of_nat i) (match i with O => NK | S q => Nv q end) <> offset_slot noff k.
Proof. exact (slots_vs_offsets noff i k). Qed.

Theorem C01_P0_in_days : p0_in_kernel_period_unit = true.
Proof. exact P0_in_days. Qed.

Theorem C01_same_state_on_all_paths {F} (fo : fops F) (orc : oracles F) (nt nl fk : Z) (sK0 P0 mK t0 : F) :
  exists prelude : arr1 F -> kst -> kst,
    (forall row s, k_marginal_one fo orc nt nl fk sK0 P0 mK t0 row s = likelihood_worker fo orc nt nl 0 (prelude row s)) /\
    (forall row s, k_posterior_one fo orc nt nl fk sK0 P0 mK t0 row s = likelihood_worker fo orc nt nl 1 (prelude row s)) /\
    (forall row s, k_test_worker_one fo orc nt nl fk sK0 P0 mK t0 row s = likelihood_worker fo orc nt nl 1 (prelude row s)).
Proof. exact (posterior_same_prelude fo orc nt nl fk sK0 P0 mK t0). Qed.

(* ---------- (c) the generated loop nests, all sizes, every initial state ---------- *)
Theorem C01_worker_value {F} (fo : fops F) (orc : oracles F) (nt nl : nat) (s0 : kst) (Y U : arr2 F) :
  o_inv orc nl (Atmp_arg fo nt nl s0) = Some Y ->
  o_lu orc nt (Btmp_arg fo nt nl s0) = Some U ->
  snd (likelihood_worker fo orc (Z.of_nat nt) (Z.of_nat nl) 0%Z s0)
  = pvalue fo nt nl (v_M_T s0) (v_s_ivar s0) (v_mu s0) (v_rv s0) Y U.
Proof. exact (worker_value_marginal fo orc nt nl s0 Y U). Qed.

(* ---------- (b) the algorithm, all dimensions ---------- *)
Section Alg.
Variables (F : fieldType) (n k : nat).
Variables (M : 'M[F]_(n, k)) (C Ci : 'M[F]_n) (L Li A : 'M[F]_k).
Hypothesis HC : C *m Ci = 1%:M.
Hypothesis HL : L *m Li = 1%:M.
Hypothesis HA : (Li + M^T *m Ci *m M) *m A = 1%:M.

(* the matrix the worker builds as Binv is the inverse of the matrix it builds as B *)
Theorem C01_woodbury : (C + M *m L *m M^T) *m (Ci - Ci *m M *m A *m M^T *m Ci) = 1%:M.
Proof. exact (woodbury HC HL HA). Qed.

Theorem C01_det : \det (C + M *m L *m M^T) = \det C * \det L * \det (Li + M^T *m Ci *m M).
Proof. exact (det_B M HC HL). Qed.
End Alg.

(* ---------- (d) everything together ---------- *)
Section Capstone.
Variable (F : fieldType).
Variables (lg : F -> F) (pi_ : F) (pw : F -> F) (mn : F -> F -> F) (ab : F -> F) (inf : F).
Variables (orc : oracles F) (nt nl : nat) (fk : Z) (sK0 P0 mK t0 : F) (row : arr1 F).
Let fo := mc_fops lg pi_ pw mn ab inf.

Theorem C01_prelude_marginal (s : kst (F := F)) :
  k_marginal_one fo orc (Z.of_nat nt) (Z.of_nat nl) fk sK0 P0 mK t0 row s
  = likelihood_worker fo orc (Z.of_nat nt) (Z.of_nat nl) 0%Z (prelude_state fo orc nt fk sK0 P0 mK t0 row s).
Proof. exact (marginal_one_prelude fo orc nt nl fk sK0 P0 mK t0 row s). Qed.

(* what the prelude leaves for the worker: jittered inverse variances on every epoch, the K-variance rule with its cap in slot 0 *)
Theorem C01_prelude_s_ivar (s : kst (F := F)) (n : nat) :
  v_s_ivar (prelude_state fo orc nt fk sK0 P0 mK t0 row s) n
  = if (Z.of_nat n <? Z.of_nat nt)%Z then jittered fo (v_ivar s) (row 4%N) n else v_s_ivar s n.
Proof. exact (prelude_s_ivar fo orc nt fk sK0 P0 mK t0 row s n). Qed.
Theorem C01_prelude_Lambda (s : kst (F := F)) (i : nat) :
  v_Lambda (prelude_state fo orc nt fk sK0 P0 mK t0 row s) i
  = if (fk =? 0)%Z && Nat.eqb i 0 then K_var_rule fo sK0 P0 mK (row 0%N) (row 1%N) else v_Lambda s i.
Proof. exact (prelude_Lambda fo orc nt fk sK0 P0 mK t0 row s i). Qed.

Theorem C01_marginal_is_gaussian (s : kst (F := F)) (Y U : arr2 F) :
  let s1 := prelude_state fo orc nt fk sK0 P0 mK t0 row s in
  o_inv orc nl (Atmp_arg fo nt nl s1) = Some Y ->
  o_lu orc nt (Btmp_arg fo nt nl s1) = Some U ->
  (forall n : 'I_nt, v_s_ivar s1 n != 0) -> (forall i : 'I_nl, v_Lambda s1 i != 0) ->
  mx2 nl nl (pAinv fo nt (v_M_T s1) (v_s_ivar s1) (v_Lambda s1)) *m mx2 nl nl Y = 1%:M ->
  let B := dg nt (fun n => (v_s_ivar s1 n)^-1) + Mx nt nl (v_M_T s1) *m dg nl (v_Lambda s1) *m (Mx nt nl (v_M_T s1))^T in
  let r := resid nt nl (v_M_T s1) (v_mu s1) (v_rv s1) in
  exists Bi : 'M[F]_nt,
    B *m Bi = 1%:M /\ Bi *m B = 1%:M /\
    snd (k_marginal_one fo orc (Z.of_nat nt) (Z.of_nat nl) fk sK0 P0 mK t0 row s)
    = - (2%:R)^-1 * ((r^T *m Bi *m r) ord0 ord0 + logdet_val fo nt U).
Proof. exact (@marginal_one_is_gaussian F lg pi_ pw mn ab inf orc nt nl fk sK0 P0 mK t0 row s Y U). Qed.
End Capstone.

Print Assumptions C01_prelude_marginal.
Print Assumptions C01_prelude_s_ivar.
Print Assumptions C01_prelude_Lambda.
Print Assumptions C01_marginal_is_gaussian.
Print Assumptions C01_jitter_cells.
Print Assumptions C01_jitter_is_added_variance.
Print Assumptions C01_slot_mean.
Print Assumptions C01_slot_var.
Print Assumptions C01_slot_offset.
Print Assumptions C01_slots_distinct.
Print Assumptions C01_slots_miss_offsets.
Print Assumptions C01_P0_in_days.
Print Assumptions C01_same_state_on_all_paths.
Print Assumptions C01_worker_value.
Print Assumptions C01_woodbury.
Print Assumptions C01_det.
