(* C16 -- Work partitioning covers every prior sample exactly once, in order.
   Statements only; every proof is `exact <lemma of Proofs/BatchProofs.v>`.
   The function reasoned about, [batch_tasks_gen], is regenerated from thejoker/utils.py on every
   run (tools/py2v_batch.py). *)
From Coq Require Import ZArith List Bool.
From TJ Require Import Base.Imp Gen.BatchTasksGen Model.BatchSpec Proofs.BatchProofs.
Import ListNotations. Open Scope Z_scope.

Section C16.
  Variables n_tasks n_batches start : Z.
  Variable arr_is_none : bool.
  Hypothesis Ht : 1 <= n_tasks.
  Hypothesis Hb : 1 <= n_batches.
  Hypothesis Hs : 0 <= start.
  Let ts := batch_tasks_gen n_tasks n_batches start arr_is_none.

  (* contiguous, each non-empty, first starts at start, last ends at start+n_tasks, ids = own start *)
  Theorem C16_chain : chain start (start + n_tasks) ts.
  Proof. exact (bt_chain n_tasks n_batches start arr_is_none Hb Ht). Qed.

  Theorem C16_nonempty : ts <> [].
  Proof. exact (bt_nonempty n_tasks n_batches start arr_is_none Hb Ht). Qed.

  Theorem C16_count : Z.of_nat (length ts) = if n_batches <=? n_tasks then n_batches else 1.
  Proof. exact (bt_count n_tasks n_batches start arr_is_none Hb Ht). Qed.

  Theorem C16_balanced : exists base, Forall (size_ok base) ts.
  Proof. exact (bt_balanced n_tasks n_batches start arr_is_none Hb Ht). Qed.

  Theorem C16_kind : Forall (fun t => t_is_idx t = arr_is_none) ts.
  Proof. exact (bt_kind n_tasks n_batches start arr_is_none Hb Ht). Qed.

  (* consequences: exact cover, disjoint and ordered *)
  Theorem C16_cover x : start <= x < start + n_tasks -> exists t, In t ts /\ t_lo t <= x < t_hi t.
  Proof. exact (chain_cover _ _ ts x C16_chain). Qed.

  Theorem C16_inside t : In t ts -> start <= t_lo t /\ t_hi t <= start + n_tasks.
  Proof. exact (chain_bounds _ _ ts t C16_chain). Qed.

  Theorem C16_ordered ts1 t1 ts2 t2 ts3 :
    ts = ts1 ++ t1 :: ts2 ++ t2 :: ts3 -> t_hi t1 <= t_lo t2.
  Proof. intros E. apply (chain_ordered start (start + n_tasks) ts1 t1 ts2 t2 ts3). rewrite <- E. exact C16_chain. Qed.

  Theorem C16_ids : Forall (fun t => t_id t = t_lo t) ts.
  Proof. exact (chain_ids _ _ ts C16_chain). Qed.

  (* explicit index array: concatenating the batches in task order gives exactly arr[start:start+n_tasks] *)
  Theorem C16_arr {A} (arr : list A) :
    concat (map (task_rows arr) ts) = pyslice arr start (start + n_tasks).
  Proof. exact (chain_concat arr _ _ ts Hs C16_chain). Qed.
End C16.

(* non-vacuity: a concrete instance with a remainder and with n_batches > n_tasks *)
Example C16_ex1 : batch_tasks_gen 7 3 5 true = [TIdx 5 8 5; TIdx 8 10 8; TIdx 10 12 10].
Proof. vm_compute. reflexivity. Qed.
Example C16_ex2 : batch_tasks_gen 2 5 1 false = [TArr 1 3 1].
Proof. vm_compute. reflexivity. Qed.

Print Assumptions C16_chain.
Print Assumptions C16_nonempty.
Print Assumptions C16_count.
Print Assumptions C16_balanced.
Print Assumptions C16_kind.
Print Assumptions C16_cover.
Print Assumptions C16_inside.
Print Assumptions C16_ordered.
Print Assumptions C16_ids.
Print Assumptions C16_arr.
