(* C05 over SCHEDULES -- statements only; every proof is `exact <lemma>`.
   Model/Sched.v: a pool of workers, each with PRIVATE state (its own copy of the helper: scratch buffers, locals, per-sample
   slots, whatever earlier tasks left behind); a schedule is any list of (worker, task) completion events; pool.map puts the
   result of task i into slot i.
     C05_pool_any_schedule          (abstract) if a task's result does not depend on the worker's private state, every complete
                                    schedule -- any assignment of tasks to workers, any completion order -- yields the per-task
                                    values in task order.
     C05_marginal_every_schedule    the GENERATED kernel (Gen/KernelPyx.v), tasks = batches of prior-sample rows evaluated one after
                                    the other on the worker's helper copy: for all worker states that agree with a fresh helper w0
                                    on the configuration (design matrix outside the K row, inverse variances, prior means and
                                    variances, velocities; everything else arbitrary) and EVERY complete schedule, slot i holds the
                                    values w0 computes for the rows of batch i.
     C05_file_path_every_schedule   ... with the batches batch_tasks (generated from utils.py) cuts the library into, for every
                                    n_batches >= 1: the concatenation in task order is the per-row values in library order.
   Assumed: the LAPACK oracles succeed on every per-sample system and read only their n x n block (oracles_local; proved of the
   executable oracles, C05_executable_oracles_local); schwimmbad's pool.map returns slot i for task i (that is the model).
   What stays outside: real OS scheduling can only choose AMONG these schedules; crashes of a worker process are not modelled. *)
From Coq Require Import ZArith List Bool Arith.
From TJ Require Import Base.Imp Base.Fops Gen.KernelPyx Gen.BatchTasksGen Model.BatchSpec Model.Sched Proofs.KernelChar Proofs.KernelLoops
  Proofs.KernelPrelude Proofs.SchedProofs Proofs.KernelSched.
Import ListNotations.

Theorem C05_pool_any_schedule (W T R : Type) (step : W -> T -> W * R) (f : T -> R) (tasks : list T) (ws : list W) (sch : list (nat * nat)) :
  (forall st t, snd (step st t) = f t) ->
  complete (length tasks) (length ws) sch ->
  pool_map W T R step tasks ws sch = map (fun t => Some (f t)) tasks.
Proof. exact (fun H => pool_map_schedule_independent W T R step f H tasks ws sch). Qed.

Theorem C05_marginal_every_schedule {F} (fo : fops F) (orc : oracles F) (nt nl : nat) (fk : Z) (sK0 P0 mK t0 : F)
    (w0 : kst) (batches : list (list (arr1 F))) (ws : list kst) (sch : list (nat * nat)) :
  (forall row s, exists Y U, o_inv orc nl (Atmp_arg fo nt nl (pre fo orc nt fk sK0 P0 mK t0 row s)) = Some Y /\
                             o_lu orc nt (Btmp_arg fo nt nl (pre fo orc nt fk sK0 P0 mK t0 row s)) = Some U) ->
  oracles_local orc ->
  Forall (cfg_eq nt fk w0) ws -> complete (length batches) (length ws) sch ->
  pool_map kst (list (arr1 F)) (list F) (step_batch fo orc nt nl fk sK0 P0 mK t0) batches ws sch
  = map (fun b => Some (map (value fo orc nt nl fk sK0 P0 mK t0 w0) b)) batches.
Proof. exact (fun Hok Hloc => marginal_batches_schedule_independent fo orc nt nl fk sK0 P0 mK t0 Hok Hloc w0 batches ws sch). Qed.

Theorem C05_file_path_every_schedule {F} (fo : fops F) (orc : oracles F) (nt nl : nat) (fk : Z) (sK0 P0 mK t0 : F)
    (w0 : kst) (rows : list (arr1 F)) (n_batches : Z) (ws : list kst) (sch : list (nat * nat)) :
  let batches := map (task_rows rows) (batch_tasks_gen (Z.of_nat (length rows)) n_batches 0 true) in
  (forall row s, exists Y U, o_inv orc nl (Atmp_arg fo nt nl (pre fo orc nt fk sK0 P0 mK t0 row s)) = Some Y /\
                             o_lu orc nt (Btmp_arg fo nt nl (pre fo orc nt fk sK0 P0 mK t0 row s)) = Some U) ->
  oracles_local orc ->
  rows <> [] -> (1 <= n_batches)%Z -> Forall (cfg_eq nt fk w0) ws -> complete (length batches) (length ws) sch ->
  pool_map kst (list (arr1 F)) (list F) (step_batch fo orc nt nl fk sK0 P0 mK t0) batches ws sch
  = map (fun b => Some (map (value fo orc nt nl fk sK0 P0 mK t0 w0) b)) batches /\
  concat (map (map (value fo orc nt nl fk sK0 P0 mK t0 w0)) batches) = map (value fo orc nt nl fk sK0 P0 mK t0 w0) rows.
Proof. exact (fun Hok Hloc => file_path_every_schedule fo orc nt nl fk sK0 P0 mK t0 Hok Hloc w0 rows n_batches ws sch). Qed.

Theorem C05_idx_path_every_schedule {F} (fo : fops F) (orc : oracles F) (nt nl : nat) (fk : Z) (sK0 P0 mK t0 : F)
    (w0 : kst) (idx_rows : list (arr1 F)) (n_batches : Z) (ws : list kst) (sch : list (nat * nat)) :
  let batches := map (task_rows idx_rows) (batch_tasks_gen (Z.of_nat (length idx_rows)) n_batches 0 false) in
  (forall row s, exists Y U, o_inv orc nl (Atmp_arg fo nt nl (pre fo orc nt fk sK0 P0 mK t0 row s)) = Some Y /\
                             o_lu orc nt (Btmp_arg fo nt nl (pre fo orc nt fk sK0 P0 mK t0 row s)) = Some U) ->
  oracles_local orc ->
  idx_rows <> [] -> (1 <= n_batches)%Z -> Forall (cfg_eq nt fk w0) ws -> complete (length batches) (length ws) sch ->
  pool_map kst (list (arr1 F)) (list F) (step_batch fo orc nt nl fk sK0 P0 mK t0) batches ws sch
  = map (fun b => Some (map (value fo orc nt nl fk sK0 P0 mK t0 w0) b)) batches /\
  concat (map (map (value fo orc nt nl fk sK0 P0 mK t0 w0)) batches) = map (value fo orc nt nl fk sK0 P0 mK t0 w0) idx_rows.
Proof. exact (fun Hok Hloc => idx_path_every_schedule fo orc nt nl fk sK0 P0 mK t0 Hok Hloc w0 idx_rows n_batches ws sch). Qed.

(* non-vacuity of the schedule model: 3 tasks on 2 workers whose state counts the tasks they ran, completion order 2, 0, 1 *)
Example C05_sched_ex :
  pool_map nat nat nat (fun st t => (S st, 10 * t)%nat) [1; 2; 3]%nat [0; 0]%nat [(1, 2); (0, 0); (1, 1)]%nat = [Some 10; Some 20; Some 30]%nat
  /\ complete 3 2 [(1, 2); (0, 0); (1, 1)]%nat.
Proof.
  split; [vm_compute; reflexivity|]. split; [|repeat constructor].
  cbn. apply Permutation.Permutation_sym. apply (Permutation.perm_trans (l' := [0; 2; 1]%nat)); [|apply Permutation.perm_swap].
  apply Permutation.perm_skip. apply Permutation.perm_swap.
Qed.

Print Assumptions C05_pool_any_schedule.
Print Assumptions C05_marginal_every_schedule.
Print Assumptions C05_file_path_every_schedule.
Print Assumptions C05_idx_path_every_schedule.
