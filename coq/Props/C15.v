(* C15 -- RVData preserves the observations it is given.
   Statements only.  [rvdata_init] is the executable model of RVData.__init__ (mask + sort);
   [init_check]/[init_check_cov]/[copy_check]/[slice_check] are the certificates Coq evaluates on
   every run against what the implementation returned (witness permutation supplied by the
   harness, because numpy's default argsort may order equal times arbitrarily). *)
From Coq Require Import QArith List Bool Permutation.
From TJ Require Import Base.XQ Base.Corr Model.RVData Proofs.RVDataProofs.
Import ListNotations.

(* the model keeps exactly the finite observations (all of them if clean=false), time-ordered *)
Theorem C15_model_spec clean l :
  Permutation (rvdata_init clean l) (filter (keep clean) l) /\ sorted_t (rvdata_init clean l) = true.
Proof. exact (model_meets_spec clean l). Qed.

(* an accepted certificate means: the implementation's rows are exactly the kept input rows, each
   time still paired with its own velocity and error, ordered by time *)
Theorem C15_certificate_sound clean input pi out :
  init_check clean input pi out = true ->
  Permutation out (filter (keep clean) input) /\ sorted_t out = true /\
  out = gather obs_d pi input /\ Permutation pi (kept (fin_mask clean input)).
Proof. exact (init_check_sound clean input pi out). Qed.

Theorem C15_impl_is_model_up_to_ties clean input pi out :
  init_check clean input pi out = true -> Permutation out (rvdata_init clean input).
Proof. exact (impl_perm_model clean input pi out). Qed.

Theorem C15_clean_drops_only_nonfinite input pi out o :
  init_check true input pi out = true -> (In o out <-> In o input /\ obs_finite o = true).
Proof. exact (clean_only_finite input pi out o). Qed.

(* pairing: permuting parallel arrays by one index list = permuting the array of pairs *)
Theorem C15_pairing {A B} (da : A) (db : B) pi (a : list A) (b : list B) :
  length a = length b -> gather (da, db) pi (combine a b) = combine (gather da pi a) (gather db pi b).
Proof. exact (gather_zip da db pi a b). Qed.

(* full covariance: entry (i,j) of the stored matrix is entry (pi i, pi j) of the input, with the same pi as t and rv *)
Theorem C15_cov_pairing clean t rv cov pi ot orv ocov :
  init_check_cov clean t rv cov pi ot orv ocov = true ->
  Permutation pi (kept (fin_mask_cov clean t rv cov)) /\
  ot = gather XNaN pi t /\ orv = gather XNaN pi rv /\ ocov = gather2 pi cov /\ sorted_x ot = true.
Proof. exact (init_check_cov_sound clean t rv cov pi ot orv ocov). Qed.
Theorem C15_cov_entry pi cov i j :
  (i < length pi)%nat -> (j < length pi)%nat ->
  nth j (nth i (gather2 pi cov) []) XNaN = nth (nth j pi O) (nth (nth i pi O) cov []) XNaN.
Proof. exact (gather2_entry pi cov i j). Qed.

(* default reference epoch = earliest time *)
Theorem C15_tref_default_earliest out o :
  sorted_t out = true -> In o out ->
  exists t0, tref_of TrefDefault (map o_t out) = Some t0 /\ xq_leb t0 (o_t o) = true.
Proof. exact (tref_default_is_min out o). Qed.

Theorem C15_copy tol orig tr pi cp tr' :
  copy_check tol orig tr pi cp tr' = true ->
  Permutation cp orig /\ sorted_t cp = true /\ (tr = None <-> tr' = None).
Proof. exact (copy_check_sound tol orig tr pi cp tr'). Qed.

(* selections of covariance data keep, for the selected observations, their times, velocities and the covariance entries of
   every selected PAIR (row and column follow the same selection) *)
Theorem C15_slice_cov t rv cov sel st srv scov :
  slice_check_cov t rv cov sel st srv scov = true ->
  st = gather XNaN sel t /\ srv = gather XNaN sel rv /\ scov = gather2 sel cov /\
  forall i j, (i < length sel)%nat -> (j < length sel)%nat ->
    nth j (nth i scov []) XNaN = nth (nth j sel O) (nth (nth i sel O) cov []) XNaN.
Proof. exact (slice_check_cov_sound t rv cov sel st srv scov). Qed.

Theorem C15_slice orig sel pi out :
  slice_check orig sel pi out = true -> Permutation out (gather obs_d sel orig) /\ sorted_t out = true.
Proof. exact (slice_check_sound orig sel pi out). Qed.

(* non-vacuity: an unsorted input with a NaN velocity and a duplicated time *)
Example C15_ex :
  let i := [mkobs (XFin (3#1)) (XFin (10#1)) (XFin (1#2)); mkobs (XFin (1#1)) XNaN (XFin (1#2));
            mkobs (XFin (2#1)) (XFin (30#1)) (XFin (1#4)); mkobs (XFin (2#1)) (XFin (40#1)) (XFin (1#8))] in
  init_check true i [3; 2; 0]%nat [mkobs (XFin (2#1)) (XFin (40#1)) (XFin (1#8)); mkobs (XFin (2#1)) (XFin (30#1)) (XFin (1#4));
                                   mkobs (XFin (3#1)) (XFin (10#1)) (XFin (1#2))] = true
  /\ length (rvdata_init true i) = 3%nat.
Proof. vm_compute. split; reflexivity. Qed.

Print Assumptions C15_model_spec.
Print Assumptions C15_certificate_sound.
Print Assumptions C15_impl_is_model_up_to_ties.
Print Assumptions C15_clean_drops_only_nonfinite.
Print Assumptions C15_pairing.
Print Assumptions C15_cov_pairing.
Print Assumptions C15_cov_entry.
Print Assumptions C15_tref_default_earliest.
Print Assumptions C15_copy.
Print Assumptions C15_slice.
Print Assumptions C15_slice_cov.
