(* C12 -- the HDF5 writer as regenerated from the source on every run (tools/py2v_write.py -> Gen/WriteGen.v): the control flow of
   write_table_hdf5 (file level, group level, dataset creation / extension) over the two datasets of a samples file.
   Statements only.
     C12_write_generated_refines   on every well-formed file and for EVERY combination of overwrite / append, the file afterwards
                                   is well-formed, denotes exactly the table Model/Store.v `write` says, and the outcome is the
                                   model's (accepted, refused because it exists, refused as incompatible) -- never another exception
     C12_d14_before_repair         the code as it was before the repair of finding D14: overwrite=True with append=True on an
                                   existing file ends in an undocumented exception with the NEW rows under the OLD header *)
From Coq Require Import QArith List Bool.
From TJ Require Import Base.XQ Model.Store Gen.WriteGen Proofs.WriteGenProofs.
Import ListNotations.

Theorem C12_write_generated_refines ow app t f : wf f ->
  wf (fst (write_gen ow app t f)) /\
  abs (fst (write_gen ow app t f)) = fst (write ow app t (abs f)) /\
  to_wres (snd (write_gen ow app t f)) = Some (snd (write ow app t (abs f))).
Proof. exact (write_gen_refines ow app t f). Qed.

Theorem C12_d14_before_repair t rows hdr m :
  group_level_unfixed true true t (mk_h5 (Some rows) (Some (hdr, m))) = (Some (mk_h5 (Some (t_rows t)) (Some (hdr, m))), GCrash).
Proof. exact (d14_unfixed_crashes t rows hdr m). Qed.

(* non-vacuity: a well-formed file, an incompatible append refused with the file untouched *)
Example C12w_ex :
  let f := Some (mk_h5 (Some [[XFin 1]]) (Some ([(0, 0)]%nat, mk_meta None 1%nat 0%nat))) in
  wf f /\ write_gen false true (mk_tbl [(0, 1)]%nat (mk_meta None 1%nat 0%nat) [[XFin 2]]) f = (f, GIncompatible).
Proof. split; [exact I | reflexivity]. Qed.

Print Assumptions C12_write_generated_refines.
Print Assumptions C12_d14_before_repair.
