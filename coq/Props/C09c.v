(* C09 -- the eccentricity-prior constants as the SOURCE has them now (tools/consts2v.py -> Gen/ConstsGen.v) are the documented
   Kipping (2013) Beta parameters the density model uses.  Statement only. *)
From Coq Require Import QArith.
From TJ Require Import Gen.ConstsGen Model.Densities.

Theorem C09_kipping_constants :
  fst kipping_global_gen == fst kipping_global /\ snd kipping_global_gen == snd kipping_global /\
  fst kipping_short_gen == fst kipping_short /\ snd kipping_short_gen == snd kipping_short /\
  fst kipping_long_gen == fst kipping_long /\ snd kipping_long_gen == snd kipping_long.
Proof. repeat split; vm_compute; reflexivity. Qed.
Print Assumptions C09_kipping_constants.
