(* C05 -- results do not depend on batching, pool, cache path or call history.
   Statements only; every proof is `exact <lemma>`.
     C05_batching_invariant / _idx : for EVERY library and EVERY n_batches >= 1 (including more batches than rows), evaluating
         batch by batch with the task list the code builds (Gen/BatchTasksGen.v, regenerated from utils.py) and concatenating in
         task order gives exactly the per-row values in input order -- for any per-row function.
     C05_batchings_agree : two batchings of one library return the same list.
     C05_any_cover : the same for any contiguous cover (what a pool's map returns, in task order).
     C05_same_state_on_all_paths (generated kernel code): the per-sample state handed to the worker is rebuilt from the row
         on every call by the same prelude on the marginal, posterior and test paths.
   Tied to the code per run: one library evaluated through in-memory / object->cache / file name, n_batches in
   {1,2,3,N-1,N,N+1,N+5}, serial and 2-process pools, after unrelated marginal / posterior calls on the same sampler, through a
   pickled helper, row by row and in reversed order -- values must be bit-identical, in input order, and equal to what the
   batching model predicts from the per-row values (certified by Coq); accepted sets equal for equal seeds.
     C05_history_independent (generated kernel loops, all sizes): two states with the same configuration (design matrix with its K
         row, jittered inverse variances, prior means / variances, velocities) give the same value, whatever the scratch matrices,
         b, a and the locals hold from earlier marginal or posterior calls -- provided the LAPACK oracles read only the block they
         are given (oracles_local; true of the executable exact-arithmetic instances and of LAPACK's contract).
   Partial: process scheduling of pools is exercised, not modelled. *)
From Coq Require Import ZArith List Bool.
From TJ Require Import Base.Imp Base.Fops Gen.BatchTasksGen Gen.KernelPyx Model.BatchSpec Model.Paths Proofs.BatchProofs Proofs.PathProofs Proofs.KernelChar Proofs.KernelLoops Base.SymReal Proofs.OracleLocal.
Import ListNotations. Open Scope Z_scope.

Theorem C05_batching_invariant {A B} (eval : A -> B) (rows : list A) (n_batches : Z) :
  rows <> [] -> 1 <= n_batches -> run_file_path eval rows n_batches = map eval rows.
Proof. exact (batching_invariant eval rows n_batches). Qed.

Theorem C05_batching_invariant_idx {A B} (eval : A -> B) (idx : list A) (n_batches : Z) :
  idx <> [] -> 1 <= n_batches -> run_idx_path eval idx n_batches = map eval idx.
Proof. exact (batching_invariant_idx eval idx n_batches). Qed.

Theorem C05_batchings_agree {A B} (eval : A -> B) (rows : list A) (b1 b2 : Z) :
  rows <> [] -> 1 <= b1 -> 1 <= b2 -> run_file_path eval rows b1 = run_file_path eval rows b2.
Proof. exact (batchings_agree eval rows b1 b2). Qed.

Theorem C05_any_cover {A B} (eval : A -> B) (rows : list A) (ts : list task) :
  chain 0 (Z.of_nat (length rows)) ts -> run_batches eval rows ts = map eval rows.
Proof. exact (run_batches_chain eval rows ts). Qed.

Theorem C05_same_state_on_all_paths {F} (fo : fops F) (orc : oracles F) (nt nl fk : Z) (sK0 P0 mK t0 : F) :
  exists prelude : arr1 F -> kst -> kst,
    (forall row s, k_marginal_one fo orc nt nl fk sK0 P0 mK t0 row s = likelihood_worker fo orc nt nl 0 (prelude row s)) /\
    (forall row s, k_posterior_one fo orc nt nl fk sK0 P0 mK t0 row s = likelihood_worker fo orc nt nl 1 (prelude row s)) /\
    (forall row s, k_test_worker_one fo orc nt nl fk sK0 P0 mK t0 row s = likelihood_worker fo orc nt nl 1 (prelude row s)).
Proof. exact (posterior_same_prelude fo orc nt nl fk sK0 P0 mK t0). Qed.

Theorem C05_history_independent {F} (fo : fops F) (orc : oracles F) (nt nl : nat) (s0 s0' : kst) (Y U : arr2 F) :
  oracles_local orc ->
  v_M_T s0 = v_M_T s0' -> v_s_ivar s0 = v_s_ivar s0' -> v_mu s0 = v_mu s0' -> v_Lambda s0 = v_Lambda s0' -> v_rv s0 = v_rv s0' ->
  o_inv orc nl (Atmp_arg fo nt nl s0) = Some Y -> o_lu orc nt (Btmp_arg fo nt nl s0) = Some U ->
  snd (likelihood_worker fo orc (Z.of_nat nt) (Z.of_nat nl) 0 s0) = snd (likelihood_worker fo orc (Z.of_nat nt) (Z.of_nat nl) 0 s0').
Proof. exact (worker_history_independent fo orc nt nl s0 s0' Y U). Qed.

(* the oracle instances the per-run certificates execute (exact Gauss-Jordan on the n x n block) meet that locality contract *)
Theorem C05_executable_oracles_local (tbl : kepler_table) : oracles_local (sr_oracles tbl).
Proof. exact (sr_oracles_local tbl). Qed.

Example C05_ex : run_file_path (fun x => 10 * x) [1; 2; 3; 4; 5; 6; 7] 3 = [10; 20; 30; 40; 50; 60; 70]
              /\ run_file_path (fun x => x + 1) [1; 2] 5 = [2; 3].
Proof. split; vm_compute; reflexivity. Qed.

Print Assumptions C05_batching_invariant.
Print Assumptions C05_batching_invariant_idx.
Print Assumptions C05_batchings_agree.
Print Assumptions C05_any_cover.
Print Assumptions C05_same_state_on_all_paths.
Print Assumptions C05_history_independent.
Print Assumptions C05_executable_oracles_local.
