(* Loop combinators used by every model that is generated from source by a translator.
   A Python/Cython `for i in range(n): body` becomes `for_range n (fun i s => body) s`. *)
From Coq Require Import ZArith List Lia.
Import ListNotations.

Fixpoint for_range {S : Type} (n : nat) (body : nat -> S -> S) (s : S) : S :=
  match n with
  | O => s
  | Datatypes.S n' => body n' (for_range n' body s)
  end.

Definition for_rangeZ {S : Type} (n : Z) (body : Z -> S -> S) (s : S) : S :=
  for_range (Z.to_nat n) (fun i => body (Z.of_nat i)) s.

Lemma for_range_S {S} n (body : nat -> S -> S) s :
  for_range (Datatypes.S n) body s = body n (for_range n body s).
Proof. reflexivity. Qed.

(* Invariant rule: P k holds of the state after k iterations. *)
Lemma for_range_inv {S} (P : nat -> S -> Prop) n (body : nat -> S -> S) s :
  P O s ->
  (forall i st, (i < n)%nat -> P i st -> P (Datatypes.S i) (body i st)) ->
  P n (for_range n body s).
Proof.
  intros H0 Hstep.
  assert (H : forall k, (k <= n)%nat -> P k (for_range k body s)).
  { induction k as [|k IH]; intros Hk; [exact H0|].
    cbn [for_range]. apply Hstep; [lia|]. apply IH; lia. }
  apply H; lia.
Qed.

Lemma for_rangeZ_inv {S} (P : Z -> S -> Prop) n (body : Z -> S -> S) s :
  (0 <= n)%Z ->
  P 0%Z s ->
  (forall i st, (0 <= i < n)%Z -> P i st -> P (i + 1)%Z (body i st)) ->
  P n (for_rangeZ n body s).
Proof.
  intros Hn H0 Hstep. unfold for_rangeZ.
  replace n with (Z.of_nat (Z.to_nat n)) at 1 by lia.
  apply (for_range_inv (fun k st => P (Z.of_nat k) st)); [exact H0|].
  intros i st Hi HP. replace (Z.of_nat (Datatypes.S i)) with (Z.of_nat i + 1)%Z by lia.
  apply Hstep; [lia|exact HP].
Qed.

Lemma for_range_ext {S} n (f g : nat -> S -> S) s :
  (forall i st, (i < n)%nat -> f i st = g i st) -> for_range n f s = for_range n g s.
Proof.
  induction n as [|n IH]; intros H; [reflexivity|]. cbn [for_range].
  rewrite IH by (intros; apply H; lia). apply H; lia.
Qed.
