(* C07 -- units as positive scale factors per physical dimension: a quantity is (value, scale of its unit relative to a
   fixed base unit of that dimension); to_value converts.  What the helper (`to_value`, `_pytensor_get_mean_std`),
   JokerSamples.pack / unpack and read_batch do to every number they touch is an instance of to_value. *)
From Coq Require Import QArith Field.
Open Scope Q_scope.

Definition to_value (v s_from s_to : Q) : Q := v * s_from / s_to.

(* re-expressing a quantity in an equivalent unit first does not change the value the kernel receives *)
Lemma reexpress_invariant v s1 s1' s2 : ~ s1' == 0 -> ~ s2 == 0 ->
  to_value (to_value v s1 s1') s1' s2 == to_value v s1 s2.
Proof. intros H1 H2. unfold to_value. field. split; assumption. Qed.

(* unpack after pack (and conversely) restores the user's number *)
Lemma pack_unpack v s1 s2 : ~ s1 == 0 -> ~ s2 == 0 -> to_value (to_value v s1 s2) s2 s1 == v.
Proof. intros H1 H2. unfold to_value. field. split; assumption. Qed.

(* changing the unit the kernel works in by the factor c = s2 / s2' multiplies every internal value of that dimension by c *)
Lemma internal_scaling v s1 s2 s2' : ~ s2 == 0 -> ~ s2' == 0 ->
  to_value v s1 s2' == (s2 / s2') * to_value v s1 s2.
Proof. intros H1 H2. unfold to_value. field. split; assumption. Qed.
