(* Field-operations record and functional arrays for the models generated from the Cython kernel
   (tools/pyx2v.py).  The SAME generated Gallina term is
     - run by vm_compute at F := rexpr with constant folding (Base/SymReal.v): exact rationals while the
       computation is rational, symbolic for log / pi, decided by certified interval arithmetic;
     - reasoned about over an arbitrary field (Proofs/KernelChar.v) and MathComp matrices. *)
From Coq Require Import ZArith List Bool Arith.
Import ListNotations.

Record fops (F : Type) := mk_fops {
  fzero : F; fone : F;
  fadd : F -> F -> F; fsub : F -> F -> F; fmul : F -> F -> F; fdiv : F -> F -> F; fopp : F -> F;
  fz : Z -> F;                 (* integer constants *)
  fabs : F -> F;
  flog : F -> F;               (* libc log *)
  fpi : F;
  fpow_m23 : F -> F;           (* x ** (-2/3.) *)
  fmin : F -> F -> F;
  finf : F                     (* the value returned as INF on LAPACK failure (never reached when the oracles succeed) *)
}.
Arguments fzero {F}. Arguments fone {F}. Arguments fadd {F}. Arguments fsub {F}. Arguments fmul {F}. Arguments fdiv {F}.
Arguments fopp {F}. Arguments fz {F}. Arguments fabs {F}. Arguments flog {F}. Arguments fpi {F}. Arguments fpow_m23 {F}.
Arguments fmin {F}. Arguments finf {F}.

Definition arr1 (F : Type) := nat -> F.
Definition arr2 (F : Type) := nat -> nat -> F.
Definition upd1 {F} (a : arr1 F) (i : nat) (v : F) : arr1 F := fun k => if Nat.eqb k i then v else a k.
Definition upd2 {F} (a : arr2 F) (i j : nat) (v : F) : arr2 F :=
  fun k l => if Nat.eqb k i && Nat.eqb l j then v else a k l.

Lemma upd1_same {F} (a : arr1 F) i v : upd1 a i v i = v.
Proof. unfold upd1. rewrite Nat.eqb_refl. reflexivity. Qed.
Lemma upd1_other {F} (a : arr1 F) i v k : k <> i -> upd1 a i v k = a k.
Proof. intros H. unfold upd1. apply Nat.eqb_neq in H. rewrite H. reflexivity. Qed.
Lemma upd2_same {F} (a : arr2 F) i j v : upd2 a i j v i j = v.
Proof. unfold upd2. rewrite !Nat.eqb_refl. reflexivity. Qed.
Lemma upd2_other {F} (a : arr2 F) i j v k l : (k <> i \/ l <> j) -> upd2 a i j v k l = a k l.
Proof.
  intros H. unfold upd2. destruct (Nat.eqb k i) eqn:E1; destruct (Nat.eqb l j) eqn:E2; cbn; try reflexivity.
  apply Nat.eqb_eq in E1, E2. destruct H; contradiction.
Qed.

(* materialise / read back *)
Definition tab1 {F} (n : nat) (a : arr1 F) : list F := map a (seq 0 n).
Definition tab2 {F} (n m : nat) (a : arr2 F) : list (list F) := map (fun i => map (a i) (seq 0 m)) (seq 0 n).
Definition of_list1 {F} (d : F) (l : list F) : arr1 F := fun i => nth i l d.
Definition of_list2 {F} (d : F) (l : list (list F)) : arr2 F := fun i j => nth j (nth i l []) d.

(* LAPACK / libm / twobody as oracles (never axioms): what the generated code calls *)
Record oracles (F : Type) := mk_oracles {
  o_inv : nat -> arr2 F -> option (arr2 F);          (* dgetrf + dgetri: inverse, None when info <> 0 *)
  o_lu : nat -> arr2 F -> option (arr2 F);           (* dgetrf alone: LU in place (U on and above the diagonal) *)
  o_solve : nat -> arr2 F -> arr1 F -> option (arr1 F); (* dsysv: solve X a' = a *)
  o_kepler : F -> F -> F -> F -> F -> F -> nat -> F  (* c_rv_from_elements(t, ., N, P, K, e, omega, phi0, t0, ..): rv at epoch n *)
}.
Arguments o_inv {F}. Arguments o_lu {F}. Arguments o_solve {F}. Arguments o_kepler {F}.
