(* Extended rationals: the exact value of an IEEE double (finite doubles are dyadic rationals),
   or NaN / +inf / -inf.  Used wherever a property talks about non-finite values. *)
From Coq Require Import QArith Bool List.
Import ListNotations.

Inductive XQ := XFin (q : Q) | XNaN | XPInf | XNInf.

Definition xfinite (x : XQ) : bool := match x with XFin _ => true | _ => false end.

(* identity of values (NaN is identical to NaN here: we compare what was stored, not IEEE ==) *)
Definition xq_eqb (x y : XQ) : bool :=
  match x, y with
  | XFin a, XFin b => Qeq_bool a b
  | XNaN, XNaN | XPInf, XPInf | XNInf, XNInf => true
  | _, _ => false
  end.

(* the order numpy sorts by: -inf < finite < +inf < NaN *)
Definition xq_leb (x y : XQ) : bool :=
  match x, y with
  | _, XNaN => true
  | XNaN, _ => false
  | XNInf, _ => true
  | _, XNInf => false
  | _, XPInf => true
  | XPInf, _ => false
  | XFin a, XFin b => Qle_bool a b
  end.

(* IEEE strict comparison a > b (false if either is NaN) *)
Definition xq_gtb (x y : XQ) : bool :=
  match x, y with
  | XNaN, _ | _, XNaN => false
  | XPInf, XPInf => false
  | XPInf, _ => true
  | _, XPInf => false
  | XNInf, _ => false
  | XFin _, XNInf => true
  | XFin a, XFin b => negb (Qle_bool a b)
  end.

(* IEEE subtraction x - y *)
Definition xq_sub (x y : XQ) : XQ :=
  match x, y with
  | XNaN, _ | _, XNaN => XNaN
  | XPInf, XPInf | XNInf, XNInf => XNaN
  | XPInf, _ => XPInf
  | XNInf, _ => XNInf
  | XFin _, XPInf => XNInf
  | XFin _, XNInf => XPInf
  | XFin a, XFin b => XFin (a - b)
  end.

(* IEEE addition *)
Definition xq_add (x y : XQ) : XQ :=
  match x, y with
  | XNaN, _ | _, XNaN => XNaN
  | XPInf, XNInf | XNInf, XPInf => XNaN
  | XPInf, _ | _, XPInf => XPInf
  | XNInf, _ | _, XNInf => XNInf
  | XFin a, XFin b => XFin (a + b)
  end.

(* numpy's max: NaN propagates *)
Definition xq_max (x y : XQ) : XQ :=
  match x, y with
  | XNaN, _ | _, XNaN => XNaN
  | _, _ => if xq_leb x y then y else x
  end.

Lemma xq_eqb_refl x : xq_eqb x x = true.
Proof. destruct x; cbn; try reflexivity. apply Qeq_bool_iff. reflexivity. Qed.

Lemma xq_leb_total a b : xq_leb a b = false -> xq_leb b a = true.
Proof.
  destruct a as [p| | |], b as [q| | |]; cbn; try discriminate; try reflexivity.
  intros H. apply Qle_bool_iff. destruct (Qlt_le_dec q p) as [Hlt|Hle].
  - apply Qlt_le_weak, Hlt.
  - apply Qle_bool_iff in Hle. congruence.
Qed.
Lemma xq_leb_trans a b c : xq_leb a b = true -> xq_leb b c = true -> xq_leb a c = true.
Proof.
  destruct a as [p| | |], b as [q| | |], c as [r| | |]; cbn; try discriminate; try reflexivity.
  rewrite !Qle_bool_iff. apply Qle_trans.
Qed.
