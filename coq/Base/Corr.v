(* Combinators for the correspondence certificates written by the harness (DESIGN 2.4.2). *)
From Coq Require Import List Bool Arith ZArith QArith.
Import ListNotations.

Fixpoint failing_from (k : nat) (l : list bool) : list nat :=
  match l with
  | [] => []
  | b :: r => if b then failing_from (S k) r else k :: failing_from (S k) r
  end.
Definition failing_idx (l : list bool) : list nat := failing_from 0 l.

Lemma failing_from_nil k l : failing_from k l = [] -> forallb id l = true.
Proof.
  revert k. induction l as [|b r IH]; intros k; cbn; [reflexivity|].
  destruct b; [apply IH|discriminate].
Qed.

(* bad = []  means every case passed its check *)
Lemma failing_idx_nil l : failing_idx l = [] -> forallb id l = true.
Proof. apply failing_from_nil. Qed.

Fixpoint list_eqb {A} (e : A -> A -> bool) (x y : list A) : bool :=
  match x, y with
  | [], [] => true
  | a :: x', b :: y' => e a b && list_eqb e x' y'
  | _, _ => false
  end.

Definition option_eqb {A} (e : A -> A -> bool) (x y : option A) : bool :=
  match x, y with
  | None, None => true
  | Some a, Some b => e a b
  | _, _ => false
  end.

(* |m - o| <= tol * max(1, |m|), all rational, decided exactly *)
Definition Qabs' (q : Q) : Q := if Qle_bool 0 q then q else Qopp q.
Definition approx_eqQ (tol m o : Q) : bool :=
  Qle_bool (Qabs' (m - o)) (tol * (if Qle_bool 1 (Qabs' m) then Qabs' m else 1)).
