(* First-argmax over any total preorder given as a boolean test (numpy.argmax returns the first maximum). *)
From Coq Require Import List Arith Lia Bool.
Import ListNotations.

Section ArgMax.
  Context {A : Type} (leb : A -> A -> bool) (d : A).

  Fixpoint argmax_from (k best : nat) (bv : A) (l : list A) : nat :=
    match l with
    | [] => best
    | x :: r => if leb x bv then argmax_from (S k) best bv r else argmax_from (S k) k x r
    end.
  Definition gargmax (l : list A) : nat :=
    match l with [] => O | x :: r => argmax_from 1 0 x r end.

  Hypothesis leb_total : forall a b, leb a b = false -> leb b a = true.
  Hypothesis leb_trans : forall a b c, leb a b = true -> leb b c = true -> leb a c = true.

  Lemma leb_refl a : leb a a = true.
  Proof. destruct (leb a a) eqn:E; [reflexivity|]. pose proof (leb_total _ _ E). congruence. Qed.

  Lemma argmax_from_spec l : forall k best bv pre,
    length pre = k -> (best < k)%nat -> nth best pre d = bv ->
    (forall i, (i < k)%nat -> leb (nth i pre d) bv = true) ->
    (forall i, (i < best)%nat -> leb bv (nth i pre d) = false) ->
    let r := argmax_from k best bv l in
    (r < k + length l)%nat /\
    (forall i, (i < k + length l)%nat -> leb (nth i (pre ++ l) d) (nth r (pre ++ l) d) = true) /\
    (forall i, (i < r)%nat -> leb (nth r (pre ++ l) d) (nth i (pre ++ l) d) = false).
  Proof.
    induction l as [|x l IH]; intros k best bv pre Hk Hb Hbv Hle Hfirst; cbn [argmax_from].
    - cbn [length]. rewrite Nat.add_0_r, app_nil_r. repeat split.
      + exact Hb.
      + intros i Hi. rewrite Hbv. apply Hle, Hi.
      + intros i Hi. rewrite Hbv. apply Hfirst, Hi.
    - destruct (leb x bv) eqn:E.
      + specialize (IH (S k) best bv (pre ++ [x])).
        rewrite <- app_assoc in IH. cbn [app length] in *.
        replace (k + S (length l))%nat with (S k + length l)%nat by lia.
        apply IH.
        * rewrite app_length. cbn. lia.
        * lia.
        * rewrite app_nth1 by lia. exact Hbv.
        * intros i Hi. destruct (Nat.eq_dec i k) as [->|Hne].
          -- rewrite app_nth2 by lia. rewrite Hk, Nat.sub_diag. exact E.
          -- rewrite app_nth1 by lia. apply Hle. lia.
        * intros i Hi. rewrite app_nth1 by lia. apply Hfirst, Hi.
      + pose proof (leb_total _ _ E) as Hbx.
        specialize (IH (S k) k x (pre ++ [x])).
        rewrite <- app_assoc in IH. cbn [app length] in *.
        replace (k + S (length l))%nat with (S k + length l)%nat by lia.
        apply IH.
        * rewrite app_length. cbn. lia.
        * lia.
        * rewrite app_nth2 by lia. rewrite Hk, Nat.sub_diag. reflexivity.
        * intros i Hi. destruct (Nat.eq_dec i k) as [->|Hne].
          -- rewrite app_nth2 by lia. rewrite Hk, Nat.sub_diag. apply leb_refl.
          -- rewrite app_nth1 by lia. eapply leb_trans; [apply Hle; lia|exact Hbx].
        * intros i Hi. rewrite app_nth1 by lia.
          destruct (leb x (nth i pre d)) eqn:C; [|reflexivity]. exfalso.
          assert (leb (nth i pre d) bv = true) by (apply Hle; lia).
          pose proof (leb_trans _ _ _ C H). congruence.
  Qed.

  (* the returned index holds a maximum, and no earlier index does *)
  Lemma gargmax_spec l : l <> [] ->
    let r := gargmax l in
    (r < length l)%nat /\
    (forall i, (i < length l)%nat -> leb (nth i l d) (nth r l d) = true) /\
    (forall i, (i < r)%nat -> leb (nth r l d) (nth i l d) = false).
  Proof.
    destruct l as [|x l]; [congruence|]. intros _. unfold gargmax.
    pose proof (argmax_from_spec l 1%nat 0%nat x [x] eq_refl ltac:(lia) eq_refl) as H.
    cbn [app length Nat.add] in H. apply H.
    - intros i Hi. assert (i = 0)%nat by lia. subst. cbn. apply leb_refl.
    - intros i Hi. lia.
  Qed.
End ArgMax.
