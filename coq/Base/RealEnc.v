(* Certified sign decisions for closed real expressions with exp / ln / sqrt / cos / sin / PI over
   rational constants, by reflection onto Coq-Interval's verified interval arithmetic (the same
   engine the `interval` tactic uses), so that thousands of decisions "exp(d) > u", "|f(x) - y| <= tol"
   can be settled by one vm_compute each under ONE proved theorem instead of one tactic call each.

   rval e : R          -- the real number the expression denotes (Coq's total functions)
   rpos / rneg / rnonneg prec e : bool   -- computed with `prec` bits; [true] is a proof, [false] means "not decided" *)
From Coq Require Import Reals ZArith QArith Qreals Bool Lra.
From Interval Require Import Specific_bigint Specific_ops Float_full Xreal Interval Float Basic.
From Flocq Require Import Raux.

Module F := SpecificFloat BigIntRadix2.
Module I := FloatIntervalFull F.

Inductive rexpr :=
| RC (n : Z) (d : positive)
| RPi
| RAdd (a b : rexpr) | RSub (a b : rexpr) | RMul (a b : rexpr) | RDiv (a b : rexpr)
| RNeg (a : rexpr) | RAbs (a : rexpr)
| RExp (a : rexpr) | RLn (a : rexpr) | RSqrt (a : rexpr) | RCos (a : rexpr) | RSin (a : rexpr).

Fixpoint rval (e : rexpr) : R :=
  match e with
  | RC n d => (IZR n / IZR (Zpos d))%R
  | RPi => PI
  | RAdd a b => (rval a + rval b)%R
  | RSub a b => (rval a - rval b)%R
  | RMul a b => (rval a * rval b)%R
  | RDiv a b => (rval a / rval b)%R
  | RNeg a => (- rval a)%R
  | RAbs a => Rabs (rval a)
  | RExp a => exp (rval a)
  | RLn a => ln (rval a)
  | RSqrt a => sqrt (rval a)
  | RCos a => cos (rval a)
  | RSin a => sin (rval a)
  end.

Fixpoint xval (e : rexpr) : ExtendedR :=
  match e with
  | RC n d => Xdiv (Xreal (IZR n)) (Xreal (IZR (Zpos d)))
  | RPi => Xreal PI
  | RAdd a b => Xadd (xval a) (xval b)
  | RSub a b => Xsub (xval a) (xval b)
  | RMul a b => Xmul (xval a) (xval b)
  | RDiv a b => Xdiv (xval a) (xval b)
  | RNeg a => Xneg (xval a)
  | RAbs a => Xabs (xval a)
  | RExp a => Xexp (xval a)
  | RLn a => Xln (xval a)
  | RSqrt a => Xsqrt (xval a)
  | RCos a => Xcos (xval a)
  | RSin a => Xsin (xval a)
  end.

Fixpoint ival (prec : F.precision) (e : rexpr) : I.type :=
  match e with
  | RC n d => I.div prec (I.fromZ prec n) (I.fromZ prec (Zpos d))
  | RPi => I.pi prec
  | RAdd a b => I.add prec (ival prec a) (ival prec b)
  | RSub a b => I.sub prec (ival prec a) (ival prec b)
  | RMul a b => I.mul prec (ival prec a) (ival prec b)
  | RDiv a b => I.div prec (ival prec a) (ival prec b)
  | RNeg a => I.neg (ival prec a)
  | RAbs a => I.abs (ival prec a)
  | RExp a => I.exp prec (ival prec a)
  | RLn a => I.ln prec (ival prec a)
  | RSqrt a => I.sqrt prec (ival prec a)
  | RCos a => I.cos prec (ival prec a)
  | RSin a => I.sin prec (ival prec a)
  end.

Lemma ival_correct prec e : contains (I.convert (ival prec e)) (xval e).
Proof.
  induction e; cbn [ival xval].
  - apply I.div_correct; apply I.fromZ_correct.
  - apply I.pi_correct.
  - apply I.add_correct; assumption.
  - apply I.sub_correct; assumption.
  - apply I.mul_correct; assumption.
  - apply I.div_correct; assumption.
  - apply I.neg_correct; assumption.
  - apply I.abs_correct; assumption.
  - apply I.exp_correct; assumption.
  - apply I.ln_correct; assumption.
  - apply I.sqrt_correct; assumption.
  - apply I.cos_correct; assumption.
  - apply I.sin_correct; assumption.
Qed.

(* whenever the extended-real semantics is defined it is the value of Coq's total functions *)
Lemma xval_rval e : forall r, xval e = Xreal r -> rval e = r.
Proof.
  induction e; cbn [xval rval]; intros r H.
  - cbn in H. unfold Xdiv' in H. destruct (is_zero (IZR (Z.pos d))); [discriminate|]. congruence.
  - congruence.
  - destruct (xval e1), (xval e2); try discriminate. cbn in H. rewrite (IHe1 _ eq_refl), (IHe2 _ eq_refl). congruence.
  - destruct (xval e1), (xval e2); try discriminate. cbn in H. rewrite (IHe1 _ eq_refl), (IHe2 _ eq_refl). congruence.
  - destruct (xval e1), (xval e2); try discriminate. cbn in H. rewrite (IHe1 _ eq_refl), (IHe2 _ eq_refl). congruence.
  - destruct (xval e1), (xval e2); try discriminate. cbn in H. unfold Xdiv' in H.
    destruct (is_zero r1); [discriminate|]. rewrite (IHe1 _ eq_refl), (IHe2 _ eq_refl). congruence.
  - destruct (xval e); try discriminate. cbn in H. rewrite (IHe _ eq_refl). congruence.
  - destruct (xval e); try discriminate. cbn in H. rewrite (IHe _ eq_refl). congruence.
  - destruct (xval e); try discriminate. cbn in H. rewrite (IHe _ eq_refl). congruence.
  - destruct (xval e); try discriminate. cbn in H. unfold Xln' in H.
    destruct (is_positive r0); [|discriminate]. rewrite (IHe _ eq_refl). congruence.
  - destruct (xval e); try discriminate. cbn in H. unfold Xsqrt' in H. rewrite (IHe _ eq_refl). congruence.
  - destruct (xval e); try discriminate. cbn in H. rewrite (IHe _ eq_refl). congruence.
  - destruct (xval e); try discriminate. cbn in H. rewrite (IHe _ eq_refl). congruence.
Qed.

Definition rpos (prec : positive) (e : rexpr) : bool :=
  match I.sign_strict (ival (F.PtoP prec) e) with Xgt => true | _ => false end.
Definition rneg (prec : positive) (e : rexpr) : bool :=
  match I.sign_strict (ival (F.PtoP prec) e) with Xlt => true | _ => false end.
Definition rnonneg (prec : positive) (e : rexpr) : bool :=
  match I.sign_large (ival (F.PtoP prec) e) with Xgt | Xeq => true | _ => false end.

Theorem rpos_correct prec e : rpos prec e = true -> (0 < rval e)%R.
Proof.
  unfold rpos. pose proof (I.sign_strict_correct (ival (F.PtoP prec) e)) as H.
  destruct (I.sign_strict (ival (F.PtoP prec) e)); try discriminate. intros _.
  destruct (H _ (ival_correct _ e)) as [Hx Hp]. rewrite (xval_rval e _ Hx). exact Hp.
Qed.
Theorem rneg_correct prec e : rneg prec e = true -> (rval e < 0)%R.
Proof.
  unfold rneg. pose proof (I.sign_strict_correct (ival (F.PtoP prec) e)) as H.
  destruct (I.sign_strict (ival (F.PtoP prec) e)); try discriminate. intros _.
  destruct (H _ (ival_correct _ e)) as [Hx Hp]. rewrite (xval_rval e _ Hx). exact Hp.
Qed.
Theorem rnonneg_correct prec e : rnonneg prec e = true -> (0 <= rval e)%R.
Proof.
  unfold rnonneg. pose proof (I.sign_large_correct (ival (F.PtoP prec) e)) as H.
  destruct (I.sign_large (ival (F.PtoP prec) e)); try discriminate; intros _.
  - rewrite (xval_rval e 0%R (H _ (ival_correct _ e))). apply Rle_refl.
  - destruct (H _ (ival_correct _ e)) as [Hx Hp]. rewrite (xval_rval e _ Hx). exact Hp.
Qed.

(* rational constants *)
Definition RQ (q : Q) : rexpr := RC (Qnum q) (Qden q).
Lemma rval_RQ q : rval (RQ q) = Q2R q.
Proof. unfold RQ, Q2R. cbn [rval]. reflexivity. Qed.

(* |e - o| <= tol, decided *)
Definition rclose (prec : positive) (tol : Q) (e : rexpr) (o : Q) : bool :=
  rnonneg prec (RSub (RQ tol) (RAbs (RSub e (RQ o)))).
Theorem rclose_correct prec tol e o :
  rclose prec tol e o = true -> (Rabs (rval e - Q2R o) <= Q2R tol)%R.
Proof.
  unfold rclose. intros H. apply rnonneg_correct in H. cbn [rval] in H.
  rewrite !rval_RQ in H. lra.
Qed.

(* a > b, decided *)
Definition rgt (prec : positive) (a b : rexpr) : bool := rpos prec (RSub a b).
Definition rlt (prec : positive) (a b : rexpr) : bool := rneg prec (RSub a b).
Theorem rgt_correct prec a b : rgt prec a b = true -> (rval b < rval a)%R.
Proof. unfold rgt. intros H. apply rpos_correct in H. cbn [rval] in H. lra. Qed.
Theorem rlt_correct prec a b : rlt prec a b = true -> (rval a < rval b)%R.
Proof. unfold rlt. intros H. apply rneg_correct in H. cbn [rval] in H. lra. Qed.
