(* The executable instance of the kernel's field operations: "lazy reals" = RealEnc expressions with
   constant folding.  While a computation stays rational it is carried out exactly (reduced
   bigQ fractions); log / pi / non-cube powers stay symbolic and are decided at the end by certified
   interval arithmetic (Base/RealEnc.v).  Oracles: exact Gauss-Jordan (Base/QMat.v), a table for the
   Kepler solver's values. *)
From Coq Require Import Reals QArith ZArith List Bool Arith.
From Bignums Require Import BigQ.
From TJ Require Import Base.RealEnc Base.Fops Base.QMat.
Import ListNotations.

Inductive sr := SQ (q : bq) | SE (e : rexpr).
Definition sr_q (e : sr) : option bq := match e with SQ q => Some q | SE _ => None end.
Definition sr_of (q : bq) : sr := SQ q.
Definition sr_ofQ (q : Q) : sr := SQ (bofQ q).
(* the closed real expression a lazy real denotes *)
Definition sr_rx (e : sr) : rexpr := match e with SQ q => RQ (btoQ q) | SE x => x end.
Definition srZ (z : Z) : sr := SQ (bofQ (z # 1)).
Definition sr_undef : sr := SE (RDiv (RC 1 1) (RC 0 1)).

Definition sr_bin (qop : bq -> bq -> bq) (sym : rexpr -> rexpr -> rexpr) (a b : sr) : sr :=
  match a, b with SQ x, SQ y => SQ (qop x y) | _, _ => SE (sym (sr_rx a) (sr_rx b)) end.
Definition sr_add := sr_bin badd RAdd.
Definition sr_sub := sr_bin bsub RSub.
Definition sr_mul := sr_bin bmul RMul.
Definition sr_div (a b : sr) : sr :=
  match a, b with
  | SQ x, SQ y => if beq y b0 then SE (RDiv (sr_rx a) (sr_rx b)) else SQ (bdiv x y)
  | _, _ => SE (RDiv (sr_rx a) (sr_rx b))
  end.
Definition sr_opp (a : sr) : sr := match a with SQ x => SQ (bopp x) | SE e => SE (RNeg e) end.
Definition sr_abs (a : sr) : sr := match a with SQ x => SQ (babs x) | SE e => SE (RAbs e) end.

(* integer cube root by bit construction *)
Fixpoint icbrt_bits (bits : nat) (r n : Z) : Z :=
  match bits with
  | O => r
  | S b => let c := (r + 2 ^ Z.of_nat b)%Z in
           if (c * c * c <=? n)%Z then icbrt_bits b c n else icbrt_bits b r n
  end.
Definition icbrt (n : Z) : option Z :=
  let r := icbrt_bits (Z.to_nat (Z.log2 n / 3 + 2)) 0 n in if (r * r * r =? n)%Z then Some r else None.
(* x ** (-2/3): exact when x is a ratio of perfect cubes; otherwise a rational y from the candidate list `tab` that is
   CERTIFIED (interval arithmetic, Base/RealEnc.v) to satisfy |exp(-2/3 ln x) - y| <= 2^-46 max(1,|y|)... i.e. a
   correctly rounded double of the real value; with no certified candidate the value stays symbolic. *)
Definition pow_m23_rx (x : rexpr) : rexpr := RExp (RMul (RC (-2) 3) (RLn x)).
Definition sr_pow_m23 (tab : list Q) (a : sr) : sr :=
  let sym := SE (pow_m23_rx (sr_rx a)) in
  match a with
  | SQ x =>
      let q := btoQ x in
      match (if (0 <? Qnum q)%Z then icbrt (Qnum q) else None), icbrt (Zpos (Qden q)) with
      | Some rn, Some rd => SQ (bofQ ((rd # 1) * (rd # 1) / ((rn # 1) * (rn # 1))))
      | _, _ => match find (fun y => rclose 80 (y * (1 # 70368744177664)) (pow_m23_rx (sr_rx a)) y) tab with
                | Some y => SQ (bofQ y)
                | None => sym
                end
      end
  | _ => sym
  end.
Definition sr_min (a b : sr) : sr :=
  match a, b with
  | SQ x, SQ y => if bleb x y then a else b
  | _, _ => if rlt 60 (sr_rx a) (sr_rx b) then a else b   (* undecided only when closer than 2^-60: either is right to tolerance *)
  end.

Definition sr_fops (tab : list Q) : fops sr :=
  mk_fops sr (srZ 0) (srZ 1) sr_add sr_sub sr_mul sr_div sr_opp srZ sr_abs (fun a => SE (RLn (sr_rx a))) (SE RPi) (sr_pow_m23 tab) sr_min sr_undef.

(* ---- oracles ---- *)
Definition sr_all_q (l : list sr) : option (list bq) :=
  fold_right (fun e acc => match sr_q e, acc with Some q, Some r => Some (q :: r) | _, _ => None end) (Some []) l.
Definition sr_mat_q (n m : nat) (a : arr2 sr) : option qmat :=
  fold_right (fun r acc => match sr_all_q r, acc with Some q, Some rs => Some (q :: rs) | _, _ => None end) (Some []) (tab2 n m a).

Definition sr_o_inv (n : nat) (a : arr2 sr) : option (arr2 sr) :=
  match sr_mat_q n n a with
  | None => None
  | Some qa => match qinv n qa with
               | None => None
               | Some x => if is_inverse n qa x then Some (of_list2 (srZ 0) (map (map sr_of) x)) else None
               end
  end.
(* LU "in place": only the diagonal is read afterwards; the pivots' product is the determinant up to sign *)
Definition sr_o_lu (n : nat) (a : arr2 sr) : option (arr2 sr) :=
  match sr_mat_q n n a with
  | None => None
  | Some qa => match qpivots n qa with
               | None => None
               | Some ps => Some (fun i j => if Nat.eqb i j then sr_of (nth i ps b0) else srZ 0)
               end
  end.
Definition sr_o_solve (n : nat) (a : arr2 sr) (b : arr1 sr) : option (arr1 sr) :=
  match sr_mat_q n n a, sr_all_q (tab1 n b) with
  | Some qa, Some qb => match qsolve n qa qb with
                        | None => None
                        | Some x => Some (of_list1 (srZ 0) (map sr_of x))
                        end
  | _, _ => None
  end.

(* Kepler table: (P, K, e, omega, phi0, t0) -> rv at each epoch; a call with other arguments finds nothing *)
Definition sr_eqb (a b : sr) : bool :=
  match sr_q a, sr_q b with Some x, Some y => beq x y | _, _ => false end.
Definition kepler_table := list (list sr * list sr).
Definition sr_o_kepler (tbl : kepler_table) (P K e om phi0 t0 : sr) (n : nat) : sr :=
  match find (fun entry => (fix eqs (x y : list sr) := match x, y with [], [] => true | u :: x', v :: y' => sr_eqb u v && eqs x' y' | _, _ => false end)
                           (fst entry) [P; K; e; om; phi0; t0]) tbl with
  | Some entry => nth n (snd entry) sr_undef
  | None => sr_undef
  end.
Definition sr_oracles (tbl : kepler_table) : oracles sr := mk_oracles sr sr_o_inv sr_o_lu sr_o_solve (sr_o_kepler tbl).
