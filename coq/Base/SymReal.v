(* The executable instance of the kernel's field operations: "lazy reals" = RealEnc expressions with
   constant folding.  While a computation stays rational it is carried out exactly (reduced
   fractions); log / pi / non-cube powers stay symbolic and are decided at the end by certified
   interval arithmetic (Base/RealEnc.v).  Oracles: exact Gauss-Jordan (Base/QMat.v), a table for the
   Kepler solver's values. *)
From Coq Require Import Reals QArith ZArith List Bool Arith.
From TJ Require Import Base.RealEnc Base.Fops Base.QMat.
Import ListNotations.

Definition sr := rexpr.
Definition sr_q (e : sr) : option Q := match e with RC n d => Some (n # d) | _ => None end.
Definition sr_of (q : Q) : sr := let r := Qred q in RC (Qnum r) (Qden r).

Definition sr_bin (qop : Q -> Q -> Q) (sym : sr -> sr -> sr) (a b : sr) : sr :=
  match sr_q a, sr_q b with Some x, Some y => sr_of (qop x y) | _, _ => sym a b end.
Definition sr_add := sr_bin Qplus RAdd.
Definition sr_sub := sr_bin Qminus RSub.
Definition sr_mul := sr_bin Qmult RMul.
Definition sr_div (a b : sr) : sr :=
  match sr_q a, sr_q b with
  | Some x, Some y => if Qeq_bool y 0 then RDiv a b else sr_of (x / y)
  | _, _ => RDiv a b
  end.
Definition sr_opp (a : sr) : sr := match sr_q a with Some x => sr_of (- x) | None => RNeg a end.
Definition sr_abs (a : sr) : sr := match sr_q a with Some x => sr_of (if Qle_bool 0 x then x else - x) | None => RAbs a end.

(* integer cube root by bit construction *)
Fixpoint icbrt_bits (bits : nat) (r n : Z) : Z :=
  match bits with
  | O => r
  | S b => let c := (r + 2 ^ Z.of_nat b)%Z in
           if (c * c * c <=? n)%Z then icbrt_bits b c n else icbrt_bits b r n
  end.
Definition icbrt (n : Z) : option Z :=
  let r := icbrt_bits (Z.to_nat (Z.log2 n / 3 + 2)) 0 n in if (r * r * r =? n)%Z then Some r else None.
(* x ** (-2/3): exact when x is a ratio of perfect cubes, otherwise exp(-2/3 ln x) *)
Definition sr_pow_m23 (a : sr) : sr :=
  match a with
  | RC n d =>
      match (if (0 <? n)%Z then icbrt n else None), icbrt (Zpos d) with
      | Some rn, Some rd => sr_of ((rd # 1) * (rd # 1) / ((rn # 1) * (rn # 1)))
      | _, _ => RExp (RMul (RC (-2) 3) (RLn a))
      end
  | _ => RExp (RMul (RC (-2) 3) (RLn a))
  end.
Definition sr_min (a b : sr) : sr :=
  match sr_q a, sr_q b with
  | Some x, Some y => if Qle_bool x y then a else b
  | _, _ => if rlt 60 a b then a else b         (* undecided only when equal to 2^-60: either is right to tolerance *)
  end.

Definition sr_fops : fops sr :=
  mk_fops sr (RC 0 1) (RC 1 1) sr_add sr_sub sr_mul sr_div sr_opp (fun z => RC z 1) sr_abs RLn RPi sr_pow_m23 sr_min
          (RDiv (RC 1 1) (RC 0 1)).

(* ---- oracles ---- *)
Definition sr_all_q (l : list sr) : option (list Q) :=
  fold_right (fun e acc => match sr_q e, acc with Some q, Some r => Some (q :: r) | _, _ => None end) (Some []) l.
Definition sr_mat_q (n m : nat) (a : arr2 sr) : option qmat :=
  fold_right (fun r acc => match sr_all_q r, acc with Some q, Some rs => Some (q :: rs) | _, _ => None end) (Some []) (tab2 n m a).

Definition sr_o_inv (n : nat) (a : arr2 sr) : option (arr2 sr) :=
  match sr_mat_q n n a with
  | None => None
  | Some qa => match qinv n qa with
               | None => None
               | Some x => if is_inverse n qa x then Some (of_list2 (RC 0 1) (map (map sr_of) x)) else None
               end
  end.
(* LU "in place": only the diagonal is read afterwards; the pivots' product is the determinant up to sign *)
Definition sr_o_lu (n : nat) (a : arr2 sr) : option (arr2 sr) :=
  match sr_mat_q n n a with
  | None => None
  | Some qa => match qpivots n qa with
               | None => None
               | Some ps => Some (fun i j => if Nat.eqb i j then sr_of (nth i ps 0) else RC 0 1)
               end
  end.
Definition sr_o_solve (n : nat) (a : arr2 sr) (b : arr1 sr) : option (arr1 sr) :=
  match sr_mat_q n n a, sr_all_q (tab1 n b) with
  | Some qa, Some qb => match qsolve n qa qb with
                        | None => None
                        | Some x => Some (of_list1 (RC 0 1) (map sr_of x))
                        end
  | _, _ => None
  end.

(* Kepler table: (P, K, e, omega, phi0, t0) -> rv at each epoch; a call with other arguments finds nothing *)
Definition sr_eqb (a b : sr) : bool :=
  match sr_q a, sr_q b with Some x, Some y => Qeq_bool x y | _, _ => false end.
Definition kepler_table := list (list sr * list sr).
Definition sr_o_kepler (tbl : kepler_table) (P K e om phi0 t0 : sr) (n : nat) : sr :=
  match find (fun entry => (fix eqs (x y : list sr) := match x, y with [], [] => true | u :: x', v :: y' => sr_eqb u v && eqs x' y' | _, _ => false end)
                           (fst entry) [P; K; e; om; phi0; t0]) tbl with
  | Some entry => nth n (snd entry) (RDiv (RC 1 1) (RC 0 1))
  | None => RDiv (RC 1 1) (RC 0 1)
  end.
Definition sr_oracles (tbl : kepler_table) : oracles sr := mk_oracles sr sr_o_inv sr_o_lu sr_o_solve (sr_o_kepler tbl).
