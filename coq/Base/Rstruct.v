(* MathComp (1.x) field structure on the standard library's real numbers, so that theorems proved over an arbitrary
   fieldType (Proofs/KernelAlg.v, CompleteSquare.v, KernelBridge2.v) can be read at R.  Follows mathcomp-analysis' Rstruct.v
   (not installed here).  Axioms used: the standard library's classical reals (Req_EM_T -> sig_forall_dec etc.),
   ClassicalEpsilon (epsilon, hence classic / constructive_indefinite_description) and functional extensionality. *)
From Coq Require Import Reals ClassicalEpsilon FunctionalExtensionality.
From mathcomp Require Import all_ssreflect ssralg.
Set Implicit Arguments.
Unset Strict Implicit.
Unset Printing Implicit Defensive.
Local Open Scope R_scope.

Definition eqr (r1 r2 : R) : bool := if Req_EM_T r1 r2 then true else false.
Lemma eqrP : Equality.axiom eqr.
Proof. by move=> r1 r2; rewrite /eqr; case: Req_EM_T=> H; constructor. Qed.
Canonical R_eqMixin := EqMixin eqrP.
Canonical R_eqType := Eval hnf in EqType R R_eqMixin.

Fact inhR : inhabited R. Proof. exact: (inhabits 0). Qed.
Definition pickR (P : pred R) (n : nat) := let x := epsilon inhR P in if P x then Some x else None.
Fact pickR_some P n x : pickR P n = Some x -> P x.
Proof. by rewrite /pickR; case: (boolP (P _)) => // Px [<-]. Qed.
Fact pickR_ex (P : pred R) : (exists x : R, P x) -> exists n, pickR P n.
Proof. by rewrite /pickR; move=> /(epsilon_spec inhR)->; exists 0%N. Qed.
Fact pickR_ext (P Q : pred R) : P =1 Q -> pickR P =1 pickR Q.
Proof. by move=> PEQ n; rewrite /pickR; have -> : P = Q by apply: functional_extensionality. Qed.
Definition R_choiceMixin : choiceMixin R := Choice.Mixin pickR_some pickR_ex pickR_ext.
Canonical R_choiceType := Eval hnf in ChoiceType R R_choiceMixin.

Fact RplusA : associative Rplus. Proof. by move=> *; rewrite Rplus_assoc. Qed.
Definition R_zmodMixin := ZmodMixin RplusA Rplus_comm Rplus_0_l Rplus_opp_l.
Canonical R_zmodType := Eval hnf in ZmodType R R_zmodMixin.

Fact RmultA : associative Rmult. Proof. by move=> *; rewrite Rmult_assoc. Qed.
Fact R1_neq_0 : R1 != R0. Proof. by apply/eqP/R1_neq_R0. Qed.
Definition R_ringMixin := RingMixin RmultA Rmult_1_l Rmult_1_r Rmult_plus_distr_r Rmult_plus_distr_l R1_neq_0.
Canonical R_ringType := Eval hnf in RingType R R_ringMixin.
Canonical R_comRingType := Eval hnf in ComRingType R Rmult_comm.

Import GRing.Theory.
Local Open Scope ring_scope.

Definition Rinvx (r : R) : R := if (r != 0) then Rinv r else r.
Definition unit_R (r : R) := r != 0.
Lemma RmultRinvx : {in unit_R, left_inverse 1 Rinvx Rmult}.
Proof. move=> r; rewrite -topredE /unit_R /Rinvx => /= rNZ /=. by rewrite rNZ Rinv_l //; apply/eqP. Qed.
Lemma RinvxRmult : {in unit_R, right_inverse 1 Rinvx Rmult}.
Proof. move=> r; rewrite -topredE /unit_R /Rinvx => /= rNZ /=. by rewrite rNZ Rinv_r //; apply/eqP. Qed.
Lemma intro_unit_R (x y : R) : y * x = 1 /\ x * y = 1 -> unit_R x.
Proof. move=> [yx1 _]; apply/eqP => x0. by move: yx1; rewrite x0 mulr0 => /esym /eqP; rewrite oner_eq0. Qed.
Lemma Rinvx_out : {in predC unit_R, Rinvx =1 id}.
Proof. by move=> x; rewrite inE /= /Rinvx /unit_R => /negbTE ->. Qed.
Definition R_unitRingMixin := UnitRingMixin RmultRinvx RinvxRmult intro_unit_R Rinvx_out.
Canonical R_unitRing := Eval hnf in UnitRingType R R_unitRingMixin.
Canonical R_comUnitRingType := Eval hnf in [comUnitRingType of R].

Lemma R_idomainMixin (x y : R) : x * y = 0 -> (x == 0) || (y == 0).
Proof. (do 2 case: (boolP (_ == _))=> // /eqP)=> yNZ xNZ xy0. by case: (Rmult_integral_contrapositive_currified _ _ xNZ yNZ). Qed.
Canonical R_idomainType := Eval hnf in IdomainType R R_idomainMixin.
Lemma R_fieldMixin : GRing.Field.mixin_of [unitRingType of R]. Proof. by done. Qed.
Definition R_fieldIdomainMixin := FieldIdomainMixin R_fieldMixin.
Canonical R_fieldType := FieldType R R_fieldMixin.

(* reading ring expressions back as standard-library operations *)
Lemma RplusE (x y : R) : x + y = Rplus x y. Proof. by []. Qed.
Lemma RoppE (x : R) : - x = Ropp x. Proof. by []. Qed.
Lemma RminusE (x y : R) : x - y = Rminus x y. Proof. by []. Qed.
Lemma RmultE (x y : R) : x * y = Rmult x y. Proof. by []. Qed.
Lemma R0E : (0 : R) = R0. Proof. by []. Qed.
Lemma R1E : (1 : R) = R1. Proof. by []. Qed.
Lemma RinvE (x : R) : x != 0 -> x^-1 = Rinv x.
Proof. by move=> xn0; rewrite /GRing.inv /= /Rinvx xn0. Qed.
Lemma RdivE (x y : R) : y != 0 -> x / y = Rdiv x y.
Proof. by move=> yn0; rewrite /Rdiv -RinvE. Qed.
Lemma RexpE (x : R) (n : nat) : x ^+ n = pow x n.
Proof. by elim: n => [|n IH] //=; rewrite exprS IH. Qed.
