(* Exact rational linear algebra for the executable instance of the kernel's LAPACK oracles and for the
   executable specification: Gauss-Jordan inverse, pivots (their product is the determinant up to
   sign), linear solve.  Carrier: Bignums' bigQ (machine-word limbs; two orders of magnitude faster
   under vm_compute than Q on the thousand-bit numbers that appear).  Every inverse used by a
   correspondence check is certified there by X * inv X = I exactly (is_inverse). *)
From Coq Require Import QArith ZArith List Bool Arith.
From Bignums Require Import BigQ.
Import ListNotations.

Definition bq := bigQ.
Definition b0 : bq := BigQ.zero.
Definition b1 : bq := BigQ.one.
Definition badd (x y : bq) : bq := BigQ.add_norm x y.
Definition bsub (x y : bq) : bq := BigQ.sub_norm x y.
Definition bmul (x y : bq) : bq := BigQ.mul_norm x y.
Definition bdiv (x y : bq) : bq := BigQ.div_norm x y.
Definition bopp (x : bq) : bq := BigQ.opp x.
Definition beq (x y : bq) : bool := BigQ.eq_bool x y.
Definition bleb (x y : bq) : bool := match BigQ.compare x y with Gt => false | _ => true end.
Definition babs (x : bq) : bq := if bleb b0 x then x else bopp x.
Definition bofQ (q : Q) : bq := BigQ.red (BigQ.of_Q q).
Definition btoQ (x : bq) : Q := Qred (BigQ.to_Q x).

Definition qrow := list bq.
Definition qmat := list qrow.

Definition qnz (q : bq) : bool := negb (beq q b0).

Fixpoint find_pivot_from (i k : nat) (rows : qmat) : option nat :=
  match rows with
  | [] => None
  | r :: rest => if qnz (nth k r b0) then Some i else find_pivot_from (S i) k rest
  end.
Definition find_pivot (k : nat) (m : qmat) : option nat := find_pivot_from k k (skipn k m).

Definition set_row (i : nat) (r : qrow) (m : qmat) : qmat :=
  map (fun p => if Nat.eqb (fst p) i then r else snd p) (combine (seq 0 (length m)) m).
Definition swap_rows (i j : nat) (m : qmat) : qmat :=
  let ri := nth i m [] in let rj := nth j m [] in set_row j ri (set_row i rj m).

Definition row_sub (r p : qrow) (f : bq) : qrow := map (fun xy => bsub (fst xy) (bmul f (snd xy))) (combine r p).

(* one elimination step on column k; returns the new matrix and the pivot *)
Definition gj_step (k : nat) (m : qmat) : option (qmat * bq) :=
  match find_pivot k m with
  | None => None
  | Some p =>
      let m1 := swap_rows k p m in
      let prow := nth k m1 [] in
      let pv := nth k prow b0 in
      let prow' := map (fun x => bdiv x pv) prow in
      Some (map (fun ir => if Nat.eqb (fst ir) k then prow' else row_sub (snd ir) prow' (nth k (snd ir) b0))
                (combine (seq 0 (length m1)) m1), pv)
  end.
Fixpoint gj (fuel k : nat) (m : qmat) (pivots : list bq) : option (qmat * list bq) :=
  match fuel with
  | O => Some (m, rev pivots)
  | S f => match gj_step k m with
           | None => None
           | Some (m', pv) => gj f (S k) m' (pv :: pivots)
           end
  end.

Definition identity (n : nat) : qmat := map (fun i => map (fun j => if Nat.eqb i j then b1 else b0) (seq 0 n)) (seq 0 n).
Definition augment (a b : qmat) : qmat := map (fun rs => fst rs ++ snd rs) (combine a b).

Definition qinv (n : nat) (a : qmat) : option qmat :=
  match gj n 0 (augment a (identity n)) [] with
  | None => None
  | Some (m, _) => Some (map (skipn n) m)
  end.
Definition qpivots (n : nat) (a : qmat) : option (list bq) :=
  match gj n 0 a [] with None => None | Some (_, ps) => Some ps end.
Definition qsolve (n : nat) (a : qmat) (b : list bq) : option (list bq) :=
  match gj n 0 (augment a (map (fun x => [x]) b)) [] with
  | None => None
  | Some (m, _) => Some (map (fun r => nth n r b0) m)
  end.

Definition dotq (a b : list bq) : bq := fold_right (fun xy acc => badd acc (bmul (fst xy) (snd xy))) b0 (combine a b).
Definition qcol (j : nat) (m : qmat) : list bq := map (fun r => nth j r b0) m.
Definition qmul (n : nat) (a b : qmat) : qmat :=
  map (fun i => map (fun j => dotq (nth i a []) (qcol j b)) (seq 0 n)) (seq 0 n).
Definition qrow_eqb (u v : qrow) : bool :=
  (fix eqr (u v : qrow) := match u, v with [], [] => true | p :: u', q :: v' => beq p q && eqr u' v' | _, _ => false end) u v.
Definition qmat_eqb (a b : qmat) : bool :=
  (fix eqm (x y : qmat) := match x, y with
    | [], [] => true
    | r :: x', s :: y' => qrow_eqb r s && eqm x' y'
    | _, _ => false end) a b.
(* the certificate: a * x = I exactly *)
Definition is_inverse (n : nat) (a x : qmat) : bool := qmat_eqb (qmul n a x) (identity n).
Definition qprod (l : list bq) : bq := fold_right bmul b1 l.
