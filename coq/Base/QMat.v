(* Exact rational linear algebra for the executable instance of the kernel's LAPACK oracles:
   Gauss-Jordan inverse, pivots (their product is the determinant up to sign), linear solve.
   Every use is certified case by case by the harness-visible checks X * inv X = I (Model/KernelRun.v). *)
From Coq Require Import QArith ZArith List Bool Arith.
Import ListNotations.

Definition qrow := list Q.
Definition qmat := list qrow.

Definition qnz (q : Q) : bool := negb (Qeq_bool q 0).

Fixpoint find_pivot_from (i k : nat) (rows : qmat) : option nat :=
  match rows with
  | [] => None
  | r :: rest => if qnz (nth k r 0) then Some i else find_pivot_from (S i) k rest
  end.
Definition find_pivot (k : nat) (m : qmat) : option nat := find_pivot_from k k (skipn k m).

Definition set_row (i : nat) (r : qrow) (m : qmat) : qmat :=
  map (fun p => if Nat.eqb (fst p) i then r else snd p) (combine (seq 0 (length m)) m).
Definition swap_rows (i j : nat) (m : qmat) : qmat :=
  let ri := nth i m [] in let rj := nth j m [] in set_row j ri (set_row i rj m).

Definition row_sub (r p : qrow) (f : Q) : qrow := map (fun xy => Qred (fst xy - f * snd xy)) (combine r p).

(* one elimination step on column k; returns the new matrix and the pivot *)
Definition gj_step (k : nat) (m : qmat) : option (qmat * Q) :=
  match find_pivot k m with
  | None => None
  | Some p =>
      let m1 := swap_rows k p m in
      let prow := nth k m1 [] in
      let pv := nth k prow 0 in
      let prow' := map (fun x => Qred (x / pv)) prow in
      Some (map (fun ir => if Nat.eqb (fst ir) k then prow' else row_sub (snd ir) prow' (nth k (snd ir) 0))
                (combine (seq 0 (length m1)) m1), pv)
  end.
Fixpoint gj (fuel k : nat) (m : qmat) (pivots : list Q) : option (qmat * list Q) :=
  match fuel with
  | O => Some (m, rev pivots)
  | S f => match gj_step k m with
           | None => None
           | Some (m', pv) => gj f (S k) m' (pv :: pivots)
           end
  end.

Definition identity (n : nat) : qmat := map (fun i => map (fun j => if Nat.eqb i j then 1 else 0) (seq 0 n)) (seq 0 n).
Definition augment (a b : qmat) : qmat := map (fun rs => fst rs ++ snd rs) (combine a b).

Definition qinv (n : nat) (a : qmat) : option qmat :=
  match gj n 0 (augment a (identity n)) [] with
  | None => None
  | Some (m, _) => Some (map (skipn n) m)
  end.
Definition qpivots (n : nat) (a : qmat) : option (list Q) :=
  match gj n 0 a [] with None => None | Some (_, ps) => Some ps end.
Definition qsolve (n : nat) (a : qmat) (b : list Q) : option (list Q) :=
  match gj n 0 (augment a (map (fun x => [x]) b)) [] with
  | None => None
  | Some (m, _) => Some (map (fun r => nth n r 0) m)
  end.

Definition qmul (n : nat) (a b : qmat) : qmat :=
  map (fun i => map (fun j => fold_right (fun k acc => Qred (acc + nth k (nth i a []) 0 * nth j (nth k b []) 0)) 0 (seq 0 n)) (seq 0 n)) (seq 0 n).
Definition qmat_eqb (a b : qmat) : bool :=
  (fix eqm (x y : qmat) := match x, y with
    | [], [] => true
    | r :: x', s :: y' => (fix eqr (u v : qrow) := match u, v with [], [] => true | p :: u', q :: v' => Qeq_bool p q && eqr u' v' | _, _ => false end) r s && eqm x' y'
    | _, _ => false end) a b.
(* the certificate: a * x = I exactly *)
Definition is_inverse (n : nat) (a x : qmat) : bool := qmat_eqb (qmul n a x) (identity n).
