(* Bridge between the generated kernel model (operations record Base/Fops.v) and MathComp fields:
   the operations record of an arbitrary fieldType, and what the generated jitter folding means there. *)
From mathcomp Require Import all_ssreflect all_algebra.
From Coq Require Import ZArith.
From TJ Require Import Base.Imp Base.Fops Gen.KernelPyx Proofs.KernelChar.
Set Implicit Arguments. Unset Strict Implicit. Unset Printing Implicit Defensive.
Import GRing.Theory.
Local Open Scope ring_scope.

Section Bridge.
Variable (F : fieldType).
(* the transcendental / order operations are arbitrary: the facts below do not depend on them *)
Variables (lg : F -> F) (pi_ : F) (pw : F -> F) (mn : F -> F -> F) (ab : F -> F) (inf : F).

Definition zF (z : Z) : F :=
  match z with Z0 => 0 | Zpos p => (Pos.to_nat p)%:R | Zneg p => - (Pos.to_nat p)%:R end.
Definition mc_fops : fops F :=
  mk_fops F 0 1 +%R (fun x y => x - y) *%R (fun x y => x / y) -%R zF ab lg pi_ pw mn inf.

(* get_ivar folds the jitter into the inverse variance: 1 / new_ivar = 1 / ivar + s^2, i.e. the variance sigma^2 + s^2 *)
Lemma jitter_folded (ivar : arr1 F) (s : F) (i : nat) :
  ivar i != 0 -> 1 + s * s * ivar i != 0 ->
  (jittered mc_fops ivar s i)^-1 = (ivar i)^-1 + s * s.
Proof.
move=> Hi Hd; rewrite /jittered /= /zF /=.
by rewrite invf_div mulrDl mul1r mulfK.
Qed.

Lemma get_ivar_variance (len : Z) (ivar new_ivar : arr1 F) (s : F) (i : nat) :
  (0 <= len)%Z -> (Z.of_nat i < len)%Z -> ivar i != 0 -> 1 + s * s * ivar i != 0 ->
  (get_ivar mc_fops len ivar s new_ivar i)^-1 = (ivar i)^-1 + s * s.
Proof.
move=> Hl Hi H1 H2; rewrite get_ivar_char //.
by move/Z.ltb_lt: Hi => ->; apply: jitter_folded.
Qed.
End Bridge.
