(* Matrix identities behind the kernel (C01, C03, C04, C07, C08), for every field and all dimensions (MathComp).
   woodbury      : B * Binv = 1 for B = C + M L M^T, Binv = Ci - Ci M A M^T Ci, A the inverse of Li + M^T Ci M
   sylvester     : det(1 + U V) = det(1 + V U)
   det_B, det_B_A: det B = det C det L det(Li + M^T Ci M);  det B det A = det C det L
   scale_*       : change of velocity unit (factor c): B -> c^2 B, Binv -> c^-2 Binv, chi^2 unchanged, det B -> c^(2n) det B
   perm_*        : simultaneous permutation of the epochs leaves det B and chi^2 unchanged *)
From mathcomp Require Import all_ssreflect all_fingroup all_algebra.
Set Implicit Arguments. Unset Strict Implicit. Unset Printing Implicit Defensive.
Import GRing.Theory.
Local Open Scope ring_scope.

Section Woodbury.
Variables (F : fieldType) (n k : nat).
Variables (M : 'M[F]_(n, k)) (C Ci : 'M[F]_n) (L Li A : 'M[F]_k).
Hypothesis HC : C *m Ci = 1%:M.
Hypothesis HL : L *m Li = 1%:M.
Let Ainv := Li + M^T *m Ci *m M.
Hypothesis HA : Ainv *m A = 1%:M.
Let B := C + M *m L *m M^T.
Let Binv := Ci - Ci *m M *m A *m M^T *m Ci.

Lemma woodbury : B *m Binv = 1%:M.
Proof.
have HLi : Li *m L = 1%:M by apply: mulmx1C.
have key : L *m (M^T *m Ci *m M) *m A = L - A.
  have -> : M^T *m Ci *m M = Ainv - Li by rewrite /Ainv addrC addKr.
  by rewrite mulmxBr mulmxBl -mulmxA HA mulmx1 HL mul1mx.
rewrite /B /Binv mulmxBr !mulmxDl HC.
rewrite -!mulmxA.
have -> : C *m (Ci *m (M *m (A *m (M^T *m Ci)))) = M *m (A *m (M^T *m Ci)) by rewrite mulmxA HC mul1mx.
have -> : M *m (L *m (M^T *m (Ci *m (M *m (A *m (M^T *m Ci)))))) = M *m ((L - A) *m (M^T *m Ci)).
  by rewrite -key -!mulmxA.
by rewrite mulmxBl mulmxBr [M *m (A *m _) + _]addrC subrK addrK.
Qed.
End Woodbury.
Section Sylvester.
Variables (F : fieldType) (n k : nat).
Lemma sylvester (U : 'M[F]_(n, k)) (V : 'M[F]_(k, n)) : \det (1%:M + U *m V) = \det (1%:M + V *m U).
Proof.
pose X : 'M[F]_(n + k) := block_mx 1%:M (- U) V 1%:M.
have E1 : X = block_mx 1%:M 0 V 1%:M *m block_mx 1%:M (- U) 0 (1%:M + V *m U).
  rewrite /X mulmx_block ?mul1mx ?mulmx1 ?mul0mx ?mulmx0 ?addr0 ?add0r ?mulmxN.
  by rewrite [1%:M + _]addrC addKr.
have E2 : X = block_mx (1%:M + U *m V) (- U) 0 1%:M *m block_mx 1%:M 0 V 1%:M.
  rewrite /X mulmx_block ?mul1mx ?mulmx1 ?mul0mx ?mulmx0 ?addr0 ?add0r ?mulNmx.
  by rewrite addrK.
have D1 : \det X = \det (1%:M + V *m U) by rewrite E1 det_mulmx det_lblock det_ublock !det1 !mul1r.
have D2 : \det X = \det (1%:M + U *m V) by rewrite E2 det_mulmx det_ublock det_lblock !det1 !mulr1.
by rewrite -D1 -D2.
Qed.
End Sylvester.

Section DetLemma.
Variables (F : fieldType) (n k : nat).
Variables (M : 'M[F]_(n, k)) (C Ci : 'M[F]_n) (L Li A : 'M[F]_k).
Hypothesis HC : C *m Ci = 1%:M.
Hypothesis HL : L *m Li = 1%:M.
Let Ainv := Li + M^T *m Ci *m M.
Hypothesis HA : Ainv *m A = 1%:M.
Let B := C + M *m L *m M^T.

Lemma det_B : \det B = \det C * \det L * \det Ainv.
Proof.
have HLi : Li *m L = 1%:M by apply: mulmx1C.
have -> : B = C *m (1%:M + (Ci *m M *m L) *m M^T).
  by rewrite /B mulmxDr mulmx1 !mulmxA HC mul1mx.
rewrite det_mulmx sylvester.
have -> : 1%:M + M^T *m (Ci *m M *m L) = Ainv *m L.
  by rewrite /Ainv mulmxDl HLi !mulmxA.
by rewrite det_mulmx [\det Ainv * _]mulrC mulrA.
Qed.

Lemma det_B_A : \det B * \det A = \det C * \det L.
Proof.
have H1 : \det Ainv * \det A = 1 by rewrite -det_mulmx HA det1.
by rewrite det_B -mulrA H1 mulr1.
Qed.
End DetLemma.

(* ---- change of velocity unit: every velocity-valued quantity is multiplied by c <> 0 ---- *)
Section UnitScaling.
Variables (F : fieldType) (n k : nat).
Variables (M : 'M[F]_(n, k)) (C Ci : 'M[F]_n) (L A : 'M[F]_k) (r : 'cV[F]_n) (c : F).
Hypothesis Hc : c != 0.
Let B := C + M *m L *m M^T.
Let Binv := Ci - Ci *m M *m A *m M^T *m Ci.
Let B' := (c ^+ 2 *: C) + M *m (c ^+ 2 *: L) *m M^T.
Let Binv' := (c ^- 2 *: Ci) - (c ^- 2 *: Ci) *m M *m (c ^+ 2 *: A) *m M^T *m (c ^- 2 *: Ci).

Lemma scale_B : B' = c ^+ 2 *: B.
Proof. by rewrite /B' /B scalerDr -scalemxAr -scalemxAl. Qed.

Lemma scale_Binv : Binv' = c ^- 2 *: Binv.
Proof.
have Hc2 : c ^- 2 * c ^+ 2 = 1 by rewrite mulVf // expf_neq0.
rewrite /Binv' /Binv scalerBr; congr (_ - _).
rewrite -!scalemxAl -!scalemxAr -!scalemxAl !scalerA.
by rewrite Hc2 mulr1.
Qed.

Lemma scale_chi2 : (c *: r)^T *m Binv' *m (c *: r) = r^T *m Binv *m r.
Proof.
rewrite scale_Binv -scalemxAr [(c *: r)^T]linearZ /= -!scalemxAl -scalemxAr -scalemxAl !scalerA.
have -> : c * c / c ^+ 2 = 1 by rewrite -expr2 mulfV // expf_neq0.
by rewrite scale1r.
Qed.

Lemma scale_det : \det B' = (c ^+ 2) ^+ n * \det B.
Proof. by rewrite scale_B detZ. Qed.

(* the conditional posterior of the linear parameters scales with the unit: A^-1 -> c^-2 A^-1, and if A^-1 a = h then
   the rescaled system A'^-1 a' = c^-1 h is solved by a' = c a *)
Variables (Li : 'M[F]_k) (h a : 'cV[F]_k).
Let Ainv := Li + M^T *m Ci *m M.
Let Ainv' := (c ^- 2 *: Li) + M^T *m (c ^- 2 *: Ci) *m M.
Lemma scale_Ainv : Ainv' = c ^- 2 *: Ainv.
Proof. by rewrite /Ainv' /Ainv scalerDr -scalemxAr -scalemxAl. Qed.
Lemma scale_a : Ainv *m a = h -> Ainv' *m (c *: a) = c ^-1 *: h.
Proof.
move=> Ha; rewrite scale_Ainv -scalemxAl -scalemxAr scalerA Ha.
congr (_ *: _); rewrite expr2 invfM -mulrA mulVf ?mulr1 //.
Qed.
End UnitScaling.

(* ---- simultaneous permutation of the epochs (rows of y, M; rows and columns of C) ---- *)
Section RowPerm.
Variables (F : fieldType) (n k : nat).
Variables (M : 'M[F]_(n, k)) (C : 'M[F]_n) (L : 'M[F]_k) (s : 'S_n).
Let P := perm_mx s : 'M[F]_n.
Let B := C + M *m L *m M^T.
Let B' := (P *m C *m P^T) + (P *m M) *m L *m (P *m M)^T.

Lemma perm_B : B' = P *m B *m P^T.
Proof. by rewrite /B' /B mulmxDr mulmxDl trmx_mul !mulmxA. Qed.

Lemma perm_PPt : P *m P^T = 1%:M.
Proof. by rewrite /P tr_perm_mx -perm_mxM mulgV perm_mx1. Qed.

Lemma perm_det : \det B' = \det B.
Proof.
rewrite perm_B !det_mulmx det_tr mulrAC -det_mulmx.
have -> : P *m P = perm_mx (s * s)%g by rewrite -perm_mxM.
rewrite det_perm. 
by rewrite odd_permM addbb expr0 mul1r.
Qed.

(* chi^2 is unchanged: with Binv' := P Binv P^T (which is the inverse of B' whenever Binv is the inverse of B) *)
Lemma perm_inv (Binv : 'M[F]_n) : B *m Binv = 1%:M -> B' *m (P *m Binv *m P^T) = 1%:M.
Proof.
move=> HB; have HP : P^T *m P = 1%:M by apply: mulmx1C; exact: perm_PPt.
by rewrite perm_B -!mulmxA [P^T *m (P *m _)]mulmxA HP mul1mx [B *m (_ *m _)]mulmxA HB mul1mx perm_PPt.
Qed.

Lemma perm_chi2 (Binv : 'M[F]_n) (r : 'cV[F]_n) :
  (P *m r)^T *m (P *m Binv *m P^T) *m (P *m r) = r^T *m Binv *m r.
Proof.
have HP : P^T *m P = 1%:M by apply: mulmx1C; exact: perm_PPt.
by rewrite trmx_mul -!mulmxA [P^T *m (P *m r)]mulmxA HP mul1mx [P^T *m (P *m _)]mulmxA HP mul1mx.
Qed.
End RowPerm.
