(* C13 -- proofs about the GENERATED skeleton of tempfile_decorator.wrapper (Gen/TempfileSkel.v). *)
From Coq Require Import List Bool Arith Lia.
From TJ Require Import Model.TempFile Gen.TempfileSkel.

(* number of faultable steps on the path taken for each kind of input *)
Definition n_faultable (inp : input) : nat := match inp with InObj => 2 | InStr => 1 | InBadType => 0 end.

Ltac cases inp fault :=
  destruct inp; destruct fault as [[|[|k]]|]; vm_compute; try reflexivity; try lia.

Lemma skel_no_leak inp fault : no_leak (run wrapper_skel inp fault) = true.
Proof. cases inp fault. Qed.

Lemma skel_user_intact inp fault : user_ok (run wrapper_skel inp fault) = true.
Proof. cases inp fault. Qed.

Lemma skel_propagates inp k :
  (k < n_faultable inp)%nat -> snd (run wrapper_skel inp (Some k)) = Raised (EFault k).
Proof. destruct inp; destruct k as [|[|k]]; cbn [n_faultable]; intros H; try lia; vm_compute; reflexivity. Qed.

Lemma skel_normal inp :
  snd (run wrapper_skel inp None) = match inp with InBadType => Raised ETypeError | _ => Returned end.
Proof. destruct inp; vm_compute; reflexivity. Qed.

(* a fault position beyond the path never fires *)
Lemma skel_late_fault inp k :
  (n_faultable inp <= k)%nat -> run wrapper_skel inp (Some k) = run wrapper_skel inp None.
Proof. destruct inp; destruct k as [|[|k]]; cbn [n_faultable]; intros H; try lia; vm_compute; reflexivity. Qed.

(* the outcome is never a silent fall-through: every call ends by returning the wrapped function's value or by raising *)
Lemma skel_never_falls_through inp fault : snd (run wrapper_skel inp fault) <> Normal.
Proof. cases inp fault; discriminate. Qed.

(* the cache is pointed at the temp file only after it was written, and the call never finds the file missing *)
Lemma skel_never_missing inp fault : snd (run wrapper_skel inp fault) <> Raised EMissingFile.
Proof. cases inp fault; discriminate. Qed.

Lemma readonly_side_condition : body_opens_readonly = true.
Proof. reflexivity. Qed.
