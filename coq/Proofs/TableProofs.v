(* C17 -- proofs about the sample-table model. *)
From Coq Require Import Reals QArith Qreals ZArith List Bool Arith Lia Lra.
From TJ Require Import Base.XQ Base.Corr Base.RealEnc Model.RVData Proofs.RVDataProofs Model.Table.
Import ListNotations.

(* ---- trigonometry over R ---- *)
Lemma cos_period_Z (x : R) (n : Z) : cos (x + 2 * IZR n * PI)%R = cos x.
Proof.
  destruct (Z_le_gt_dec 0 n) as [Hn|Hn].
  - rewrite <- (Z2Nat.id n Hn), <- INR_IZR_INZ. apply cos_period.
  - replace x with ((x + 2 * IZR n * PI) + 2 * INR (Z.to_nat (- n)) * PI)%R at 2.
    + symmetry. apply cos_period.
    + rewrite INR_IZR_INZ, Z2Nat.id by lia. rewrite opp_IZR. ring.
Qed.

(* wrap_K: flipping the sign of K and moving omega by pi (modulo full turns) leaves the RV curve
   K (cos(omega + f) + e cos omega) unchanged, for every true anomaly f *)
Lemma wrap_same_curve (K w e f : R) (n : Z) :
  let w' := (w + PI - 2 * IZR n * PI)%R in
  ((- K) * (cos (w' + f) + e * cos w') = K * (cos (w + f) + e * cos w))%R.
Proof.
  intros w'. subst w'.
  replace (w + PI - 2 * IZR n * PI + f)%R with ((w + f + PI) + 2 * IZR (- n) * PI)%R by (rewrite opp_IZR; ring).
  replace (w + PI - 2 * IZR n * PI)%R with ((w + PI) + 2 * IZR (- n) * PI)%R by (rewrite opp_IZR; ring).
  rewrite !cos_period_Z, !neg_cos. ring.
Qed.

Lemma rval_omega_wrapped w n : rval (omega_wrapped w n) = (Q2R w + PI - 2 * IZR n * PI)%R.
Proof.
  unfold omega_wrapped. cbn [rval]. rewrite rval_RQ, mult_IZR. field.
Qed.

(* an accepted wrap_K row certificate: K' = |K| >= 0, omega untouched where K >= 0, and where K < 0 the new
   omega is within tol of omega + pi - 2 pi n, which lies in [-tol, 2 pi + tol) *)
Lemma wrapk_row_sound prec tol k w k' w' n :
  wrapk_row_ok prec tol k w k' w' n = true ->
  (0 <= k /\ k' = k /\ w' = w) \/
  (k < 0 /\ k' = Qopp k /\
   (Rabs ((Q2R w + PI - 2 * IZR n * PI) - Q2R w') <= Q2R tol)%R /\
   (- Q2R tol <= Q2R w + PI - 2 * IZR n * PI < 2 * PI + Q2R tol)%R).
Proof.
  unfold wrapk_row_ok. destruct (Qle_bool 0 k) eqn:E.
  - apply Qle_bool_iff in E. rewrite andb_true_iff. intros [H1 H2]. left.
    apply q_ideqb_eq in H1, H2. auto.
  - rewrite !andb_true_iff. intros [[[H1 H2] H3] H4]. right.
    assert (Hk : k < 0).
    { destruct (Qlt_le_dec k 0) as [Hlt|Hge]; [exact Hlt|]. apply Qle_bool_iff in Hge. congruence. }
    apply q_ideqb_eq in H1. apply rclose_correct in H2. apply rnonneg_correct in H3. apply rpos_correct in H4.
    cbn [rval] in H3, H4. rewrite rval_omega_wrapped in H2. rewrite !rval_RQ in *.
    rewrite rval_omega_wrapped in H3, H4.
    split; [exact Hk|]. split; [symmetry; exact H1|]. split; [exact H2|].
    replace (IZR 2 / IZR 1)%R with 2%R in H4 by field. lra.
Qed.

(* get_time_with_phase: at the returned time the mean anomaly 2 pi (t - t_ref)/P - M0 equals the requested phase *)
Lemma phase_time_correct P M0 phi :
  ~ P == 0 ->
  (2 * PI * rval (time_with_phase P M0 phi) / Q2R P - Q2R M0 = Q2R phi)%R.
Proof.
  intros HP. unfold time_with_phase. cbn [rval]. rewrite !rval_RQ.
  assert (Q2R P <> 0%R).
  { intros E. apply HP. apply eqR_Qeq. rewrite E. unfold Q2R. cbn. lra. }
  pose proof PI_neq0. replace (IZR 2 / IZR 1)%R with 2%R by field. field. split; assumption.
Qed.

(* ---- selection keeps header and metadata; values are the selected rows ---- *)
Lemma select_meta idx t : st_meta (select idx t) = st_meta t.
Proof. reflexivity. Qed.
Lemma select_header idx t :
  map (fun c => (sc_name c, sc_unit c)) (st_cols (select idx t)) = map (fun c => (sc_name c, sc_unit c)) (st_cols t).
Proof. unfold select. cbn [st_cols]. rewrite map_map. reflexivity. Qed.
Lemma select_values idx t j :
  (j < length (st_cols t))%nat ->
  sc_vals (nth j (st_cols (select idx t)) (mk_scol 0 0 [])) = gather 0%Q idx (sc_vals (nth j (st_cols t) (mk_scol 0 0 []))).
Proof.
  intros Hj. unfold select. cbn [st_cols].
  rewrite (nth_indep _ (mk_scol 0 0 []) ((fun c => mk_scol (sc_name c) (sc_unit c) (gather 0%Q idx (sc_vals c))) (mk_scol 0 0 [])))
    by (rewrite map_length; exact Hj).
  rewrite (map_nth (fun c => mk_scol (sc_name c) (sc_unit c) (gather 0%Q idx (sc_vals c))) (st_cols t) (mk_scol 0 0 []) j).
  reflexivity.
Qed.
Lemma select_nrows idx t c : In c (st_cols (select idx t)) -> length (sc_vals c) = length idx.
Proof.
  unfold select. cbn [st_cols]. rewrite in_map_iff. intros (c0 & <- & _). cbn. unfold gather. apply map_length.
Qed.

(* median_period returns a member row whose period has rank floor(n/2) *)
Lemma rank_ok_spec ps i :
  rank_ok ps i = true ->
  (i < length ps)%nat /\ In (nth i ps 0%Q) ps /\
  (count_lt (nth i ps 0%Q) ps <= length ps / 2 < count_le (nth i ps 0%Q) ps)%nat.
Proof.
  unfold rank_ok. rewrite !andb_true_iff, Nat.ltb_lt, Nat.leb_le, Nat.ltb_lt. intros [[H1 H2] H3].
  split; [exact H1|]. split; [apply nth_In, H1|lia].
Qed.

(* |K| is non-negative *)
Lemma qabs_nonneg q : 0 <= qabs q.
Proof.
  unfold qabs. destruct (Qle_bool 0 q) eqn:E; [apply Qle_bool_iff, E|].
  destruct (Qlt_le_dec q 0) as [Hlt|Hge].
  - apply Qlt_le_weak in Hlt. apply Qopp_le_compat in Hlt. exact Hlt.
  - apply Qle_bool_iff in Hge. congruence.
Qed.
