(* C17 -- proofs about the sample-table model. *)
From Coq Require Import Reals QArith Qreals ZArith List Bool Arith Lia Lra.
From TJ Require Import Base.XQ Base.Corr Base.RealEnc Model.RVData Proofs.RVDataProofs Model.Table.
Import ListNotations.

(* ---- trigonometry over R ---- *)
Lemma cos_period_Z (x : R) (n : Z) : cos (x + 2 * IZR n * PI)%R = cos x.
Proof.
  destruct (Z_le_gt_dec 0 n) as [Hn|Hn].
  - rewrite <- (Z2Nat.id n Hn), <- INR_IZR_INZ. apply cos_period.
  - replace x with ((x + 2 * IZR n * PI) + 2 * INR (Z.to_nat (- n)) * PI)%R at 2.
    + symmetry. apply cos_period.
    + rewrite INR_IZR_INZ, Z2Nat.id by lia. rewrite opp_IZR. ring.
Qed.

(* wrap_K: flipping the sign of K and moving omega by pi (modulo full turns) leaves the RV curve
   K (cos(omega + f) + e cos omega) unchanged, for every true anomaly f *)
Lemma wrap_same_curve (K w e f : R) (n : Z) :
  let w' := (w + PI - 2 * IZR n * PI)%R in
  ((- K) * (cos (w' + f) + e * cos w') = K * (cos (w + f) + e * cos w))%R.
Proof.
  intros w'. subst w'.
  replace (w + PI - 2 * IZR n * PI + f)%R with ((w + f + PI) + 2 * IZR (- n) * PI)%R by (rewrite opp_IZR; ring).
  replace (w + PI - 2 * IZR n * PI)%R with ((w + PI) + 2 * IZR (- n) * PI)%R by (rewrite opp_IZR; ring).
  rewrite !cos_period_Z, !neg_cos. ring.
Qed.

Lemma rval_omega_wrapped w n : rval (omega_wrapped w n) = (Q2R w + PI - 2 * IZR n * PI)%R.
Proof.
  unfold omega_wrapped. cbn [rval]. rewrite rval_RQ, mult_IZR. field.
Qed.

(* an accepted wrap_K row certificate: K' = |K| >= 0, omega untouched where K >= 0, and where K < 0 the new
   omega is within tol of omega + pi - 2 pi n, which lies in [-tol, 2 pi + tol) *)
Lemma wrapk_row_sound prec tol k w k' w' n :
  wrapk_row_ok prec tol k w k' w' n = true ->
  (0 <= k /\ k' = k /\ w' = w) \/
  (k < 0 /\ k' = Qopp k /\
   (Rabs ((Q2R w + PI - 2 * IZR n * PI) - Q2R w') <= Q2R tol)%R /\
   (- Q2R tol <= Q2R w + PI - 2 * IZR n * PI < 2 * PI + Q2R tol)%R).
Proof.
  unfold wrapk_row_ok. destruct (Qle_bool 0 k) eqn:E.
  - apply Qle_bool_iff in E. rewrite andb_true_iff. intros [H1 H2]. left.
    apply q_ideqb_eq in H1, H2. auto.
  - rewrite !andb_true_iff. intros [[[H1 H2] H3] H4]. right.
    assert (Hk : k < 0).
    { destruct (Qlt_le_dec k 0) as [Hlt|Hge]; [exact Hlt|]. apply Qle_bool_iff in Hge. congruence. }
    apply q_ideqb_eq in H1. apply rclose_correct in H2. apply rnonneg_correct in H3. apply rpos_correct in H4.
    cbn [rval] in H3, H4. rewrite rval_omega_wrapped in H2. rewrite !rval_RQ in *.
    rewrite rval_omega_wrapped in H3, H4.
    split; [exact Hk|]. split; [symmetry; exact H1|]. split; [exact H2|].
    replace (IZR 2 / IZR 1)%R with 2%R in H4 by field. lra.
Qed.

(* get_time_with_phase: at the returned time the mean anomaly 2 pi (t - t_ref)/P - M0 equals the requested phase *)
Lemma phase_time_correct P M0 phi :
  ~ P == 0 ->
  (2 * PI * rval (time_with_phase P M0 phi) / Q2R P - Q2R M0 = Q2R phi)%R.
Proof.
  intros HP. unfold time_with_phase. cbn [rval]. rewrite !rval_RQ.
  assert (Q2R P <> 0%R).
  { intros E. apply HP. apply eqR_Qeq. rewrite E. unfold Q2R. cbn. lra. }
  pose proof PI_neq0. replace (IZR 2 / IZR 1)%R with 2%R by field. field. split; assumption.
Qed.

(* ---- selection keeps header and metadata; values are the selected rows ---- *)
Lemma select_meta idx t : st_meta (select idx t) = st_meta t.
Proof. reflexivity. Qed.
Lemma select_header idx t :
  map (fun c => (sc_name c, sc_unit c)) (st_cols (select idx t)) = map (fun c => (sc_name c, sc_unit c)) (st_cols t).
Proof. unfold select. cbn [st_cols]. rewrite map_map. reflexivity. Qed.
Lemma select_values idx t j :
  (j < length (st_cols t))%nat ->
  sc_vals (nth j (st_cols (select idx t)) (mk_scol 0 0 [])) = gather 0%Q idx (sc_vals (nth j (st_cols t) (mk_scol 0 0 []))).
Proof.
  intros Hj. unfold select. cbn [st_cols].
  rewrite (nth_indep _ (mk_scol 0 0 []) ((fun c => mk_scol (sc_name c) (sc_unit c) (gather 0%Q idx (sc_vals c))) (mk_scol 0 0 [])))
    by (rewrite map_length; exact Hj).
  rewrite (map_nth (fun c => mk_scol (sc_name c) (sc_unit c) (gather 0%Q idx (sc_vals c))) (st_cols t) (mk_scol 0 0 []) j).
  reflexivity.
Qed.
Lemma select_nrows idx t c : In c (st_cols (select idx t)) -> length (sc_vals c) = length idx.
Proof.
  unfold select. cbn [st_cols]. rewrite in_map_iff. intros (c0 & <- & _). cbn. unfold gather. apply map_length.
Qed.

(* median_period returns a member row whose period has rank floor(n/2) *)
Lemma rank_ok_spec ps i :
  rank_ok ps i = true ->
  (i < length ps)%nat /\ In (nth i ps 0%Q) ps /\
  (count_lt (nth i ps 0%Q) ps <= length ps / 2 < count_le (nth i ps 0%Q) ps)%nat.
Proof.
  unfold rank_ok. rewrite !andb_true_iff, Nat.ltb_lt, Nat.leb_le, Nat.ltb_lt. intros [[H1 H2] H3].
  split; [exact H1|]. split; [apply nth_In, H1|lia].
Qed.

(* |K| is non-negative *)
Lemma qabs_nonneg q : 0 <= qabs q.
Proof.
  unfold qabs. destruct (Qle_bool 0 q) eqn:E; [apply Qle_bool_iff, E|].
  destruct (Qlt_le_dec q 0) as [Hlt|Hge].
  - apply Qlt_le_weak in Hlt. apply Qopp_le_compat in Hlt. exact Hlt.
  - apply Qle_bool_iff in Hge. congruence.
Qed.

(* ---- pack / unpack are mutually inverse (all tables, all matrices) ---- *)
(* a well-formed table: distinct column names, every column as long as the first one *)
Definition wf_tab (t : stab) : Prop :=
  NoDup (map sc_name (st_cols t)) /\ forall c, In c (st_cols t) -> length (sc_vals c) = nrows t.
Definition header (t : stab) : list (nat * nat) := map (fun c => (sc_name c, sc_unit c)) (st_cols t).
Definition col_names (t : stab) : list nat := map sc_name (st_cols t).

Lemma get_col_in t c : NoDup (map sc_name (st_cols t)) -> In c (st_cols t) -> get_col t (sc_name c) = sc_vals c.
Proof.
  unfold get_col. induction (st_cols t) as [|d l IH]; intros Hnd Hin; [destruct Hin|].
  cbn [find]. destruct (Nat.eqb (sc_name d) (sc_name c)) eqn:E.
  - destruct Hin as [->|Hin]; [reflexivity|].
    apply Nat.eqb_eq in E. cbn [map] in Hnd. inversion Hnd as [|x xs Hni Hnd']; subst.
    exfalso. apply Hni. rewrite E. apply in_map. exact Hin.
  - destruct Hin as [->|Hin]; [rewrite Nat.eqb_refl in E; discriminate|].
    cbn [map] in Hnd. inversion Hnd; subst. apply IH; assumption.
Qed.

Lemma nth_seq_map {A} (l : list A) (d : A) : map (fun i => nth i l d) (seq 0 (length l)) = l.
Proof.
  induction l as [|a l IH]; [reflexivity|]. cbn [length seq map nth]. f_equal.
  rewrite <- seq_shift, map_map. exact IH.
Qed.

(* column j of the packed matrix is the j-th requested column *)
Lemma pack_column names t j nm :
  nth_error names j = Some nm -> length (get_col t nm) = nrows t ->
  map (fun r => nth j r 0%Q) (pack names t) = get_col t nm.
Proof.
  intros Hj Hlen. unfold pack. rewrite map_map.
  etransitivity; [|apply (nth_seq_map (get_col t nm) 0%Q)]. rewrite Hlen.
  apply map_ext. intros i.
  assert (Hlt : (j < length names)%nat) by (apply nth_error_Some; congruence).
  set (f := fun nm0 : nat => nth i (get_col t nm0) 0%Q).
  rewrite (nth_indep _ 0%Q (f nm)) by (rewrite map_length; exact Hlt).
  rewrite map_nth. rewrite (nth_error_nth _ _ nm Hj). reflexivity.
Qed.

Lemma rebuild_cols (col : nat -> list Q) (cols : list scol) : forall k,
  (forall j c, nth_error cols j = Some c -> col (k + j)%nat = sc_vals c) ->
  map (fun jc : nat * (nat * nat) => mk_scol (fst (snd jc)) (snd (snd jc)) (col (fst jc)))
      (combine (seq k (length cols)) (map (fun c => (sc_name c, sc_unit c)) cols)) = cols.
Proof.
  induction cols as [|c cols IH]; intros k H; [reflexivity|].
  cbn [length seq map combine fst snd]. f_equal.
  - specialize (H 0%nat c eq_refl). rewrite Nat.add_0_r in H. rewrite H. destruct c; reflexivity.
  - apply IH. intros j c' Hj. specialize (H (S j) c' Hj). rewrite <- H. f_equal. lia.
Qed.

(* unpack (pack t) = t for every well-formed table: names, units, values and metadata *)
Theorem unpack_pack t : wf_tab t -> unpack (header t) (st_meta t) (pack (col_names t) t) = t.
Proof.
  intros [Hnd Hlen]. unfold unpack, header, col_names. destruct t as [cols meta]. cbn [st_cols st_meta] in *.
  f_equal. rewrite map_length.
  apply (rebuild_cols (fun j => map (fun r => nth j r 0%Q) (pack (map sc_name cols) (mk_stab cols meta))) cols 0).
  intros j c Hj. cbn [Nat.add].
  assert (Hin : In c cols) by (eapply nth_error_In; exact Hj).
  rewrite (pack_column _ _ j (sc_name c)).
  - apply (get_col_in (mk_stab cols meta)); assumption.
  - rewrite nth_error_map, Hj. reflexivity.
  - rewrite (get_col_in (mk_stab cols meta)) by assumption. apply Hlen. exact Hin.
Qed.

(* packing in any requested order: row i of the matrix lists the requested columns' i-th entries *)
Lemma pack_shape names t : length (pack names t) = nrows t /\ forall r, In r (pack names t) -> length r = length names.
Proof.
  unfold pack. split; [rewrite map_length, seq_length; reflexivity|].
  intros r Hr. apply in_map_iff in Hr. destruct Hr as [i [<- _]]. apply map_length.
Qed.

(* ---- the other direction: unpack a rectangular matrix, pack it again ---- *)
Lemma find_combine_name (col : nat -> list Q) (hdr : list (nat * nat)) : forall k j nu,
  NoDup (map fst hdr) -> nth_error hdr j = Some nu ->
  find (fun c => Nat.eqb (sc_name c) (fst nu))
       (map (fun jc : nat * (nat * nat) => mk_scol (fst (snd jc)) (snd (snd jc)) (col (fst jc))) (combine (seq k (length hdr)) hdr))
  = Some (mk_scol (fst nu) (snd nu) (col (k + j)%nat)).
Proof.
  induction hdr as [|h hdr IH]; intros k j nu Hnd Hj; [destruct j; discriminate|].
  cbn [length seq combine map find fst snd sc_name].
  destruct j as [|j].
  - cbn in Hj. injection Hj as ->. rewrite Nat.eqb_refl, Nat.add_0_r. reflexivity.
  - cbn [nth_error] in Hj. cbn [map] in Hnd. inversion Hnd as [|x xs Hni Hnd']; subst.
    destruct (Nat.eqb (fst h) (fst nu)) eqn:E.
    + apply Nat.eqb_eq in E. exfalso. apply Hni. rewrite E. apply in_map. eapply nth_error_In; exact Hj.
    + rewrite (IH (S k) j nu Hnd' Hj). replace (S k + j)%nat with (k + S j)%nat by lia. reflexivity.
Qed.

Lemma map_nth_seq_row (r : list Q) n : length r = n -> map (fun j => nth j r 0%Q) (seq 0 n) = r.
Proof. intros <-. apply nth_seq_map. Qed.

Theorem pack_unpack_rows hdr m rows :
  hdr <> [] -> NoDup (map fst hdr) -> (forall r, In r rows -> length r = length hdr) ->
  pack (map fst hdr) (unpack hdr m rows) = rows.
Proof.
  intros Hne Hnd Hrect. unfold pack.
  assert (Hn : nrows (unpack hdr m rows) = length rows).
  { unfold nrows, unpack. cbn [st_cols]. destruct hdr as [|h hdr]; [congruence|]. cbn. apply map_length. }
  rewrite Hn.
  transitivity (map (fun i => nth i rows []) (seq 0 (length rows))); [|apply nth_seq_map].
  apply map_ext_in. intros i Hi. apply in_seq in Hi. destruct Hi as [_ Hi]. cbn [Nat.add] in Hi.
  set (r := nth i rows []). assert (Hr : In r rows) by (apply nth_In; exact Hi).
  etransitivity; [|apply (map_nth_seq_row r (length hdr) (Hrect r Hr))].
  assert (Hh : map fst hdr = map (fun j => fst (nth j hdr (0, 0)%nat)) (seq 0 (length hdr)))
    by (rewrite <- (map_map (fun j => nth j hdr (0, 0)%nat) fst), nth_seq_map; reflexivity).
  rewrite Hh, map_map.
  apply map_ext_in. intros j Hj. apply in_seq in Hj. destruct Hj as [_ Hj]. cbn [Nat.add] in Hj.
  destruct (nth_error hdr j) as [nu|] eqn:Enu; [|apply nth_error_None in Enu; lia].
  rewrite (nth_error_nth _ _ _ Enu).
  unfold get_col, unpack. cbn [st_cols].
  rewrite (find_combine_name (fun j0 => map (fun r0 => nth j0 r0 0%Q) rows) hdr 0 j nu Hnd Enu). cbn [sc_vals Nat.add].
  set (g := fun r0 : list Q => nth j r0 0%Q).
  rewrite (nth_indep _ 0%Q (g [])) by (rewrite map_length; exact Hi).
  rewrite map_nth. reflexivity.
Qed.
